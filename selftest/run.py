#!/usr/bin/env python3
"""Checker self-test: applies each seeded variant to a scratch git worktree of /repo (never to
/repo itself), runs the corresponding check against it (VERIF_REPO), and records whether the
expected rule reported the edited instance. Informational: never part of a check's verdict.

usage: selftest/run.py [--only ID[,ID..]] [--jobs N]
Results: selftest/results.json
"""
import argparse
import json
import os
import re
import shutil
import subprocess
import sys
import time

HERE = os.path.dirname(os.path.abspath(__file__))
VERIF = os.path.dirname(HERE)
sys.path.insert(0, HERE)
from variants import V  # noqa: E402

SCRATCH = "/tmp/verif-selftest-%d" % os.getpid()


def sh(cmd, **kw):
    return subprocess.run(cmd, shell=True, text=True, stdout=subprocess.PIPE, stderr=subprocess.STDOUT, **kw)


def main():
    ap = argparse.ArgumentParser()
    ap.add_argument("--only", default="")
    args = ap.parse_args()
    only = set(x for x in args.only.split(",") if x)
    sh("git -C /repo worktree prune")
    if os.path.exists(SCRATCH):
        sh("git -C /repo worktree remove --force %s" % SCRATCH)
        shutil.rmtree(SCRATCH, ignore_errors=True)
    r = sh("git -C /repo worktree add -q --detach %s HEAD" % SCRATCH)
    if r.returncode != 0:
        print(r.stdout)
        sys.exit(2)
    evdir = "/tmp/verif-selftest-evidence-%d" % os.getpid()
    os.makedirs(evdir, exist_ok=True)
    results = []
    try:
        for var in V:
            if only and var["id"] not in only:
                continue
            sh("git -C %s checkout -q -- ." % SCRATCH)
            path = os.path.join(SCRATCH, var["file"])
            src = open(path).read()
            n = src.count(var["old"])
            if n != 1:
                results.append({"id": var["id"], "prop": var["prop"], "status": "stale", "detail": "old text found %d times" % n, "note": var["note"]})
                print("%-4s %-4s STALE (%d matches) %s" % (var["id"], var["prop"], n, var["note"]))
                continue
            open(path, "w").write(src.replace(var["old"], var["new"]))
            t0 = time.time()
            env = dict(os.environ, VERIF_REPO=SCRATCH, VERIF_EVIDENCE_DIR=evdir)
            p = subprocess.run(["./check", var["prop"]], cwd=VERIF, env=env, text=True, stdout=subprocess.PIPE, stderr=subprocess.STDOUT)
            out = p.stdout
            keys = re.findall(r"^(C\d+\.R\w+): (.*)$", out, flags=re.M)
            viol = [k[1] for k in keys]
            build_failed = "fact extraction failed" in out or "error[E" in out or "could not compile" in out
            if build_failed:
                status = "does-not-compile"
            elif var["expect"] is None:
                status = "silent-ok" if p.returncode == 0 else "FALSE-ALARM"
            else:
                hit = [k for k in viol if re.search(var["expect"], k)]
                status = "caught" if hit and p.returncode == 1 else "MISSED"
            results.append({"id": var["id"], "prop": var["prop"], "status": status, "violations": viol[:8], "expect": var["expect"], "note": var["note"], "wall_s": round(time.time() - t0, 1)})
            print("%-4s %-4s %-16s %s  %s" % (var["id"], var["prop"], status, var["note"], ("-> " + "; ".join(v[:70] for v in viol[:3])) if viol else ""), flush=True)
            if build_failed:
                print(out[-1500:])
    finally:
        sh("git -C /repo worktree remove --force %s" % SCRATCH)
        shutil.rmtree(SCRATCH, ignore_errors=True)
        shutil.rmtree(evdir, ignore_errors=True)
    summary = {}
    for r in results:
        summary[r["status"]] = summary.get(r["status"], 0) + 1
    head = subprocess.check_output(["git", "-C", "/repo", "rev-parse", "--short", "HEAD"], text=True).strip()
    if not only:
        with open(os.path.join(HERE, "results.json"), "w") as fh:
            json.dump({"repo_head": head, "summary": summary, "results": results}, fh, indent=1)
    elif os.environ.get("SELFTEST_MERGE"):
        # re-run of single variants: replace their entries in the stored results
        rp = os.path.join(HERE, "results.json")
        old = json.load(open(rp))
        byid = {r["id"]: r for r in results}
        merged = [byid.pop(r["id"], r) for r in old["results"]] + list(byid.values())
        summ = {}
        for r in merged:
            summ[r["status"]] = summ.get(r["status"], 0) + 1
        with open(rp, "w") as fh:
            json.dump({"repo_head": head, "summary": summ, "results": merged}, fh, indent=1)
    print(summary)


if __name__ == "__main__":
    main()

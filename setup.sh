#!/bin/bash
# Offline setup: build the mirfacts driver and pre-warm the dependency metadata of /repo for the
# default configuration (so that the first check does not pay the ~1 min cold `cargo check`).
set -e
cd "$(dirname "$0")"
export CARGO_NET_OFFLINE=true
(cd mirfacts && cargo build --release --offline)
python3 - <<'PY'
import sys, os
sys.path.insert(0, os.path.dirname(os.path.abspath("check")))
from rules import engine
p, h, s, cached = engine.extract("default")
print("facts:", p, "extract_s=%.1f" % s, "cached=%s" % cached)
PY

#!/usr/bin/env python3
"""Regenerates MANIFEST.json from the rule modules present (rules/Cxx.py)."""
import importlib, json, os, sys
HERE = os.path.dirname(os.path.abspath(__file__))
sys.path.insert(0, HERE)

AI = "abstract interpretation of the function's MIR over opaque tokens and small integers, case-split by an oracle that answers what the environment decides (K6'), compared with a table written from the property text"
TECH = {
    "C01": AI + " (ranger::Store::process_message with awaits driven to completion on a grid of local key sets, ranges, peer fingerprints and split configurations; put / Record order; as_fingerprint over a hasher model) + accounting placement (scope / dominance)",
    "C02": AI + " (put admission/prune, Record order) + provenance/dominance rules for the prefix bounds (custom rustc_private driver)",
    "C03": "interprocedural call-site dominance (ensures fixpoint), who-may-construct, provenance of the reference time at every call site; validate_entry / validate_empty / signature verification tables and the gossip receive loop on message scripts by " + AI,
    "C05": AI + " (index selection, selector, full query window over QueryIterator::next with persistent state, stale-index scan) + provenance rules" + " + the store-actor handlers and SyncHandle methods evaluated as forwarders (K14b)",
    "C06": "bottom-up, order-sensitive effect summaries (Mutate/MayCommit over the call graph; commit reachable after a mutation in the control flow of the operation or of any function on its call tree) + who-may-write / who-may-commit over MIR + " + AI + " (shared-transaction manager as a transition table)",
    "C07": AI + " (merge table, import transaction, actor import handler, secret_key, the RPC import handler, raw/from_raw round trip, migration 002, the file-format migration) + who-may-write (field, table)" + " + the store-actor handlers and SyncHandle methods evaluated as forwarders (K14b)",
    "C08": AI + " (get_range scans and bounds, fingerprint fold, bytewise xor on concrete values, get_first) + key-shape / component-map provenance",
    "C09": AI + " with a byte-buffer model in which an out-of-bounds index or failed unwrap diverges (decoder and encoder grids; identifier constructor; Display/FromStr round trip on concrete strings; ticket decoder) + panic-site audit",
    "C10": AI + " with awaits driven to completion: acceptor and initiator sessions over all frame scripts up to a bound, into_outcome on every final state; + gate table + panic-site audit" + " + the store-actor handlers and SyncHandle methods evaluated as forwarders (K14b)",
    "C11": AI + " (four transition tables, tie-break) + who-may-write + dominance rules in the live actor",
    "C12": "who-may-call + edge dominance + provenance over MIR; per-subscriber delivery future, the send_with gate on subscriber lists and policy semantics by " + AI + " + the store-actor handlers, SyncHandle methods and the gossip receive loop evaluated as forwarders (K14b)",
    "C13": "control dependence of the head write; news predicate, insert-keeps-maximum and bounded newest-first encoding by " + AI + " (abstract collections)" + " + the store-actor handlers and SyncHandle methods evaluated as forwarders (K14b)",
    "C14": "effect-based gate dominance + who-may-call; gates, open/close counting and the RPC open/close handlers by " + AI + " + the store-actor handlers and SyncHandle methods evaluated as forwarders (K14b)",
    "C15": AI + " (matches on concrete strings, set_download_policy transaction, Display/FromStr round trip, RPC handlers, store-actor handlers (K14b), the live actor's remote-insert handler, file-format migration) + who-may-write",
    "C16": "program-derived exhaustiveness over the fields of Tables + provenance lifted to the API parameter + discarded-result analysis; remove_replica on a concrete namespace with erased ranges decided on sample keys, gc-protect task and callback, the content-hash iterator over scripted rows, RPC drop handler by " + AI,
    "C17": AI + " (registration simulated on every table size and position incl. other documents' rows, RPC handler, file-format migration) + constant evaluation + reverse-iteration rule" + " + the store-actor handlers and SyncHandle methods evaluated as forwarders (K14b)",
    "C18": AI + " (migrations 001 / 004 over an abstract records table, migrations 002 / 003 over the table list, entry_put, index reader, file-format migration) + must-pass-through per migration + dominance",
}
for _p, _t in {
    "C01": " + one session step of the replica and the opening message evaluated",
    "C03": " + the validate closure and every PublicKeyStore::public_key implementation evaluated",
    "C05": " + point lookup and query builder evaluated",
    "C06": " + crate-wide discarded-result inventory over the storage layer",
    "C07": " + load_replica_info / new_replica and the doc_set / doc_create handlers evaluated",
    "C11": " + the namespace-level slot operations evaluated on a nested map model; who-may-shrink the per-peer map",
    "C12": " + the replica's ingress functions, the reconciliation callbacks, the API event conversion and the doc_drop handler evaluated",
    "C17": " + who-may-write the peers table",
    "C18": " + interprocedural ensures(run_migrations) for Store::persistent",
}.items():
    TECH[_p] = TECH[_p] + _t

NA = {
    "C04": "quantifies over interleavings of writes, lossy broadcast, aborted sessions and restarts across 2-5 replicas; it has no "
           "structural clause of its own that a static analysis can decide: its only shape-visible part (no replica holds an entry "
           "nobody wrote: every ingress is validated) is exactly C03.R1/R5 + C14.R1 and is decided there",
}


def main():
    props = [json.loads(l)["id"] for l in open(os.path.join(HERE, "properties.jsonl"))]
    checks = []
    na = []
    for p in props:
        if p in NA:
            na.append({"property_id": p, "reason": NA[p]})
            continue
        if not os.path.exists(os.path.join(HERE, "rules", p + ".py")):
            na.append({"property_id": p, "reason": "check under construction in this round (static rules planned in DESIGN.md section 3; not yet claimed)"})
            continue
        mod = importlib.import_module("rules." + p)
        checks.append({
            "property_id": p,
            "quick_cmd": "./check %s --tier quick" % p,
            "thorough_cmd": "./check %s --tier thorough" % p,
            "evidence_file": "/verif/evidence/%s.json" % p,
            "replay_cmd_template": "./check %s --replay {path}" % p,
            "engine": "mirfacts+rules",
            "level_claimed": {
                "category": "other",
                "text": "Static analysis over the type-checked program (MIR of /repo's working tree, extracted by a rustc_private driver; no repository code is executed). "
                        + mod.EXPLANATION + " The verdict covers every path of the analysed functions for the named structural clauses only; it is a set of necessary conditions of the property, not the behavioural statement itself.",
                "design_ref": "DESIGN.md section 3 (%s)" % p,
            },
            "level_note": "Trusted base: rustc type checking and MIR construction (mir_built), the mirfacts driver, rules/*.py. Assumptions: " + "; ".join(mod.ASSUMPTIONS),
            "technique": TECH.get(p, "static analysis over MIR"),
        })
    man = {
        "version": 1,
        "setup_cmd": "./setup.sh",
        "hooks": {
            "guard": "iroh_docs_verif",
            "enable": "RUSTFLAGS=\"--cfg iroh_docs_verif\" (used only by reproducers under /verif/repro; the checks analyse the product configuration, and the thorough tier additionally analyses the guard-on configuration)",
            "baseline_off_cmd": "cd /repo && cargo nextest run --workspace --no-fail-fast --offline --test-threads 8 || cargo test --workspace --no-fail-fast --offline",
            "source_commits": json.load(open(os.path.join(HERE, "hook_commits.json"))) if os.path.exists(os.path.join(HERE, "hook_commits.json")) else [],
            "add_only": True,
        },
        "engines": [
            {"name": "mirfacts", "path": "mirfacts/", "serves_properties": [c["property_id"] for c in checks],
             "kind_free_text": "nightly rustc_private driver injected via RUSTC_WORKSPACE_WRAPPER under cargo +nightly check; dumps mir_built of every body of the iroh_docs lib crate as JSON facts (resolved callees, types, CFG, spans, expansion info)"},
            {"name": "rules", "path": "rules/", "serves_properties": [c["property_id"] for c in checks],
             "kind_free_text": "Python rule library over the facts: CFG/dominators, provenance (def-use), edge dominance, ensures-fixpoint, effect summaries, finite path evaluation (K6), abstract interpreter over MIR with oracle-driven case split (K6', feval.py: tokens, small integers, heap, closures, Option/Result, awaits driven to completion, abstract collections), table identification by type"},
        ],
        "checks": checks,
        "not_applicable": na,
        "notes": "All checks are static: they inspect /repo's current source through the compiler's MIR on every run (facts are cached by a content hash of src/, Cargo.toml, Cargo.lock, build.rs and the driver). Known findings are listed in known_findings.jsonl; see DESIGN.md.",
    }
    with open(os.path.join(HERE, "MANIFEST.json"), "w") as fh:
        json.dump(man, fh, indent=1)
    print("claimed:", [c["property_id"] for c in checks])
    print("not_applicable:", [x["property_id"] for x in na])


if __name__ == "__main__":
    main()

//! Compile-fail witnesses (thorough tier): code outside the crate cannot reach the
//! crate-internal entry points that the who-may-call / who-may-write tables of C03, C06, C07
//! and C12 are closed over. Every `compile_fail` block has a compiling twin that differs only
//! by the offending line, so that a witness cannot pass merely because a path is wrong.
//! Run with `cargo +nightly test --doc --offline` (error codes are checked on nightly only).

/// C03/C12: the unvalidated insertion primitive `Replica::insert_entry` is private.
/// ```compile_fail,E0624
/// async fn f(mut r: iroh_docs::sync::Replica<'_>, e: iroh_docs::sync::SignedEntry) {
///     let _ = r.insert_entry(e, iroh_docs::sync::InsertOrigin::Local).await;
/// }
/// ```
/// Twin (the validated ingress is public):
/// ```
/// async fn f(mut r: iroh_docs::sync::Replica<'_>, e: iroh_docs::sync::SignedEntry) {
///     let _ = r.insert_remote_entry(e, [0u8; 32], iroh_docs::sync::ContentStatus::Missing).await;
/// }
/// ```
pub struct InsertEntryIsPrivate;

/// C03: a `SignedEntry` cannot be assembled from an arbitrary signature outside the crate.
/// ```compile_fail,E0624
/// fn f(sig: iroh_docs::sync::EntrySignature, e: iroh_docs::sync::Entry) -> iroh_docs::sync::SignedEntry {
///     iroh_docs::sync::SignedEntry::new(sig, e)
/// }
/// ```
/// Twin (signing with the keys is public):
/// ```
/// fn f(ns: &iroh_docs::NamespaceSecret, a: &iroh_docs::Author, e: iroh_docs::sync::Entry) -> iroh_docs::sync::SignedEntry {
///     iroh_docs::sync::SignedEntry::from_entry(e, ns, a)
/// }
/// ```
pub struct SignedEntryNewIsPrivate;

/// C07: the in-memory capability of an open replica cannot be assigned from outside.
/// ```compile_fail,E0616
/// fn f(info: &mut iroh_docs::sync::ReplicaInfo, c: iroh_docs::Capability) {
///     info.capability = c;
/// }
/// ```
/// Twin (merging, which never downgrades, is public):
/// ```
/// fn f(info: &mut iroh_docs::sync::ReplicaInfo, c: iroh_docs::Capability) {
///     let _ = info.merge_capability(c);
/// }
/// ```
pub struct CapabilityFieldIsPrivate;

/// C06: the shared write transaction cannot be reached from outside (`Store::modify`).
/// ```compile_fail,E0624
/// fn f(s: &mut iroh_docs::store::Store) {
///     let _ = s.modify(|_tables| Ok(()));
/// }
/// ```
/// Twin:
/// ```
/// fn f(s: &mut iroh_docs::store::Store) {
///     let _ = s.flush();
/// }
/// ```
pub struct StoreModifyIsPrivate;

/// C03/C06: the reconciliation storage trait (`put`, `entry_put`) lives in a private module.
/// ```compile_fail,E0603
/// fn f<S: iroh_docs::ranger::Store<iroh_docs::sync::SignedEntry>>(_s: S) {}
/// ```
/// Twin (the message type alias is public):
/// ```
/// fn f(_m: iroh_docs::ProtocolMessage) {}
/// ```
pub struct RangerIsPrivate;

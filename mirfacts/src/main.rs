//! mirfacts — a rustc_private driver that dumps source-shaped MIR (`mir_built`) of selected
//! crates as JSON lines. It is injected with RUSTC_WORKSPACE_WRAPPER under
//! `cargo +nightly check`; for every crate not selected it behaves exactly like rustc.
//!
//! Environment:
//!   MIRFACTS_OUT     directory that receives `<crate>.<pid>.jsonl` (one write per process)
//!   MIRFACTS_CRATES  comma separated crate names to dump (default: iroh_docs)
//!   MIRFACTS_NONCE   copied into the meta line so the caller can assert freshness
#![feature(rustc_private)]
#![allow(clippy::all)]

extern crate rustc_abi;
extern crate rustc_driver;
extern crate rustc_hir;
extern crate rustc_interface;
extern crate rustc_middle;
extern crate rustc_span;

use std::fmt::Write as _;

use rustc_hir::def::DefKind;
use rustc_hir::def_id::{DefId, LocalDefId, LOCAL_CRATE};
use rustc_middle::mir::{
    self, AggregateKind, BasicBlock, Body, Operand, Place, PlaceElem, Rvalue, StatementKind,
    TerminatorKind,
};
use rustc_middle::ty::print::{with_no_trimmed_paths, with_forced_trimmed_paths};
use rustc_middle::ty::{self, Instance, Ty, TyCtxt, TypeVisitableExt, TypingEnv};
#[allow(unused_imports)]
use rustc_middle::ty::TypeVisitableExt as _;
use rustc_span::Span;

struct Cb;

impl rustc_driver::Callbacks for Cb {
    fn after_expansion<'tcx>(
        &mut self,
        _compiler: &rustc_interface::interface::Compiler,
        tcx: TyCtxt<'tcx>,
    ) -> rustc_driver::Compilation {
        let wanted = std::env::var("MIRFACTS_CRATES").unwrap_or_else(|_| "iroh_docs".to_string());
        let name = tcx.crate_name(LOCAL_CRATE).to_string();
        if wanted.split(',').any(|w| w == name) {
            if let Ok(dir) = std::env::var("MIRFACTS_OUT") {
                let out = dump_crate(tcx, &name);
                let path = format!("{}/{}.{}.jsonl", dir, name, std::process::id());
                std::fs::write(&path, out).expect("mirfacts: cannot write fact file");
            }
        }
        rustc_driver::Compilation::Continue
    }
}

fn main() {
    let mut args: Vec<String> = std::env::args().collect();
    // RUSTC_WORKSPACE_WRAPPER passes the real rustc path as argv[1]
    if args.len() > 1 && (args[1].ends_with("rustc") || args[1].contains("/rustc")) {
        args.remove(1);
    }
    rustc_driver::run_compiler(&args, &mut Cb);
}

// ---------------------------------------------------------------- JSON helpers

fn js(s: &str) -> String {
    let mut o = String::with_capacity(s.len() + 2);
    o.push('"');
    for c in s.chars() {
        match c {
            '"' => o.push_str("\\\""),
            '\\' => o.push_str("\\\\"),
            '\n' => o.push_str("\\n"),
            '\r' => o.push_str("\\r"),
            '\t' => o.push_str("\\t"),
            c if (c as u32) < 0x20 => {
                let _ = write!(o, "\\u{:04x}", c as u32);
            }
            c => o.push(c),
        }
    }
    o.push('"');
    o
}

fn jopt(s: Option<String>) -> String {
    match s {
        Some(s) => js(&s),
        None => "null".to_string(),
    }
}

fn jarr(items: Vec<String>) -> String {
    format!("[{}]", items.join(","))
}

// ---------------------------------------------------------------- printing helpers

fn dpath(tcx: TyCtxt<'_>, did: DefId) -> String {
    with_no_trimmed_paths!(tcx.def_path_str(did))
}

fn dpath_args<'tcx>(tcx: TyCtxt<'tcx>, did: DefId, args: ty::GenericArgsRef<'tcx>) -> String {
    with_no_trimmed_paths!(tcx.def_path_str_with_args(did, args))
}

fn tystr(ty: Ty<'_>) -> String {
    with_no_trimmed_paths!(ty.to_string())
}

/// DefId behind a type (peeling references, raw pointers and Box-like single wrappers is left
/// to the consumer; only refs/ptrs are peeled here).
fn ty_def<'tcx>(tcx: TyCtxt<'tcx>, mut ty: Ty<'tcx>) -> Option<String> {
    loop {
        match ty.kind() {
            ty::Ref(_, inner, _) => ty = *inner,
            ty::RawPtr(inner, _) => ty = *inner,
            ty::Adt(def, _) => return Some(dpath(tcx, def.did())),
            ty::Closure(did, _) | ty::Coroutine(did, _) | ty::CoroutineClosure(did, _) => {
                return Some(dpath(tcx, *did))
            }
            ty::FnDef(did, _) => return Some(dpath(tcx, *did)),
            _ => return None,
        }
    }
}

fn span_json(tcx: TyCtxt<'_>, span: Span) -> (String, String) {
    // location: the user-visible call site for expansions
    let sm = tcx.sess.source_map();
    let site = span.source_callsite();
    let loc = sm.lookup_char_pos(site.lo());
    let file = match &loc.file.name {
        rustc_span::FileName::Real(r) => match r.local_path() {
            Some(p) => p.display().to_string(),
            None => format!("{:?}", r),
        },
        other => format!("{:?}", other),
    };
    let pos = format!("{}:{}:{}", file, loc.line, loc.col.0 + 1);
    let exp = if span.from_expansion() {
        let mut names: Vec<String> = Vec::new();
        let data = span.ctxt().outer_expn_data();
        match data.kind {
            rustc_span::ExpnKind::Desugaring(k) => names.push(format!("d:{:?}", k)),
            rustc_span::ExpnKind::AstPass(k) => names.push(format!("a:{:?}", k)),
            rustc_span::ExpnKind::Root => names.push("root".to_string()),
            rustc_span::ExpnKind::Macro(..) => {}
        }
        for e in span.macro_backtrace() {
            if let rustc_span::ExpnKind::Macro(_, n) = e.kind {
                names.push(format!("m:{}", n));
            }
        }
        js(&names.join(">"))
    } else {
        "null".to_string()
    };
    (js(&pos), exp)
}

struct Cx<'a, 'tcx> {
    tcx: TyCtxt<'tcx>,
    body: &'a Body<'tcx>,
    owner: LocalDefId,
    env: TypingEnv<'tcx>,
}

impl<'a, 'tcx> Cx<'a, 'tcx> {
    fn place(&self, p: &Place<'tcx>) -> String {
        let mut projs: Vec<String> = Vec::new();
        for (base, elem) in p.iter_projections() {
            let s = match elem {
                PlaceElem::Deref => "[\"deref\"]".to_string(),
                PlaceElem::Field(f, fty) => {
                    let bty = base.ty(self.body, self.tcx);
                    let name = self.field_name(bty, f.as_usize());
                    format!(
                        "[\"field\",{},{},{}]",
                        f.as_usize(),
                        jopt(name),
                        js(&tystr(fty))
                    )
                }
                PlaceElem::Downcast(name, idx) => format!(
                    "[\"downcast\",{},{}]",
                    idx.as_usize(),
                    jopt(name.map(|n| n.to_string()))
                ),
                PlaceElem::Index(l) => format!("[\"index\",{}]", l.as_usize()),
                PlaceElem::ConstantIndex { offset, min_length, from_end } => {
                    format!("[\"cindex\",{},{},{}]", offset, min_length, from_end)
                }
                PlaceElem::Subslice { from, to, from_end } => {
                    format!("[\"subslice\",{},{},{}]", from, to, from_end)
                }
                other => format!("[\"other\",{}]", js(&format!("{:?}", other))),
            };
            projs.push(s);
        }
        format!("{{\"l\":{},\"p\":{}}}", p.local.as_usize(), jarr(projs))
    }

    fn field_name(&self, bty: mir::PlaceTy<'tcx>, idx: usize) -> Option<String> {
        match bty.ty.kind() {
            ty::Adt(def, _) => {
                let v = match bty.variant_index {
                    Some(v) => v,
                    None => {
                        if def.is_enum() {
                            return None;
                        }
                        rustc_abi::FIRST_VARIANT
                    }
                };
                let variant = def.variant(v);
                variant
                    .fields
                    .iter()
                    .nth(idx)
                    .map(|f| f.name.to_string())
            }
            ty::Closure(did, _) | ty::Coroutine(did, _) | ty::CoroutineClosure(did, _) => {
                let did = did.as_local()?;
                let caps = self.tcx.closure_captures(did);
                caps.get(idx).map(|c| c.to_symbol().to_string())
            }
            _ => None,
        }
    }

    fn operand(&self, o: &Operand<'tcx>) -> String {
        match o {
            Operand::Copy(p) => format!("[\"copy\",{}]", self.place(p)),
            Operand::Move(p) => format!("[\"move\",{}]", self.place(p)),
            Operand::Constant(c) => format!("[\"const\",{}]", self.constant(c)),
            #[allow(unreachable_patterns)]
            other => format!("[\"other\",{}]", js(&format!("{:?}", other))),
        }
    }

    fn constant(&self, c: &mir::ConstOperand<'tcx>) -> String {
        let tcx = self.tcx;
        let ty = c.const_.ty();
        let mut fields: Vec<String> = vec![format!("\"ty\":{}", js(&tystr(ty)))];
        match ty.kind() {
            ty::FnDef(did, args) => {
                fields.push(format!("\"fn\":{}", js(&dpath(tcx, *did))));
                fields.push(format!("\"fn_full\":{}", js(&dpath_args(tcx, *did, args))));
            }
            _ => {}
        }
        // named constant?
        if let mir::Const::Unevaluated(uv, _) = c.const_ {
            fields.push(format!("\"def\":{}", js(&dpath(tcx, uv.def))));
            if uv.promoted.is_some() {
                fields.push("\"promoted\":true".to_string());
            }
        }
        let is_scalarish = ty.is_integral() || ty.is_bool() || ty.is_char();
        if is_scalarish {
            // named constants are evaluated in the crate-level pass (after every body has been
            // borrowed): const evaluation may steal the mir_built of a local const fn.
            // constants of other crates (u8::MAX, ...) cannot steal local MIR: evaluate them here
            let foreign_named = matches!(c.const_, mir::Const::Unevaluated(uv, _) if !uv.def.is_local() && uv.promoted.is_none());
            let evaluable = matches!(c.const_, mir::Const::Val(..)) || foreign_named;
            if evaluable {
                if let Some(si) = c.const_.try_eval_scalar_int(tcx, self.env) {
                    let size = si.size();
                    let v: i128 = if ty.is_signed() {
                        si.to_int(size)
                    } else {
                        si.to_uint(size) as i128
                    };
                    fields.push(format!("\"val\":{}", v));
                }
            }
        }
        if let mir::Const::Val(mir::ConstValue::Slice { .. }, sty) = c.const_ {
            if let mir::Const::Val(cv, _) = c.const_ {
                if let Some(bytes) = cv.try_get_slice_bytes_for_diagnostics(tcx) {
                    let is_str = matches!(sty.kind(), ty::Ref(_, inner, _) if inner.is_str());
                    if is_str {
                        fields.push(format!(
                            "\"str\":{}",
                            js(&String::from_utf8_lossy(bytes))
                        ));
                    } else {
                        let v: Vec<String> = bytes.iter().map(|b| b.to_string()).collect();
                        fields.push(format!("\"bytes\":[{}]", v.join(",")));
                    }
                }
            }
        }
        fields.push(format!("\"repr\":{}", js(&with_no_trimmed_paths!(format!("{}", c.const_)))));
        format!("{{{}}}", fields.join(","))
    }

    fn rvalue(&self, r: &Rvalue<'tcx>) -> String {
        let tcx = self.tcx;
        match r {
            Rvalue::Use(o, ..) => format!("[\"use\",{}]", self.operand(o)),
            Rvalue::Ref(_, bk, p) => {
                let k = match bk {
                    mir::BorrowKind::Shared => "shared",
                    mir::BorrowKind::Fake(_) => "fake",
                    mir::BorrowKind::Mut { .. } => "mut",
                };
                format!("[\"ref\",\"{}\",{}]", k, self.place(p))
            }
            Rvalue::RawPtr(_, p) => format!("[\"rawptr\",{}]", self.place(p)),
            Rvalue::CopyForDeref(p) => format!("[\"cfd\",{}]", self.place(p)),
            Rvalue::Discriminant(p) => format!("[\"discr\",{}]", self.place(p)),
            Rvalue::BinaryOp(op, ab) => format!(
                "[\"bin\",\"{:?}\",{},{}]",
                op,
                self.operand(&ab.0),
                self.operand(&ab.1)
            ),
            Rvalue::UnaryOp(op, a) => format!("[\"un\",\"{:?}\",{}]", op, self.operand(a)),
            Rvalue::Cast(kind, o, ty) => format!(
                "[\"cast\",{},{},{}]",
                js(&format!("{:?}", kind)),
                self.operand(o),
                js(&tystr(*ty))
            ),
            Rvalue::Aggregate(kind, ops) => {
                let k = match &**kind {
                    AggregateKind::Tuple => "[\"tuple\"]".to_string(),
                    AggregateKind::Array(_) => "[\"array\"]".to_string(),
                    AggregateKind::Adt(did, vidx, args, _, _) => {
                        let def = tcx.adt_def(*did);
                        let variant = def.variant(*vidx);
                        let fnames: Vec<String> =
                            variant.fields.iter().map(|f| js(f.name.as_str())).collect();
                        format!(
                            "[\"adt\",{},{},{},{},{}]",
                            js(&dpath(tcx, *did)),
                            js(variant.name.as_str()),
                            vidx.as_usize(),
                            jarr(fnames),
                            js(&dpath_args(tcx, *did, args))
                        )
                    }
                    AggregateKind::Closure(did, _) => {
                        format!("[\"closure\",{}]", js(&dpath(tcx, *did)))
                    }
                    AggregateKind::Coroutine(did, _) => {
                        format!("[\"coroutine\",{}]", js(&dpath(tcx, *did)))
                    }
                    AggregateKind::CoroutineClosure(did, _) => {
                        format!("[\"coroutine_closure\",{}]", js(&dpath(tcx, *did)))
                    }
                    AggregateKind::RawPtr(..) => "[\"rawptr\"]".to_string(),
                };
                let o: Vec<String> = ops.iter().map(|o| self.operand(o)).collect();
                format!("[\"agg\",{},{}]", k, jarr(o))
            }
            Rvalue::Repeat(o, _) => format!("[\"repeat\",{}]", self.operand(o)),
            other => format!("[\"other\",{}]", js(&format!("{:?}", other))),
        }
    }

    fn callee(&self, func: &Operand<'tcx>) -> String {
        let tcx = self.tcx;
        let fty = func.ty(self.body, tcx);
        match fty.kind() {
            ty::FnDef(did, args) => {
                let mut fields = vec![
                    format!("\"path\":{}", js(&dpath(tcx, *did))),
                    format!("\"full\":{}", js(&dpath_args(tcx, *did, args))),
                ];
                let gargs: Vec<String> = args
                    .iter()
                    .filter_map(|a| a.as_type())
                    .map(|t| js(&tystr(t)))
                    .collect();
                fields.push(format!("\"targs\":{}", jarr(gargs)));
                let gdefs: Vec<String> = args
                    .iter()
                    .filter_map(|a| a.as_type())
                    .map(|t| jopt(ty_def(tcx, t)))
                    .collect();
                fields.push(format!("\"tdefs\":{}", jarr(gdefs)));
                // trait method? record the trait
                if let Some(assoc) = tcx.opt_associated_item(*did) {
                    if let Some(tr) = assoc.trait_container(tcx) {
                        fields.push(format!("\"trait\":{}", js(&dpath(tcx, tr))));
                    }
                    fields.push(format!("\"name\":{}", js(assoc.name().as_str())));
                } else {
                    fields.push(format!("\"name\":{}", js(tcx.item_name(*did).as_str())));
                }
                // resolution
                let resolvable = !args.has_infer();
                if resolvable {
                    if let Ok(Some(inst)) = Instance::try_resolve(tcx, self.env, *did, args) {
                        let rd = inst.def_id();
                        fields.push(format!("\"res\":{}", js(&dpath(tcx, rd))));
                        fields.push(format!(
                            "\"res_full\":{}",
                            js(&dpath_args(tcx, rd, inst.args))
                        ));
                        fields.push(format!("\"res_kind\":{}", js(inst_kind(&inst))));
                    }
                }
                format!("{{{}}}", fields.join(","))
            }
            _ => format!(
                "{{\"indirect\":true,\"op\":{},\"ty\":{}}}",
                self.operand(func),
                js(&tystr(fty))
            ),
        }
    }

    fn bb(b: BasicBlock) -> usize {
        b.as_usize()
    }

    fn obb(b: Option<BasicBlock>) -> String {
        match b {
            Some(b) => b.as_usize().to_string(),
            None => "null".to_string(),
        }
    }

    fn unwind(u: &mir::UnwindAction) -> String {
        match u {
            mir::UnwindAction::Cleanup(b) => b.as_usize().to_string(),
            _ => "null".to_string(),
        }
    }

    fn terminator(&self, t: &mir::Terminator<'tcx>) -> String {
        let (sp, x) = span_json(self.tcx, t.source_info.span);
        let tail = format!("\"sp\":{},\"x\":{}", sp, x);
        match &t.kind {
            TerminatorKind::Goto { target } => {
                format!("{{\"k\":\"goto\",\"t\":{},{}}}", Self::bb(*target), tail)
            }
            TerminatorKind::SwitchInt { discr, targets } => {
                let vs: Vec<String> = targets
                    .iter()
                    .map(|(v, b)| format!("[{},{}]", v, Self::bb(b)))
                    .collect();
                format!(
                    "{{\"k\":\"switch\",\"d\":{},\"v\":{},\"o\":{},\"dty\":{},{}}}",
                    self.operand(discr),
                    jarr(vs),
                    Self::bb(targets.otherwise()),
                    js(&tystr(discr.ty(self.body, self.tcx))),
                    tail
                )
            }
            TerminatorKind::Call { func, args, destination, target, unwind, .. } => {
                let a: Vec<String> = args.iter().map(|a| self.operand(&a.node)).collect();
                format!(
                    "{{\"k\":\"call\",\"f\":{},\"a\":{},\"d\":{},\"t\":{},\"u\":{},{}}}",
                    self.callee(func),
                    jarr(a),
                    self.place(destination),
                    Self::obb(*target),
                    Self::unwind(unwind),
                    tail
                )
            }
            TerminatorKind::TailCall { func, args, .. } => {
                let a: Vec<String> = args.iter().map(|a| self.operand(&a.node)).collect();
                format!(
                    "{{\"k\":\"tailcall\",\"f\":{},\"a\":{},{}}}",
                    self.callee(func),
                    jarr(a),
                    tail
                )
            }
            TerminatorKind::Assert { cond, expected, msg, target, unwind } => {
                let kind = assert_kind(msg);
                format!(
                    "{{\"k\":\"assert\",\"c\":{},\"e\":{},\"m\":{},\"t\":{},\"u\":{},{}}}",
                    self.operand(cond),
                    expected,
                    js(kind),
                    Self::bb(*target),
                    Self::unwind(unwind),
                    tail
                )
            }
            TerminatorKind::Return => format!("{{\"k\":\"return\",{}}}", tail),
            TerminatorKind::Unreachable => format!("{{\"k\":\"unreachable\",{}}}", tail),
            TerminatorKind::UnwindResume => format!("{{\"k\":\"resume\",{}}}", tail),
            TerminatorKind::UnwindTerminate(_) => format!("{{\"k\":\"terminate\",{}}}", tail),
            TerminatorKind::Drop { place, target, unwind, .. } => format!(
                "{{\"k\":\"drop\",\"p\":{},\"t\":{},\"u\":{},{}}}",
                self.place(place),
                Self::bb(*target),
                Self::unwind(unwind),
                tail
            ),
            TerminatorKind::Yield { value, resume, resume_arg, drop } => format!(
                "{{\"k\":\"yield\",\"v\":{},\"t\":{},\"p\":{},\"drop\":{},{}}}",
                self.operand(value),
                Self::bb(*resume),
                self.place(resume_arg),
                Self::obb(*drop),
                tail
            ),
            TerminatorKind::FalseEdge { real_target, imaginary_target } => format!(
                "{{\"k\":\"falseedge\",\"t\":{},\"i\":{},{}}}",
                Self::bb(*real_target),
                Self::bb(*imaginary_target),
                tail
            ),
            TerminatorKind::FalseUnwind { real_target, unwind } => format!(
                "{{\"k\":\"falseunwind\",\"t\":{},\"u\":{},{}}}",
                Self::bb(*real_target),
                Self::unwind(unwind),
                tail
            ),
            TerminatorKind::CoroutineDrop => format!("{{\"k\":\"coroutine_drop\",{}}}", tail),
            TerminatorKind::InlineAsm { .. } => format!("{{\"k\":\"asm\",{}}}", tail),
        }
    }

    fn statement(&self, s: &mir::Statement<'tcx>) -> Option<String> {
        let (sp, x) = span_json(self.tcx, s.source_info.span);
        let tail = format!("\"sp\":{},\"x\":{}", sp, x);
        match &s.kind {
            StatementKind::Assign(b) => {
                let (p, r) = &**b;
                Some(format!(
                    "{{\"k\":\"assign\",\"p\":{},\"r\":{},{}}}",
                    self.place(p),
                    self.rvalue(r),
                    tail
                ))
            }
            StatementKind::SetDiscriminant { place, variant_index } => Some(format!(
                "{{\"k\":\"setdiscr\",\"p\":{},\"v\":{},{}}}",
                self.place(place),
                variant_index.as_usize(),
                tail
            )),
            _ => None,
        }
    }
}

fn inst_kind(inst: &Instance<'_>) -> &'static str {
    match inst.def {
        ty::InstanceKind::Item(_) => "item",
        ty::InstanceKind::Intrinsic(_) => "intrinsic",
        ty::InstanceKind::Virtual(..) => "virtual",
        ty::InstanceKind::ClosureOnceShim { .. } => "closure_once_shim",
        ty::InstanceKind::FnPtrShim(..) => "fn_ptr_shim",
        ty::InstanceKind::CloneShim(..) => "clone_shim",
        ty::InstanceKind::DropGlue(..) => "drop_glue",
        _ => "other",
    }
}

fn assert_kind(msg: &mir::AssertMessage<'_>) -> &'static str {
    use mir::AssertKind::*;
    match &*msg {
        BoundsCheck { .. } => "BoundsCheck",
        Overflow(..) => "Overflow",
        OverflowNeg(..) => "OverflowNeg",
        DivisionByZero(..) => "DivisionByZero",
        RemainderByZero(..) => "RemainderByZero",
        _ => "Other",
    }
}

fn dump_body<'tcx>(tcx: TyCtxt<'tcx>, owner: LocalDefId, body: &Body<'tcx>, out: &mut String) {
    let did = owner.to_def_id();
    let kind = tcx.def_kind(did);
    let kstr = match kind {
        DefKind::Fn => "fn",
        DefKind::AssocFn => "assoc_fn",
        DefKind::Closure => "closure",
        DefKind::SyntheticCoroutineBody => "synthetic_coroutine",
        DefKind::Const { .. } | DefKind::AssocConst { .. } => "const",
        _ => return,
    };
    let env = TypingEnv::post_analysis(tcx, did);
    let cx = Cx { tcx, body, owner, env };
    let _ = cx.owner;

    let mut fields: Vec<String> = Vec::new();
    fields.push("\"t\":\"body\"".to_string());
    fields.push(format!("\"path\":{}", js(&dpath(tcx, did))));
    fields.push(format!("\"kind\":\"{}\"", kstr));
    let root = tcx.typeck_root_def_id(did);
    fields.push(format!("\"root\":{}", js(&dpath(tcx, root))));
    if kind == DefKind::Closure || kind == DefKind::SyntheticCoroutineBody {
        fields.push(format!("\"parent\":{}", js(&dpath(tcx, tcx.parent(did)))));
        let cty = tcx.type_of(did).instantiate_identity().skip_norm_wip();
        let ck = match cty.kind() {
            ty::Closure(..) => "closure",
            ty::Coroutine(..) => "coroutine",
            ty::CoroutineClosure(..) => "coroutine_closure",
            _ => "?",
        };
        fields.push(format!("\"closure_kind\":\"{}\"", ck));
    } else {
        fields.push("\"parent\":null".to_string());
        let vis = tcx.visibility(did);
        let v = match vis {
            ty::Visibility::Public => "public".to_string(),
            ty::Visibility::Restricted(m) => format!("restricted:{}", dpath(tcx, m)),
        };
        fields.push(format!("\"vis\":{}", js(&v)));
        fields.push(format!("\"is_async\":{}", tcx.asyncness(did).is_async()));
    }
    // impl context of the root item
    let rparent = tcx.parent(root);
    if let DefKind::Impl { of_trait } = tcx.def_kind(rparent) {
        let self_ty = tcx.type_of(rparent).instantiate_identity().skip_norm_wip();
        fields.push(format!("\"impl_self\":{}", js(&tystr(self_ty))));
        fields.push(format!("\"impl_self_def\":{}", jopt(ty_def(tcx, self_ty))));
        if of_trait {
            let tr = tcx.impl_trait_ref(rparent).instantiate_identity().skip_norm_wip();
            fields.push(format!("\"impl_trait\":{}", js(&dpath(tcx, tr.def_id))));
            fields.push(format!(
                "\"impl_trait_full\":{}",
                js(&with_no_trimmed_paths!(tr.to_string()))
            ));
        }
        fields.push(format!(
            "\"derived\":{}",
            tcx.is_automatically_derived(rparent)
        ));
    } else if let DefKind::Trait = tcx.def_kind(rparent) {
        fields.push(format!("\"in_trait\":{}", js(&dpath(tcx, rparent))));
    }
    let (sp, x) = span_json(tcx, body.span);
    fields.push(format!("\"sp\":{},\"x\":{}", sp, x));
    fields.push(format!("\"argc\":{}", body.arg_count));

    let locals: Vec<String> = body
        .local_decls
        .iter()
        .map(|d| {
            format!(
                "{{\"ty\":{},\"def\":{},\"user\":{}}}",
                js(&tystr(d.ty)),
                jopt(ty_def(tcx, d.ty)),
                d.is_user_variable()
            )
        })
        .collect();
    fields.push(format!("\"locals\":{}", jarr(locals)));

    let dbg: Vec<String> = body
        .var_debug_info
        .iter()
        .filter_map(|v| match &v.value {
            mir::VarDebugInfoContents::Place(p) => Some(format!(
                "{{\"name\":{},\"place\":{},\"arg\":{}}}",
                js(v.name.as_str()),
                cx.place(p),
                match v.argument_index {
                    Some(i) => i.to_string(),
                    None => "null".to_string(),
                }
            )),
            _ => None,
        })
        .collect();
    fields.push(format!("\"debug\":{}", jarr(dbg)));

    let blocks: Vec<String> = body
        .basic_blocks
        .iter()
        .map(|bb| {
            let stmts: Vec<String> = bb.statements.iter().filter_map(|s| cx.statement(s)).collect();
            format!(
                "{{\"s\":{},\"t\":{},\"c\":{}}}",
                jarr(stmts),
                cx.terminator(bb.terminator()),
                bb.is_cleanup
            )
        })
        .collect();
    fields.push(format!("\"blocks\":{}", jarr(blocks)));

    out.push('{');
    out.push_str(&fields.join(","));
    out.push_str("}\n");
}

fn dump_crate<'tcx>(tcx: TyCtxt<'tcx>, name: &str) -> String {
    let mut out = String::new();
    let nonce = std::env::var("MIRFACTS_NONCE").unwrap_or_default();
    let cfgs: Vec<String> = {
        let mut v: Vec<String> = tcx
            .sess
            .config
            .iter()
            .filter_map(|(k, v)| {
                if k.as_str() == "feature" {
                    v.map(|v| js(v.as_str()))
                } else {
                    None
                }
            })
            .collect();
        v.sort();
        v
    };
    let _ = writeln!(
        out,
        "{{\"t\":\"meta\",\"crate\":{},\"nonce\":{},\"features\":{},\"rustc\":{}}}",
        js(name),
        js(&nonce),
        jarr(cfgs),
        js(&rustc_interface::util::rustc_version_str().unwrap_or("?").to_string())
    );

    // bodies first: nothing below may run before every mir_built has been read
    // (resolving calls under a post-analysis typing env can reveal opaque types, which runs
    // borrowck of the defining function and steals its mir_built) -> clone them all up front.
    let mut bodies: Vec<(LocalDefId, Body<'tcx>)> = Vec::new();
    let mut owners: Vec<LocalDefId> = tcx
        .hir_body_owners()
        .filter(|o| {
            matches!(
                tcx.def_kind(o.to_def_id()),
                DefKind::Fn
                    | DefKind::AssocFn
                    | DefKind::Closure
                    | DefKind::SyntheticCoroutineBody
                    | DefKind::Const { .. }
                    | DefKind::AssocConst { .. }
            )
        })
        .collect();
    // Order matters. Type checking an item that needs `Send` of another item's coroutine
    // (any `spawn(fut)`) computes that coroutine's witness types from its MIR and steals the
    // mir_built of the coroutine and of everything it awaits; const evaluation steals the
    // MIR of local const fns. So: (0) bodies named in MIRFACTS_FIRST (a previous run's stolen
    // list), (1) const fns, (2) every body under a root that contains a coroutine, (3) rest.
    let first: Vec<String> = std::env::var("MIRFACTS_FIRST")
        .ok()
        .and_then(|p| std::fs::read_to_string(p).ok())
        .map(|t| t.lines().map(|l| l.to_string()).collect())
        .unwrap_or_default();
    let mut co_roots: std::collections::HashSet<DefId> = std::collections::HashSet::new();
    for o in owners.iter() {
        let d = o.to_def_id();
        if tcx.def_kind(d) == DefKind::Closure && tcx.coroutine_kind(d).is_some() {
            co_roots.insert(tcx.typeck_root_def_id(d));
        }
    }
    owners.sort_by_key(|o| {
        let d = o.to_def_id();
        let k = tcx.def_kind(d);
        if !first.is_empty() && first.contains(&dpath(tcx, d)) {
            return 0;
        }
        let is_const = (matches!(k, DefKind::Fn | DefKind::AssocFn) && tcx.is_const_fn(d))
            || matches!(k, DefKind::Const { .. } | DefKind::AssocConst { .. });
        if is_const {
            return 1;
        }
        if co_roots.contains(&tcx.typeck_root_def_id(d)) {
            return 2;
        }
        3
    });
    let mut stolen: Vec<String> = Vec::new();
    for owner in owners {
        let steal = tcx.mir_built(owner);
        if steal.is_stolen() {
            stolen.push(js(&dpath(tcx, owner.to_def_id())));
            continue;
        }
        let b: Body<'tcx> = steal.borrow().clone();
        bodies.push((owner, b));
    }
    let _ = writeln!(out, "{{\"t\":\"stolen\",\"bodies\":{}}}", jarr(stolen));
    for (owner, body) in bodies.iter() {
        dump_body(tcx, *owner, body, &mut out);
    }

    // foreign enums mentioned in the types of the dumped bodies' locals: variant names and discriminant values (a `match` on
    // a foreign enum that binds nothing shows only discriminant values in MIR)
    {
        let mut fenums: std::collections::BTreeMap<String, String> = std::collections::BTreeMap::new();
        for (_owner, body) in bodies.iter() {
            for decl in body.local_decls.iter() {
                for arg in decl.ty.walk() {
                    if let Some(t) = arg.as_type() {
                        if let ty::Adt(def, _) = t.kind() {
                            if def.is_enum() && !def.did().is_local() {
                                let p = dpath(tcx, def.did());
                                if fenums.contains_key(&p) {
                                    continue;
                                }
                                let vs: Vec<String> = def
                                    .variants()
                                    .iter_enumerated()
                                    .map(|(vidx, v)| {
                                        format!(
                                            "{{\"name\":{},\"discr\":{}}}",
                                            js(v.name.as_str()),
                                            def.discriminant_for_variant(tcx, vidx).val
                                        )
                                    })
                                    .collect();
                                fenums.insert(p, jarr(vs));
                            }
                        }
                    }
                }
            }
        }
        for (p, vs) in fenums.iter() {
            let _ = writeln!(out, "{{\"t\":\"fenum\",\"path\":{},\"variants\":{}}}", js(p), vs);
        }
    }

    // ADTs, consts, impls
    for id in tcx.hir_crate_items(()).definitions() {
        let did = id.to_def_id();
        match tcx.def_kind(did) {
            DefKind::Struct | DefKind::Enum | DefKind::Union => {
                let def = tcx.adt_def(did);
                let variants: Vec<String> = def
                    .variants()
                    .iter_enumerated()
                    .map(|(vidx, v)| {
                        let discr = if def.is_enum() {
                            format!("{}", def.discriminant_for_variant(tcx, vidx).val)
                        } else {
                            "null".to_string()
                        };
                        let fs: Vec<String> = v
                            .fields
                            .iter()
                            .map(|f| {
                                let fty = tcx.type_of(f.did).instantiate_identity().skip_norm_wip();
                                let vis = match tcx.visibility(f.did) {
                                    ty::Visibility::Public => "public".to_string(),
                                    ty::Visibility::Restricted(m) => {
                                        format!("restricted:{}", dpath(tcx, m))
                                    }
                                };
                                format!(
                                    "{{\"name\":{},\"ty\":{},\"def\":{},\"vis\":{}}}",
                                    js(f.name.as_str()),
                                    js(&tystr(fty)),
                                    jopt(ty_def(tcx, fty)),
                                    js(&vis)
                                )
                            })
                            .collect();
                        format!(
                            "{{\"name\":{},\"discr\":{},\"fields\":{}}}",
                            js(v.name.as_str()),
                            discr,
                            jarr(fs)
                        )
                    })
                    .collect();
                let (sp, _) = span_json(tcx, tcx.def_span(did));
                let vis = match tcx.visibility(did) {
                    ty::Visibility::Public => "public".to_string(),
                    ty::Visibility::Restricted(m) => format!("restricted:{}", dpath(tcx, m)),
                };
                let _ = writeln!(
                    out,
                    "{{\"t\":\"adt\",\"path\":{},\"kind\":\"{}\",\"variants\":{},\"sp\":{},\"vis\":{}}}",
                    js(&dpath(tcx, did)),
                    if def.is_enum() { "enum" } else if def.is_union() { "union" } else { "struct" },
                    jarr(variants),
                    sp,
                    js(&vis)
                );
            }
            DefKind::Const { .. } | DefKind::AssocConst { .. } => {
                let cty = tcx.type_of(did).instantiate_identity().skip_norm_wip();
                let mut val = "null".to_string();
                let generic = tcx.generics_of(did).requires_monomorphization(tcx);
                let scalar_like = cty.is_integral() || cty.is_bool() || matches!(cty.kind(), ty::Adt(d, _) if d.is_struct());
                if !generic && scalar_like {
                    if let Ok(cv) = tcx.const_eval_poly(did) {
                        if let Some(si) = cv.try_to_scalar_int() {
                            let size = si.size();
                            let v: i128 = if cty.is_signed() {
                                si.to_int(size)
                            } else {
                                si.to_uint(size) as i128
                            };
                            val = v.to_string();
                        }
                    }
                }
                let (sp, _) = span_json(tcx, tcx.def_span(did));
                let _ = writeln!(
                    out,
                    "{{\"t\":\"const\",\"path\":{},\"ty\":{},\"val\":{},\"sp\":{}}}",
                    js(&dpath(tcx, did)),
                    js(&tystr(cty)),
                    val,
                    sp
                );
            }
            DefKind::Impl { of_trait } => {
                let self_ty = tcx.type_of(did).instantiate_identity().skip_norm_wip();
                let tr = if of_trait {
                    let tr = tcx.impl_trait_ref(did).instantiate_identity().skip_norm_wip();
                    js(&with_no_trimmed_paths!(tr.to_string()))
                } else {
                    "null".to_string()
                };
                let trd = if of_trait {
                    let tr = tcx.impl_trait_ref(did).instantiate_identity().skip_norm_wip();
                    js(&dpath(tcx, tr.def_id))
                } else {
                    "null".to_string()
                };
                let items: Vec<String> = tcx
                    .associated_item_def_ids(did)
                    .iter()
                    .map(|i| js(&dpath(tcx, *i)))
                    .collect();
                let (sp, _) = span_json(tcx, tcx.def_span(did));
                let _ = writeln!(
                    out,
                    "{{\"t\":\"impl\",\"self\":{},\"self_def\":{},\"trait\":{},\"trait_def\":{},\"derived\":{},\"items\":{},\"sp\":{}}}",
                    js(&tystr(self_ty)),
                    jopt(ty_def(tcx, self_ty)),
                    tr,
                    trd,
                    tcx.is_automatically_derived(did),
                    jarr(items),
                    sp
                );
            }
            DefKind::TyAlias => {
                let aty = tcx.type_of(did).instantiate_identity().skip_norm_wip();
                let _ = writeln!(
                    out,
                    "{{\"t\":\"alias\",\"path\":{},\"ty\":{}}}",
                    js(&dpath(tcx, did)),
                    js(&tystr(aty))
                );
            }
            DefKind::Static { .. } => {
                let sty = tcx.type_of(did).instantiate_identity().skip_norm_wip();
                let _ = writeln!(
                    out,
                    "{{\"t\":\"static\",\"path\":{},\"ty\":{}}}",
                    js(&dpath(tcx, did)),
                    js(&tystr(sty))
                );
            }
            _ => {}
        }
    }

    let _ = with_forced_trimmed_paths!(0);
    out
}

//! F9 (C06): one insert = prune (one `modify`) + write (another `modify`). If the open
//! transaction is older than MAX_COMMIT_DELAY when the second `modify` runs, the prune is
//! committed alone. A crash before the next commit then shows a state the live store never
//! passed through between two complete operations: the pruned child is gone, the parent that
//! superseded it is not there.
use std::sync::atomic::Ordering;

use iroh_blobs::Hash;
use iroh_docs::{
    store::{fs::verif_hooks::AGE_TRANSACTION_AT_ACCESS, Query, Store},
    Author, ContentStatus, NamespaceSecret, Record, SignedEntry,
};

fn keys(store: &mut Store, ns: iroh_docs::NamespaceId) -> Vec<Vec<u8>> {
    store
        .get_many(ns, Query::all().include_empty())
        .unwrap()
        .map(|e| e.unwrap().key().to_vec())
        .collect()
}

#[tokio::test]
async fn f9_prune_durable_without_the_superseding_entry() {
    let dir = tempfile::tempdir().unwrap();
    let path = dir.path().join("docs.redb");
    let mut rng = rand::rng();
    let ns = NamespaceSecret::new(&mut rng);
    let a = Author::new(&mut rng);
    let mut store = Store::persistent(&path).unwrap();
    {
        let mut r = store.new_replica(ns.clone()).unwrap();
        let child = SignedEntry::from_parts(&ns, &a, b"a/b", Record::new(Hash::new(b"c"), 1, 100));
        r.insert_remote_entry(child, [1u8; 32], ContentStatus::Missing).await.unwrap();
    }
    store.flush().unwrap();
    assert_eq!(keys(&mut store, ns.id()), vec![b"a/b".to_vec()]);
    store.flush().unwrap();
    {
        let mut r = store.open_replica(&ns.id()).unwrap();
        let parent = SignedEntry::from_parts(&ns, &a, b"a", Record::new(Hash::new(b"p"), 1, 200));
        // accesses of the shared transaction inside put(): prefixes_of -> tables (1),
        // remove_prefix_filtered -> modify (2), entry_put -> modify (3). Age the transaction
        // right before the third one, as a process suspended for > 500 ms would.
        // (open_replica above used one access already, so the counter starts after it.)
        AGE_TRANSACTION_AT_ACCESS.store(3, Ordering::SeqCst);
        let removed = r.insert_remote_entry(parent, [1u8; 32], ContentStatus::Missing).await.unwrap();
        assert_eq!(removed, 1);
    }
    // crash: image of the file without commit
    let image = dir.path().join("image.redb");
    std::fs::copy(&path, &image).unwrap();
    let mut reopened = Store::persistent(&image).unwrap();
    let got = keys(&mut reopened, ns.id());
    println!("F9 keys visible after crash: {:?}", got);
    let ok = got == vec![b"a/b".to_vec()] || got == vec![b"a".to_vec()];
    assert!(ok, "half-applied insert visible after crash: {:?}", got);
}

//! F10 (C09): SyncCodec::encode writes the payload at absolute offset 4 of the destination
//! buffer. tokio_util's Encoder contract appends frames to a shared write buffer (FramedWrite
//! with `feed`, or any caller batching frames); with a non-empty buffer the length prefix is
//! appended at the end while the payload overwrites the earlier frame.
use bytes::BytesMut;
use iroh_docs::{
    net::verif_export::{decode_sync_frames, encode_sync_frames},
    store::Store,
    NamespaceSecret, ProtocolMessage,
};

async fn message_with(n: usize) -> ProtocolMessage {
    let mut rng = rand::rng();
    let mut store = Store::memory();
    let author = store.new_author(&mut rng).unwrap();
    let ns = NamespaceSecret::new(&mut rng);
    let mut replica = store.new_replica(ns).unwrap();
    for i in 0..n {
        replica
            .hash_and_insert(format!("key-{i}"), &author, format!("value-{i}"))
            .await
            .unwrap();
    }
    replica.sync_initial_message().unwrap()
}

#[tokio::test]
async fn f10_two_frames_in_one_buffer_round_trip() {
    let m1 = message_with(1).await;
    let m2 = message_with(3).await;
    let want = vec![
        postcard::to_stdvec(&m1).unwrap(),
        postcard::to_stdvec(&m2).unwrap(),
    ];
    let mut buf = BytesMut::new();
    encode_sync_frames(vec![m1, m2], &mut buf).unwrap();
    let got = decode_sync_frames(&mut buf);
    println!("F10 decode of two frames encoded into one buffer: {:?}", got.as_ref().map(|v| v.len()));
    let got: Vec<Vec<u8>> = got
        .expect("decoding two frames that were encoded back to back must succeed")
        .iter()
        .map(|m| postcard::to_stdvec(m).unwrap())
        .collect();
    assert_eq!(got, want, "frames encoded back to back must decode unchanged");
}

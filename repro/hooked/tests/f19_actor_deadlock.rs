//! C10: a sync session finishes with success or a reported error, it never waits forever.
//!
//! A peer answers our (empty) initial message with all entries of the document in one frame. If
//! that frame carries more entries than the live actor's replica event queue can hold, and the
//! live actor has to ask the store actor for anything while the frame is being processed (here:
//! the application calls `start_sync` once it sees the first remote insert; a sync report from a
//! neighbour or a second session finishing has the same effect), the session must still finish.
use std::{sync::Arc, time::Duration};

use anyhow::Result;
use iroh::{endpoint::presets, Endpoint, SecretKey};
use iroh_blobs::Hash;
use iroh_docs::{
    api::protocol::{AddrInfoOptions, ShareMode},
    engine::LiveEvent,
};
use n0_future::StreamExt;
use tokio::sync::Notify;

mod util;
use util::Node;

async fn spawn_node(seed: u8) -> Result<Node> {
    let ep = Endpoint::builder(presets::Minimal)
        .secret_key(SecretKey::from_bytes(&[seed; 32]))
        .bind()
        .await?;
    Node::memory(ep).spawn().await
}

#[tokio::test(flavor = "multi_thread", worker_threads = 4)]
async fn large_incoming_frame_does_not_wedge_the_session() -> Result<()> {
    // more than the capacity of the live actor's replica event queue (1024)
    const ENTRIES: usize = 2500;

    let node0 = spawn_node(1).await?;
    let node1 = spawn_node(2).await?;

    // node0 holds a document with many entries (no content is needed: only the entries are
    // reconciled)
    let author0 = node0.docs().author_create().await?;
    let doc0 = node0.docs().create().await?;
    for i in 0..ENTRIES {
        let key = format!("key-{i:05}");
        doc0.set_hash(author0, key.clone(), Hash::new(key.as_bytes()), 1)
            .await?;
    }
    let ticket = doc0
        .share(ShareMode::Write, AddrInfoOptions::RelayAndAddresses)
        .await?;

    // node1 imports the document and a second, unrelated one
    let doc1 = node1
        .docs()
        .import_namespace(ticket.capability.clone())
        .await?;
    let other1 = node1.docs().create().await?;
    other1.start_sync(vec![]).await?;

    // a well behaved subscriber: it drains its events all the time
    let mut events1 = doc1.subscribe().await?;
    let first_insert = Arc::new(Notify::new());
    let sync_finished = Arc::new(Notify::new());
    let drain = tokio::spawn({
        let first_insert = first_insert.clone();
        let sync_finished = sync_finished.clone();
        async move {
            let mut seen_insert = false;
            while let Some(Ok(event)) = events1.next().await {
                match event {
                    LiveEvent::InsertRemote { .. } if !seen_insert => {
                        seen_insert = true;
                        first_insert.notify_one();
                    }
                    LiveEvent::SyncFinished(_) => sync_finished.notify_one(),
                    _ => {}
                }
            }
        }
    });

    // start the session: node1 dials node0
    doc1.start_sync(ticket.nodes.clone()).await?;

    // as soon as the first entry of the session arrives, the application asks the engine for
    // something unrelated that the live actor has to forward to the store actor
    tokio::time::timeout(Duration::from_secs(60), first_insert.notified())
        .await
        .expect("the session delivers entries");
    let unrelated = tokio::time::timeout(Duration::from_secs(400), other1.start_sync(vec![])).await;

    // the session has to finish, and the engine has to stay responsive
    let finished = tokio::time::timeout(Duration::from_secs(400), sync_finished.notified()).await;
    let responsive = tokio::time::timeout(
        Duration::from_secs(10),
        doc1.get_exact(author0, b"key-00000", false),
    )
    .await;

    let ok = unrelated.is_ok() && finished.is_ok() && responsive.is_ok();
    if !ok {
        // the actors are wedged: dropping the nodes would block on joining the store actor thread
        drain.abort();
        std::mem::forget((node0, node1));
    }
    assert!(
        unrelated.is_ok(),
        "start_sync for an unrelated document never returned"
    );
    assert!(finished.is_ok(), "the sync session never finished");
    assert!(responsive.is_ok(), "the engine does not answer anymore");
    assert!(responsive.unwrap()?.is_some());
    Ok(())
}

//! F4 (C10): when handling a message fails locally on the accepting side (here: the document
//! is not open on Bob's store actor), `BobState::run` returns an error with its progress taken
//! out, and `into_outcome` — which `net::handle_connection` calls unconditionally — panics.
use iroh::SecretKey;
use iroh_docs::{
    actor::{OpenOpts, SyncHandle},
    net::{verif_export::{run_alice, BobState}, AcceptOutcome},
    store::Store,
    NamespaceSecret,
};

#[tokio::test]
async fn f4_acceptor_can_always_report_its_outcome() {
    let mut rng = rand::rng();
    let alice_peer = SecretKey::from_bytes(&[1u8; 32]).public();
    let bob_peer = SecretKey::from_bytes(&[2u8; 32]).public();
    let ns = NamespaceSecret::new(&mut rng);

    let mut alice_store = Store::memory();
    let author = alice_store.new_author(&mut rng).unwrap();
    {
        let mut r = alice_store.new_replica(ns.clone()).unwrap();
        r.hash_and_insert("k", &author, "v").await.unwrap();
    }
    alice_store.close_replica(ns.id());
    let alice = SyncHandle::spawn(alice_store, None, "alice".to_string());
    alice.open(ns.id(), OpenOpts::default().sync()).await.unwrap();

    // Bob knows the document but never opened it: processing the init message fails locally.
    let mut bob_store = Store::memory();
    bob_store.new_replica(ns.clone()).unwrap();
    bob_store.close_replica(ns.id());
    let bob = SyncHandle::spawn(bob_store, None, "bob".to_string());

    let (a, b) = tokio::io::duplex(64 * 1024);
    let (mut a_read, mut a_write) = tokio::io::split(a);
    let (mut b_read, mut b_write) = tokio::io::split(b);

    let ns_id = ns.id();
    let alice_task = tokio::spawn(async move {
        run_alice(&mut a_write, &mut a_read, &alice, ns_id, bob_peer).await
    });
    let mut state = BobState::new(alice_peer);
    let res = state
        .run(&mut b_write, &mut b_read, bob, |_ns, _peer| async { AcceptOutcome::Allow })
        .await;
    println!("F4 bob run result: {:?}", res.as_ref().map(|_| ()).map_err(|e| e.to_string()));
    assert!(res.is_err(), "processing must fail: the document is not open on bob");
    drop(b_write);
    drop(b_read);
    let _ = alice_task.await;
    // net::handle_connection does exactly this, whatever `res` is:
    let outcome = state.into_outcome();
    println!("F4 outcome after failure: recv={} sent={}", outcome.num_recv, outcome.num_sent);
}

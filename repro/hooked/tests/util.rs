#![allow(unused)]

use std::{
    ops::Deref,
    path::{Path, PathBuf},
};

use iroh::{
    endpoint::{presets, BindError},
    test_utils::DnsPkarrServer,
    tls::CaRootsConfig,
    Endpoint, EndpointId, RelayMap, RelayMode, SecretKey,
};
use iroh_blobs::store::GcConfig;
use iroh_docs::{engine::ProtectCallbackHandler, protocol::Docs};
use iroh_gossip::net::Gossip;
use n0_error::Result;

pub async fn empty_endpoint() -> Result<Endpoint, BindError> {
    Endpoint::bind(presets::Minimal).await
}

pub async fn endpoint(
    secret_key: SecretKey,
    relay_map: RelayMap,
    dns_pkarr_server: Option<&DnsPkarrServer>,
) -> Result<Endpoint, BindError> {
    let mut builder = Endpoint::builder(presets::Minimal);
    if let Some(dns_pkarr_server) = dns_pkarr_server {
        builder = builder.preset(dns_pkarr_server.preset());
    }

    builder
        .secret_key(secret_key)
        .relay_mode(RelayMode::Custom(relay_map))
        .ca_roots_config(CaRootsConfig::insecure_skip_verify())
        .bind()
        .await
}

/// An iroh node that just has the blobs transport
#[derive(Debug)]
pub struct Node {
    router: iroh::protocol::Router,
    client: Client,
}

impl Deref for Node {
    type Target = Client;

    fn deref(&self) -> &Self::Target {
        &self.client
    }
}

#[derive(Debug, Clone)]
pub struct Client {
    blobs: iroh_blobs::api::Store,
    docs: iroh_docs::api::DocsApi,
}

impl Client {
    fn new(blobs: iroh_blobs::api::Store, docs: iroh_docs::api::DocsApi) -> Self {
        Self { blobs, docs }
    }

    pub fn blobs(&self) -> &iroh_blobs::api::Store {
        &self.blobs
    }

    pub fn docs(&self) -> &iroh_docs::api::DocsApi {
        &self.docs
    }
}

/// An iroh node builder
#[derive(derive_more::Debug)]
pub struct Builder {
    endpoint: iroh::Endpoint,
    storage: Storage,
    gc_interval: Option<n0_future::time::Duration>,
    #[debug(skip)]
    register_gc_done_cb: Option<Box<dyn Fn() + Send + 'static>>,
}

impl Builder {
    /// Spawns the node
    async fn spawn0(
        self,
        blobs: iroh_blobs::api::Store,
        protect_cb: Option<ProtectCallbackHandler>,
    ) -> anyhow::Result<Node> {
        let mut router = iroh::protocol::Router::builder(self.endpoint.clone());
        let gossip = Gossip::builder().spawn(self.endpoint.clone());
        let mut docs_builder = match self.storage {
            Storage::Memory => Docs::memory(),
            
            Storage::Persistent(ref path) => Docs::persistent(path.to_path_buf()),
        };
        if let Some(protect_cb) = protect_cb {
            docs_builder = docs_builder.protect_handler(protect_cb);
        }
        let docs = match docs_builder
            .spawn(self.endpoint.clone(), blobs.clone(), gossip.clone())
            .await
        {
            Ok(docs) => docs,
            Err(err) => {
                blobs.shutdown().await.ok();
                return Err(err);
            }
        };
        router = router.accept(
            iroh_blobs::ALPN,
            iroh_blobs::BlobsProtocol::new(&blobs, None),
        );
        router = router.accept(iroh_docs::ALPN, docs.clone());
        router = router.accept(iroh_gossip::ALPN, gossip.clone());

        // Build the router
        let router = router.spawn();

        let client = Client::new(blobs.clone(), docs.api().clone());
        Ok(Node { router, client })
    }

    pub fn gc_interval(mut self, value: Option<n0_future::time::Duration>) -> Self {
        self.gc_interval = value;
        self
    }

    pub fn register_gc_done_cb(mut self, value: Box<dyn Fn() + Send + Sync>) -> Self {
        self.register_gc_done_cb = Some(value);
        self
    }

    fn new(storage: Storage, endpoint: Endpoint) -> Self {
        Self {
            endpoint,
            storage,
            gc_interval: None,
            register_gc_done_cb: None,
        }
    }
}

#[derive(Debug)]
enum Storage {
    Memory,
    
    Persistent(PathBuf),
}

impl Node {
    /// Creates a new node with memory storage
    pub fn memory(endpoint: Endpoint) -> Builder {
        Builder::new(Storage::Memory, endpoint)
    }

    /// Creates a new node with persistent storage
    
    pub fn persistent(path: impl AsRef<Path>, endpoint: Endpoint) -> Builder {
        Builder::new(Storage::Persistent(path.as_ref().to_owned()), endpoint)
    }
}

impl Builder {
    /// Spawns the node
    pub async fn spawn(self) -> anyhow::Result<Node> {
        let (store, protect_handler) = match self.storage {
            Storage::Memory => {
                let store = iroh_blobs::store::mem::MemStore::new();
                ((*store).clone(), None)
            }
            
            Storage::Persistent(ref path) => {
                let db_path = path.join("blobs.db");
                let mut opts = iroh_blobs::store::fs::options::Options::new(path);
                let protect_handler = if let Some(interval) = self.gc_interval {
                    let (handler, cb) = ProtectCallbackHandler::new();
                    opts.gc = Some(GcConfig {
                        interval,
                        add_protected: Some(cb),
                    });
                    Some(handler)
                } else {
                    None
                };
                let store = iroh_blobs::store::fs::FsStore::load_with_opts(db_path, opts).await?;
                ((*store).clone(), protect_handler)
            }
        };
        self.spawn0(store, protect_handler).await
    }
}

impl Node {
    /// Returns the node id
    pub fn id(&self) -> EndpointId {
        self.router.endpoint().id()
    }

    /// Ensure the node is "online", aka, is connected to a relay and
    /// has a direct addresses
    pub async fn online(&self) {
        self.router.endpoint().online().await
    }

    /// Shuts down the node
    pub async fn shutdown(self) -> anyhow::Result<()> {
        self.router.shutdown().await?;
        Ok(())
    }

    /// Returns the client
    pub fn client(&self) -> &Client {
        &self.client
    }
}

pub mod path {
    use std::path::{Component, Path, PathBuf};

    use anyhow::Context;
    use bytes::Bytes;

    /// Helper function that translates a key that was derived from the [`path_to_key`] function back
    /// into a path.
    ///
    /// If `prefix` exists, it will be stripped before converting back to a path
    /// If `root` exists, will add the root as a parent to the created path
    /// Removes any null byte that has been appended to the key
    pub fn key_to_path(
        key: impl AsRef<[u8]>,
        prefix: Option<String>,
        root: Option<PathBuf>,
    ) -> anyhow::Result<PathBuf> {
        let mut key = key.as_ref();
        if key.is_empty() {
            return Ok(PathBuf::new());
        }
        // if the last element is the null byte, remove it
        if b'\0' == key[key.len() - 1] {
            key = &key[..key.len() - 1]
        }

        let key = if let Some(prefix) = prefix {
            let prefix = prefix.into_bytes();
            if prefix[..] == key[..prefix.len()] {
                &key[prefix.len()..]
            } else {
                anyhow::bail!("key {:?} does not begin with prefix {:?}", key, prefix);
            }
        } else {
            key
        };

        let mut path = if key[0] == b'/' {
            PathBuf::from("/")
        } else {
            PathBuf::new()
        };
        for component in key
            .split(|c| c == &b'/')
            .map(|c| String::from_utf8(c.into()).context("key contains invalid data"))
        {
            let component = component?;
            path = path.join(component);
        }

        // add root if it exists
        let path = if let Some(root) = root {
            root.join(path)
        } else {
            path
        };

        Ok(path)
    }

    /// Helper function that creates a document key from a canonicalized path, removing the `root` and adding the `prefix`, if they exist
    ///
    /// Appends the null byte to the end of the key.
    pub fn path_to_key(
        path: impl AsRef<Path>,
        prefix: Option<String>,
        root: Option<PathBuf>,
    ) -> anyhow::Result<Bytes> {
        let path = path.as_ref();
        let path = if let Some(root) = root {
            path.strip_prefix(root)?
        } else {
            path
        };
        let suffix = canonicalized_path_to_string(path, false)?.into_bytes();
        let mut key = if let Some(prefix) = prefix {
            prefix.into_bytes().to_vec()
        } else {
            Vec::new()
        };
        key.extend(suffix);
        key.push(b'\0');
        Ok(key.into())
    }

    /// This function converts an already canonicalized path to a string.
    ///
    /// If `must_be_relative` is true, the function will fail if any component of the path is
    /// `Component::RootDir`
    ///
    /// This function will also fail if the path is non canonical, i.e. contains
    /// `..` or `.`, or if the path components contain any windows or unix path
    /// separators.
    pub fn canonicalized_path_to_string(
        path: impl AsRef<Path>,
        must_be_relative: bool,
    ) -> anyhow::Result<String> {
        let mut path_str = String::new();
        let parts = path
            .as_ref()
            .components()
            .filter_map(|c| match c {
                Component::Normal(x) => {
                    let c = match x.to_str() {
                        Some(c) => c,
                        None => return Some(Err(anyhow::anyhow!("invalid character in path"))),
                    };

                    if !c.contains('/') && !c.contains('\\') {
                        Some(Ok(c))
                    } else {
                        Some(Err(anyhow::anyhow!("invalid path component {:?}", c)))
                    }
                }
                Component::RootDir => {
                    if must_be_relative {
                        Some(Err(anyhow::anyhow!("invalid path component {:?}", c)))
                    } else {
                        path_str.push('/');
                        None
                    }
                }
                _ => Some(Err(anyhow::anyhow!("invalid path component {:?}", c))),
            })
            .collect::<anyhow::Result<Vec<_>>>()?;
        let parts = parts.join("/");
        path_str.push_str(&parts);
        Ok(path_str)
    }
}

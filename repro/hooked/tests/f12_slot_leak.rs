//! F12 (C11): a dial that the remote answers with `AlreadySyncing` never frees the initiator's
//! per-(document, peer) slot when no accept session from that peer is running.
//!
//! History: A and B share a document. A syncs with B (session 2). B's accept task has finished, but
//! its result has not reached B's live actor yet (the actor loop is biased towards its inbox; the
//! hook holds the result back to make that order deterministic). A dials again (session 3): B still
//! believes session 2 is running and declines with `AlreadySyncing`. A ignores that abort without
//! resetting its state, so A stays `Running{Connect}` for (doc, B) although nothing is running, and
//! every later `start_sync` with B is dropped.
#![cfg(iroh_docs_verif)]
use std::{sync::atomic::Ordering, time::Duration};

use anyhow::Result;
use iroh::{endpoint::presets, Endpoint, SecretKey};
use iroh_docs::{
    api::protocol::{AddrInfoOptions, ShareMode},
    engine::{verif_hooks::ACCEPT_RESULT_DELAY_MS, LiveEvent},
};
use n0_future::StreamExt;
use rand::RngExt;

mod util;
use util::Node;

async fn node(seed: u8) -> Result<Node> {
    let mut key = [0u8; 32];
    key[0] = seed;
    key[31] = 7;
    let ep = Endpoint::builder(presets::Minimal)
        .secret_key(SecretKey::from_bytes(&key))
        .bind()
        .await?;
    Ok(Node::memory(ep).spawn().await?)
}

/// wait for a successful SyncFinished with `peer` on the stream, up to `timeout`
async fn wait_sync_finished(
    events: &mut (impl n0_future::Stream<Item = Result<LiveEvent>> + Unpin),
    peer: iroh::PublicKey,
    timeout: Duration,
) -> bool {
    let fut = async {
        while let Some(ev) = events.next().await {
            if let Ok(LiveEvent::SyncFinished(e)) = &ev {
                if e.peer == peer {
                    return true;
                }
            }
        }
        false
    };
    n0_future::time::timeout(timeout, fut).await.unwrap_or(false)
}

async fn scenario(seed_a: u8, seed_b: u8) -> Result<()> {
    ACCEPT_RESULT_DELAY_MS.store(0, Ordering::SeqCst);
    let a = node(seed_a).await?;
    let b = node(seed_b).await?;
    let (id_a, id_b) = (a.id(), b.id());

    // B creates the document, A imports it: session 1 (A dials B)
    let author_b = b.client().docs().author_create().await?;
    let doc_b = b.client().docs().create().await?;
    doc_b.set_bytes(author_b, b"k".to_vec(), b"v".to_vec()).await?;
    let ticket = doc_b.share(ShareMode::Write, AddrInfoOptions::RelayAndAddresses).await?;
    let mut events_b = doc_b.subscribe().await?;
    let doc_a = a.client().docs().import(ticket.clone()).await?;
    let mut events_a = doc_a.subscribe().await?;
    assert!(wait_sync_finished(&mut events_a, id_b, Duration::from_secs(30)).await, "session 1 at A");
    assert!(wait_sync_finished(&mut events_b, id_a, Duration::from_secs(30)).await, "session 1 at B");
    // let follow-up activity (sync reports, downloads) settle
    n0_future::time::sleep(Duration::from_secs(2)).await;

    // session 2: A dials B again; B's result is held back for 4 s
    ACCEPT_RESULT_DELAY_MS.store(4000, Ordering::SeqCst);
    let addr_b = ticket.nodes.clone();
    doc_a.start_sync(addr_b.clone()).await?;
    assert!(wait_sync_finished(&mut events_a, id_b, Duration::from_secs(30)).await, "session 2 at A");

    // session 3: A dials while B still counts session 2 as running -> B declines with AlreadySyncing
    doc_a.start_sync(addr_b.clone()).await?;
    // B processes the held-back result of session 2, then nothing is running anywhere
    assert!(wait_sync_finished(&mut events_b, id_a, Duration::from_secs(30)).await, "session 2 at B");
    ACCEPT_RESULT_DELAY_MS.store(0, Ordering::SeqCst);
    n0_future::time::sleep(Duration::from_secs(2)).await;

    // the slot must be free again: a new sync request must be carried out
    doc_a.start_sync(addr_b.clone()).await?;
    let ok = wait_sync_finished(&mut events_a, id_b, Duration::from_secs(15)).await;
    a.shutdown().await?;
    b.shutdown().await?;
    assert!(ok, "A never syncs with B again: the (document, peer) slot was not freed after the AlreadySyncing abort");
    Ok(())
}

#[tokio::test(flavor = "multi_thread")]
async fn slot_is_freed_after_already_syncing_abort() -> Result<()> {
    // both id orders (the tie-break of concurrent dials depends on it)
    scenario(1, 2).await?;
    scenario(2, 1).await?;
    let _ = rand::rng().random::<u8>();
    Ok(())
}

use bytes::Bytes;
use iroh_blobs::Hash;
use iroh_docs::{
    store::{Query, Store},
    Author, ContentStatus, NamespaceSecret, ProtocolMessage, Record, SignedEntry, SyncOutcome, AuthorHeads, AuthorId,
};
use serde::Serialize;

#[derive(Serialize)]
struct MMessage { parts: Vec<MPart> }
#[derive(Serialize)]
#[allow(dead_code)]
enum MPart { RangeFingerprint(MRangeFp), RangeItem(MRangeItem) }
#[derive(Serialize)]
struct MRangeFp { range: MRange, fingerprint: [u8; 32] }
#[derive(Serialize)]
struct MRangeItem { range: MRange, values: Vec<(MSigned, ContentStatus)>, have_local: bool }
#[derive(Serialize)]
struct MRange { x: Bytes, y: Bytes }
#[derive(Serialize)]
#[allow(dead_code)]
enum MSigned { }
// we serialize real SignedEntry or raw bytes via an untagged helper
struct Raw(Vec<u8>);

fn ser_signed(e: &SignedEntry) -> Vec<u8> { postcard::to_stdvec(e).unwrap() }

fn varint(mut n: u64, out: &mut Vec<u8>) { loop { let b = (n & 0x7f) as u8; n >>= 7; if n == 0 { out.push(b); break } else { out.push(b | 0x80) } } }
fn bytes_field(b: &[u8], out: &mut Vec<u8>) { varint(b.len() as u64, out); out.extend_from_slice(b); }

/// Build a postcard ProtocolMessage with one RangeItem part holding the given pre-serialized entries.
fn message_with_entries(x: &[u8], y: &[u8], entries: &[Vec<u8>], have_local: bool) -> Vec<u8> {
    let mut out = Vec::new();
    varint(1, &mut out); // parts len
    varint(1, &mut out); // variant RangeItem
    bytes_field(x, &mut out);
    bytes_field(y, &mut out);
    varint(entries.len() as u64, &mut out);
    for e in entries { out.extend_from_slice(e); varint(2, &mut out); /* ContentStatus::Missing */ }
    out.push(have_local as u8);
    let _ = Raw(vec![]).0;
    out
}

fn all(store: &mut Store, ns: iroh_docs::NamespaceId) -> Vec<(Vec<u8>, u64, bool)> {
    store.get_many(ns, Query::all().include_empty()).unwrap().map(|e| { let e = e.unwrap(); (e.key().to_vec(), e.timestamp(), e.content_len()==0) }).collect()
}

#[tokio::test]
async fn f2_older_entry_after_newer_tombstone() {
    let mut rng = rand::rng();
    let ns = NamespaceSecret::new(&mut rng);
    let a = Author::new(&mut rng);
    let mut store = Store::memory();
    let mut r = store.new_replica(ns.clone()).unwrap();
    let peer = [9u8; 32];
    // newer tombstone at "a" (ts 200), then older live entry "a" (ts 100) and "ab" (ts 100)
    let tomb = SignedEntry::from_parts(&ns, &a, b"a", Record::empty(200));
    let old_same = SignedEntry::from_parts(&ns, &a, b"a", Record::new(Hash::new(b"x"), 1, 100));
    let old_child = SignedEntry::from_parts(&ns, &a, b"ab", Record::new(Hash::new(b"y"), 1, 100));
    println!("tomb: {:?}", r.insert_remote_entry(tomb, peer, ContentStatus::Missing).await);
    println!("old same key: {:?}", r.insert_remote_entry(old_same, peer, ContentStatus::Missing).await);
    println!("old child: {:?}", r.insert_remote_entry(old_child, peer, ContentStatus::Missing).await);
    // empty-key parent
    let empty_parent = SignedEntry::from_parts(&ns, &a, b"", Record::new(Hash::new(b"z"), 1, 300));
    let old_under_empty = SignedEntry::from_parts(&ns, &a, b"q", Record::new(Hash::new(b"w"), 1, 50));
    println!("empty parent: {:?}", r.insert_remote_entry(empty_parent, peer, ContentStatus::Missing).await);
    println!("old under empty-key parent: {:?}", r.insert_remote_entry(old_under_empty, peer, ContentStatus::Missing).await);
    drop(r);
    println!("F2 state: {:?}", all(&mut store, ns.id()));
}

#[tokio::test]
async fn f3_ff_prefix() {
    let mut rng = rand::rng();
    let ns = NamespaceSecret::new(&mut rng);
    let a = Author::new(&mut rng);
    let mut store = Store::memory();
    let mut r = store.new_replica(ns.clone()).unwrap();
    let peer = [9u8; 32];
    for (k, ts) in [(&[1u8, 255][..], 10u64), (&[1u8, 255, 7][..], 11), (&[2u8][..], 12), (&[2u8, 0][..], 13)] {
        let e = SignedEntry::from_parts(&ns, &a, k, Record::new(Hash::new(k), 1, ts));
        r.insert_remote_entry(e, peer, ContentStatus::Missing).await.unwrap();
    }
    drop(r);
    let q: Vec<_> = store.get_many(ns.id(), Query::author(a.id()).key_prefix([1u8, 255])).unwrap().map(|e| e.unwrap().key().to_vec()).collect();
    println!("F3 author+prefix [1,255] -> {:?}", q);
    let q: Vec<_> = store.get_many(ns.id(), Query::single_latest_per_key().key_prefix([1u8, 255])).unwrap().map(|e| e.unwrap().key().to_vec()).collect();
    println!("F3 latest-per-key prefix [1,255] -> {:?}", q);
    // prune: newer entry at [1,255] must not remove [2]
    let mut r = store.open_replica(&ns.id()).unwrap();
    let e = SignedEntry::from_parts(&ns, &a, [1u8, 255], Record::new(Hash::new(b"new"), 3, 99));
    println!("F3 removed count = {:?}", r.insert_remote_entry(e, peer, ContentStatus::Missing).await);
    drop(r);
    println!("F3 state after prune: {:?}", all(&mut store, ns.id()));
}

#[tokio::test]
async fn f1_malformed_empty_via_sync() {
    let mut rng = rand::rng();
    let ns = NamespaceSecret::new(&mut rng);
    let a = Author::new(&mut rng);
    let mut store = Store::memory();
    let mut r = store.new_replica(ns.clone()).unwrap();
    let peer = [9u8; 32];
    let bad = SignedEntry::from_parts(&ns, &a, b"k", Record::new(Hash::EMPTY, 5, 100));
    println!("F1 direct: {:?}", r.insert_remote_entry(bad.clone(), peer, ContentStatus::Missing).await);
    let id_lo = iroh_docs::RecordIdentifier::new(ns.id(), a.id(), b"");
    let bytes = message_with_entries(id_lo.as_ref(), id_lo.as_ref(), &[ser_signed(&bad)], true);
    let msg: ProtocolMessage = postcard::from_bytes(&bytes).unwrap();
    let mut st = SyncOutcome::default();
    println!("F1 sync: {:?}", r.sync_process_message(msg, peer, &mut st).await.map(|m| m.is_some()));
    drop(r);
    println!("F1 state: {:?}", all(&mut store, ns.id()));
}

#[tokio::test]
async fn f5_short_id_panics() {
    let mut rng = rand::rng();
    let ns = NamespaceSecret::new(&mut rng);
    let mut store = Store::memory();
    let mut r = store.new_replica(ns.clone()).unwrap();
    let peer = [9u8; 32];
    // SignedEntry: signature{author_sig 64, ns_sig 64}, entry{id bytes, record{len,hash,ts}}
    let mut e = Vec::new();
    e.extend_from_slice(&[0u8; 64]); e.extend_from_slice(&[0u8; 64]);
    bytes_field(&[1, 2, 3], &mut e); // id: 3 bytes only
    varint(1, &mut e); e.extend_from_slice(Hash::new(b"x").as_bytes()); varint(5, &mut e);
    let x = vec![0u8; 64];
    let bytes = message_with_entries(&x, &x, &[e], true);
    let msg: Result<ProtocolMessage, _> = postcard::from_bytes(&bytes);
    println!("F5 decode ok = {}", msg.is_ok());
    // a value or an error, never a panic: either the decoder rejects the short id ...
    let Ok(msg) = msg else { return };
    // ... or processing it must not panic
    let mut st = SyncOutcome::default();
    let res = r.sync_process_message(msg, peer, &mut st).await;
    println!("F5 processed without panic: {:?}", res.map(|m| m.is_some()));
}

#[tokio::test]
async fn f6_f8_heads() {
    let mut rng = rand::rng();
    let ns = NamespaceSecret::new(&mut rng);
    let a = Author::new(&mut rng);
    let mut store = Store::memory();
    let mut r = store.new_replica(ns.clone()).unwrap();
    let peer = [9u8; 32];
    let newer = SignedEntry::from_parts(&ns, &a, b"k1", Record::new(Hash::new(b"x"), 1, 500));
    let older = SignedEntry::from_parts(&ns, &a, b"k2", Record::new(Hash::new(b"y"), 1, 100));
    r.insert_remote_entry(newer, peer, ContentStatus::Missing).await.unwrap();
    r.insert_remote_entry(older, peer, ContentStatus::Missing).await.unwrap();
    drop(r);
    let heads: Vec<_> = store.get_latest_for_each_author(ns.id()).unwrap().map(|h| h.unwrap()).map(|(_, ts, k)| (ts, k)).collect();
    println!("F6 heads after newer-then-older: {:?} (expected ts 500)", heads);
    store.close_replica(ns.id());
    store.remove_replica(&ns.id()).unwrap();
    let heads: Vec<_> = store.get_latest_for_each_author(ns.id()).unwrap().map(|h| h.unwrap()).map(|(_, ts, k)| (ts, k)).collect();
    println!("F8 heads after remove_replica: {:?} (expected empty)", heads);
}

#[test]
fn f7_heads_encode_collision() {
    let mut h = AuthorHeads::default();
    h.insert(AuthorId::from(&[1u8; 32]), 7);
    h.insert(AuthorId::from(&[2u8; 32]), 7);
    let d = AuthorHeads::decode(&h.encode(None).unwrap()).unwrap();
    println!("F7 encoded 2 authors with equal ts, decoded {} (expected 2)", d.len());
}

//! F13 (C17): a store written by iroh-docs 0.94..=0.98 (redb 2.x tuple format) is migrated on open by
//! `store::fs::migrate_redb_v2_tuples::run`. The migration decides which tables to copy from
//! `ReadTransaction::list_tables()`, which lists *normal* tables only: the multimap table `sync-peers-1`
//! (the useful-peer lists) is never copied, so every document's peer list is lost by reopening the store.
use anyhow::Result;
use iroh_docs::{store::fs::Store, NamespaceSecret};
use redb_v3::{Legacy, MultimapTableDefinition, TableDefinition};

type RecordsKey<'a> = (&'a [u8; 32], &'a [u8; 32], &'a [u8]);
type RecordsValue<'a> = (u64, &'a [u8; 64], &'a [u8; 64], u64, &'a [u8; 32]);
const OLD_RECORDS: TableDefinition<Legacy<RecordsKey>, RecordsValue> = TableDefinition::new("records-1");
const NAMESPACES: TableDefinition<&[u8; 32], (u8, &[u8; 32])> = TableDefinition::new("namespaces-2");
const PEERS: MultimapTableDefinition<&[u8; 32], (u64, &[u8; 32])> = MultimapTableDefinition::new("sync-peers-1");

#[test]
fn f13_useful_peers_survive_the_redb_v2_migration() -> Result<()> {
    let dir = tempfile::tempdir()?;
    let path = dir.path().join("docs.db");
    let secret = NamespaceSecret::from_bytes(&[7u8; 32]);
    let ns = secret.id();
    let peers: Vec<[u8; 32]> = vec![[11u8; 32], [12u8; 32], [13u8; 32]];
    {
        // a store as iroh-docs 0.94..=0.98 left it: one document (write capability), three useful peers,
        // and a records table carrying the redb 2.x type tag
        let db = redb_v3::Database::create(&path)?;
        let tx = db.begin_write()?;
        {
            let mut records = tx.open_table(OLD_RECORDS)?;
            records.insert((ns.as_bytes(), &[2u8; 32], b"k".as_slice()), (42u64, &[3u8; 64], &[4u8; 64], 1u64, &[5u8; 32]))?;
            let mut namespaces = tx.open_table(NAMESPACES)?;
            namespaces.insert(ns.as_bytes(), (1u8, &secret.to_bytes()))?;
            let mut t = tx.open_multimap_table(PEERS)?;
            for (i, p) in peers.iter().enumerate() {
                t.insert(ns.as_bytes(), (1000 + i as u64, p))?;
            }
        }
        tx.commit()?;
    }
    let mut store = Store::persistent(&path)?;
    assert!(path.with_extension("db.backup-redb-v2-tuples").exists() || dir.path().join("docs.db.backup-redb-v2-tuples").exists(), "the redb 2.x migration ran");
    let got: Vec<[u8; 32]> = store.get_sync_peers(&ns)?.map(|it| it.collect()).unwrap_or_default();
    let mut want = peers.clone();
    want.reverse(); // most recent first
    assert_eq!(got, want, "the useful-peer list of the document after reopening (migrating) the store");
    Ok(())
}

#![allow(unused, clippy::all)]
//! Randomized explorer at the public API layer, compared against a reference model.

use std::{
    collections::{BTreeMap, BTreeSet, HashSet, VecDeque},
    pin::Pin,
};

use anyhow::Result;
use bytes::Bytes;
use iroh_blobs::Hash;
use iroh_docs::{
    api::{
        protocol::{AddrInfoOptions, ShareMode},
        Doc, DocsApi,
    },
    engine::LiveEvent,
    store::{DownloadPolicy, FilterKind, Query, SortBy, SortDirection},
    AuthorId, Capability, CapabilityKind, Entry, NamespaceId, NamespaceSecret,
};
use n0_future::{time::Duration, Stream, StreamExt};
use rand::{RngExt, SeedableRng};

mod util;
use util::{empty_endpoint, Node};

#[derive(Clone, Copy, PartialEq, Eq, Debug)]
enum Cap {
    None,
    Read,
    Write,
}

#[derive(Debug, Clone)]
struct MEntry {
    value: Vec<u8>, // empty = deletion marker
    seq: u64,
}

struct MNs {
    secret: NamespaceSecret,
    id: NamespaceId,
    cap: Cap,
    handles: BTreeSet<usize>,
    live: bool,
    entries: BTreeMap<(usize, Vec<u8>), MEntry>,
    policy: DownloadPolicy,
}

impl MNs {
    fn open(&self) -> bool {
        !self.handles.is_empty() || self.live
    }
}

struct Slot {
    doc: Doc,
    ns: usize,
    hid: usize,
}

#[derive(PartialEq, Eq, Debug, Clone, Copy)]
enum SubState {
    Alive,
    Detached, // replica was closed: no more insert events, stream stays open
    Ended,    // stream must yield None
}

type EvStream = Pin<Box<dyn Stream<Item = Result<LiveEvent>> + Send + 'static>>;

struct Sub {
    ns: usize,
    stream: EvStream,
    state: SubState,
}

#[derive(Debug, Clone)]
enum KF {
    Any,
    Exact(Vec<u8>),
    Prefix(Vec<u8>),
}

#[derive(Debug, Clone)]
struct Q {
    latest: bool,
    author: Option<usize>,
    key: KF,
    by_key: bool,
    desc: bool,
    include_empty: bool,
    offset: u64,
    limit: Option<u64>,
}

#[derive(Debug, Clone)]
enum Op {
    ImportWrite(usize),
    ImportRead(usize),
    Open(usize),
    CloneSlot(usize),
    Close(usize),
    DropDoc(usize),
    SetBytes(usize, usize, Vec<u8>, Vec<u8>),
    Del(usize, usize, Vec<u8>),
    GetExact(usize, usize, Vec<u8>, bool),
    GetMany(usize, Q),
    Subscribe(usize),
    DropSub(usize),
    SetPolicy(usize, DownloadPolicy),
    GetPolicy(usize),
    Share(usize, bool),
    StartSync(usize),
    Leave(usize),
    List,
}

const KEYS: &[&[u8]] = &[b"", b"a", b"ab", b"b", b"\xff", b"\xff\xff"];
const VALS: &[&[u8]] = &[b"x", b"y", b"zz"];

fn policies() -> Vec<DownloadPolicy> {
    vec![
        DownloadPolicy::default(),
        DownloadPolicy::NothingExcept(vec![]),
        DownloadPolicy::NothingExcept(vec![FilterKind::Prefix(Bytes::from_static(b"a"))]),
        DownloadPolicy::EverythingExcept(vec![
            FilterKind::Exact(Bytes::from_static(b"\xff")),
            FilterKind::Prefix(Bytes::new()),
        ]),
    ]
}

struct World {
    docs: DocsApi,
    authors: Vec<AuthorId>,
    nss: Vec<MNs>,
    slots: Vec<Slot>,
    closed: HashSet<usize>,
    next_hid: usize,
    subs: Vec<Sub>,
    seq: u64,
    avoid_stale: bool,
    voided: HashSet<usize>,
}

fn build_query(q: &Q, authors: &[AuthorId]) -> Query {
    let dir = if q.desc {
        SortDirection::Desc
    } else {
        SortDirection::Asc
    };
    if q.latest {
        let mut b = Query::single_latest_per_key();
        if let Some(a) = q.author {
            b = b.author(authors[a]);
        }
        b = match &q.key {
            KF::Any => b,
            KF::Exact(k) => b.key_exact(k),
            KF::Prefix(k) => b.key_prefix(k),
        };
        if q.include_empty {
            b = b.include_empty();
        }
        b = b.offset(q.offset);
        if let Some(l) = q.limit {
            b = b.limit(l);
        }
        b.sort_direction(dir).build()
    } else {
        let mut b = Query::all();
        if let Some(a) = q.author {
            b = b.author(authors[a]);
        }
        b = match &q.key {
            KF::Any => b,
            KF::Exact(k) => b.key_exact(k),
            KF::Prefix(k) => b.key_prefix(k),
        };
        if q.include_empty {
            b = b.include_empty();
        }
        b = b.offset(q.offset);
        if let Some(l) = q.limit {
            b = b.limit(l);
        }
        let sb = if q.by_key {
            SortBy::KeyAuthor
        } else {
            SortBy::AuthorKey
        };
        b.sort_by(sb, dir).build()
    }
}

fn kf_matches(kf: &KF, key: &[u8]) -> bool {
    match kf {
        KF::Any => true,
        KF::Exact(k) => k == key,
        KF::Prefix(p) => key.starts_with(p),
    }
}

type Row = (usize, Vec<u8>, Vec<u8>);

fn model_query(ns: &MNs, q: &Q, authors: &[AuthorId]) -> Vec<Row> {
    let mut rows: Vec<(usize, Vec<u8>, MEntry)> = ns
        .entries
        .iter()
        .filter(|((_a, k), _)| kf_matches(&q.key, k))
        .map(|((a, k), e)| (*a, k.clone(), e.clone()))
        .collect();
    if q.latest {
        let mut per_key: BTreeMap<Vec<u8>, (usize, MEntry)> = BTreeMap::new();
        for (a, k, e) in rows {
            match per_key.get(&k) {
                Some((_, old)) if old.seq > e.seq => {}
                _ => {
                    per_key.insert(k, (a, e));
                }
            }
        }
        let mut out: Vec<Row> = per_key
            .into_iter()
            .filter(|(_k, (a, _e))| q.author.map(|qa| qa == *a).unwrap_or(true))
            .filter(|(_k, (_a, e))| q.include_empty || !e.value.is_empty())
            .map(|(k, (a, e))| (a, k, e.value))
            .collect();
        if q.desc {
            out.reverse();
        }
        let out: Vec<Row> = out.into_iter().skip(q.offset as usize).collect();
        match q.limit {
            Some(l) => out.into_iter().take(l as usize).collect(),
            None => out,
        }
    } else {
        rows.retain(|(a, _k, e)| {
            q.author.map(|qa| qa == *a).unwrap_or(true) && (q.include_empty || !e.value.is_empty())
        });
        if q.by_key {
            rows.sort_by(|x, y| {
                (x.1.clone(), authors[x.0].to_bytes()).cmp(&(y.1.clone(), authors[y.0].to_bytes()))
            });
        } else {
            rows.sort_by(|x, y| {
                (authors[x.0].to_bytes(), x.1.clone()).cmp(&(authors[y.0].to_bytes(), y.1.clone()))
            });
        }
        if q.desc {
            rows.reverse();
        }
        let out: Vec<Row> = rows
            .into_iter()
            .skip(q.offset as usize)
            .map(|(a, k, e)| (a, k, e.value))
            .collect();
        match q.limit {
            Some(l) => out.into_iter().take(l as usize).collect(),
            None => out,
        }
    }
}

fn entry_row(e: &Entry, authors: &[AuthorId]) -> (usize, Vec<u8>, Hash, u64) {
    let a = authors
        .iter()
        .position(|a| *a == e.author())
        .unwrap_or(usize::MAX);
    (a, e.key().to_vec(), e.content_hash(), e.content_len())
}

fn row_expect(r: &Row) -> (usize, Vec<u8>, Hash, u64) {
    if r.2.is_empty() {
        (r.0, r.1.clone(), Hash::EMPTY, 0)
    } else {
        (r.0, r.1.clone(), Hash::new(&r.2), r.2.len() as u64)
    }
}

impl World {
    fn slot_unclosed(&self, s: usize) -> bool {
        !self.closed.contains(&self.slots[s].hid)
    }
    fn usable(&self, s: usize) -> bool {
        self.slot_unclosed(s) && self.nss[self.slots[s].ns].open()
    }

    fn gen_op(&self, rng: &mut impl rand::Rng) -> Op {
        loop {
            let n_ns = self.nss.len();
            let n_slots = self.slots.len();
            let kind = rng.random_range(0..26u32);
            let ns = rng.random_range(0..n_ns);
            let key = KEYS[rng.random_range(0..KEYS.len())].to_vec();
            let author = rng.random_range(0..self.authors.len());
            if n_slots == 0 && !(matches!(kind, 0 | 1 | 2 | 5 | 17)) {
                continue;
            }
            let s = if n_slots > 0 {
                rng.random_range(0..n_slots)
            } else {
                0
            };
            let op = match kind {
                0 => Op::ImportWrite(ns),
                1 => Op::ImportRead(ns),
                2 => Op::Open(ns),
                3 => Op::CloneSlot(s),
                4 | 18 => Op::Close(s),
                5 => Op::DropDoc(ns),
                6 | 19 | 20 | 21 => Op::SetBytes(
                    s,
                    author,
                    key,
                    VALS[rng.random_range(0..VALS.len())].to_vec(),
                ),
                7 | 22 => Op::Del(s, author, key),
                8 => Op::GetExact(s, author, key, rng.random_bool(0.5)),
                9 | 23 => {
                    let kf = match rng.random_range(0..3) {
                        0 => KF::Any,
                        1 => KF::Exact(key),
                        _ => KF::Prefix(key),
                    };
                    Op::GetMany(
                        s,
                        Q {
                            latest: rng.random_bool(0.5),
                            author: if rng.random_bool(0.4) {
                                Some(author)
                            } else {
                                None
                            },
                            key: kf,
                            by_key: rng.random_bool(0.5),
                            desc: rng.random_bool(0.5),
                            include_empty: rng.random_bool(0.5),
                            offset: if rng.random_bool(0.3) { 1 } else { 0 },
                            limit: if rng.random_bool(0.3) {
                                Some(rng.random_range(0..3))
                            } else {
                                None
                            },
                        },
                    )
                }
                10 | 24 => Op::Subscribe(s),
                11 => {
                    if self.subs.is_empty() {
                        continue;
                    }
                    Op::DropSub(rng.random_range(0..self.subs.len()))
                }
                12 => {
                    let p = policies();
                    Op::SetPolicy(s, p[rng.random_range(0..p.len())].clone())
                }
                13 => Op::GetPolicy(s),
                14 => Op::Share(s, rng.random_bool(0.5)),
                15 => Op::StartSync(s),
                16 | 25 => Op::Leave(s),
                17 => Op::List,
                _ => unreachable!(),
            };
            if self.avoid_stale {
                // do not use Doc objects whose handle was voided by a drop
                let slot = match &op {
                    Op::CloneSlot(s)
                    | Op::Close(s)
                    | Op::SetBytes(s, ..)
                    | Op::Del(s, ..)
                    | Op::GetExact(s, ..)
                    | Op::GetMany(s, ..)
                    | Op::Subscribe(s)
                    | Op::SetPolicy(s, ..)
                    | Op::GetPolicy(s)
                    | Op::Share(s, ..)
                    | Op::StartSync(s)
                    | Op::Leave(s) => Some(*s),
                    _ => None,
                };
                if let Some(s) = slot {
                    if self.voided.contains(&self.slots[s].hid) {
                        continue;
                    }
                }
            }
            return op;
        }
    }

    fn new_slot(&mut self, doc: Doc, ns: usize) {
        let hid = self.next_hid;
        self.next_hid += 1;
        self.nss[ns].handles.insert(hid);
        self.slots.push(Slot { doc, ns, hid });
    }

    /// after a change of handles / live: if the replica is closed now, subscribers are detached
    fn after_handles_change(&mut self, ns: usize) {
        if !self.nss[ns].open() {
            for sub in self.subs.iter_mut() {
                if sub.ns == ns && sub.state == SubState::Alive {
                    sub.state = SubState::Detached;
                }
            }
        }
    }

    async fn expect_insert(
        &mut self,
        ns: usize,
        author: usize,
        key: &[u8],
        value: &[u8],
        errs: &mut Vec<String>,
    ) {
        let want = row_expect(&(author, key.to_vec(), value.to_vec()));
        for (i, sub) in self.subs.iter_mut().enumerate() {
            if sub.ns != ns || sub.state != SubState::Alive {
                continue;
            }
            match tokio::time::timeout(Duration::from_secs(3), sub.stream.next()).await {
                Err(_) => errs.push(format!("sub {i}: no insert event within 3s")),
                Ok(None) => errs.push(format!("sub {i}: stream ended instead of insert event")),
                Ok(Some(Err(e))) => errs.push(format!("sub {i}: error event {e}")),
                Ok(Some(Ok(LiveEvent::InsertLocal { entry }))) => {
                    let got = entry_row(&entry, &self.authors);
                    if got != want {
                        errs.push(format!("sub {i}: wrong event {got:?} want {want:?}"));
                    }
                }
                Ok(Some(Ok(ev))) => errs.push(format!("sub {i}: unexpected event {ev:?}")),
            }
        }
    }

    async fn apply(&mut self, op: &Op, errs: &mut Vec<String>) {
        match op.clone() {
            Op::ImportWrite(ns) => {
                let cap = Capability::Write(self.nss[ns].secret.clone());
                match self.docs.import_namespace(cap).await {
                    Ok(doc) => {
                        self.nss[ns].cap = Cap::Write;
                        self.new_slot(doc, ns);
                    }
                    Err(e) => errs.push(format!("import write failed: {e}")),
                }
            }
            Op::ImportRead(ns) => {
                let cap = Capability::Read(self.nss[ns].id);
                match self.docs.import_namespace(cap).await {
                    Ok(doc) => {
                        if self.nss[ns].cap == Cap::None {
                            self.nss[ns].cap = Cap::Read;
                        }
                        self.new_slot(doc, ns);
                    }
                    Err(e) => errs.push(format!("import read failed: {e}")),
                }
            }
            Op::Open(ns) => {
                let res = self.docs.open(self.nss[ns].id).await;
                let want_ok = self.nss[ns].cap != Cap::None;
                match res {
                    Ok(Some(doc)) => {
                        if !want_ok {
                            errs.push("open of a missing doc succeeded".into());
                        }
                        self.new_slot(doc, ns);
                    }
                    Ok(None) => errs.push("open returned None".into()),
                    Err(e) => {
                        if want_ok {
                            errs.push(format!("open failed: {e}"));
                        }
                    }
                }
            }
            Op::CloneSlot(s) => {
                let doc = self.slots[s].doc.clone();
                let (ns, hid) = (self.slots[s].ns, self.slots[s].hid);
                self.slots.push(Slot { doc, ns, hid });
            }
            Op::Close(s) => {
                let (ns, hid) = (self.slots[s].ns, self.slots[s].hid);
                let res = self.slots[s].doc.close().await;
                if let Err(e) = res {
                    errs.push(format!("close failed: {e}"));
                }
                self.closed.insert(hid);
                self.nss[ns].handles.remove(&hid);
                self.after_handles_change(ns);
            }
            Op::DropDoc(ns) => {
                let res = self.docs.drop_doc(self.nss[ns].id).await;
                // leave happens first in any case (known)
                self.nss[ns].live = false;
                for sub in self.subs.iter_mut() {
                    if sub.ns == ns {
                        sub.state = SubState::Ended;
                    }
                }
                let want_ok = self.nss[ns].handles.len() <= 1;
                match (res, want_ok) {
                    (Ok(()), true) => {
                        let m = &mut self.nss[ns];
                        m.cap = Cap::None;
                        for h in m.handles.iter() {
                            self.voided.insert(*h);
                        }
                        m.handles.clear();
                        m.entries.clear();
                        m.policy = DownloadPolicy::default();
                        // every unclosed Doc object of this ns is void now
                        for slot in self.slots.iter() {
                            if slot.ns == ns && !self.closed.contains(&slot.hid) {
                                self.voided.insert(slot.hid);
                            }
                        }
                    }
                    (Err(_), false) => {
                        self.after_handles_change(ns);
                    }
                    (Ok(()), false) => errs.push("drop of a doc with >1 handles succeeded".into()),
                    (Err(e), true) => errs.push(format!("drop refused: {e}")),
                }
            }
            Op::SetBytes(s, a, key, value) => {
                let ns = self.slots[s].ns;
                let want_ok = self.usable(s) && self.nss[ns].cap == Cap::Write;
                let res = self.slots[s]
                    .doc
                    .set_bytes(self.authors[a], key.clone(), value.clone())
                    .await;
                match (res, want_ok) {
                    (Ok(hash), true) => {
                        if hash != Hash::new(&value) {
                            errs.push("set_bytes: wrong hash".into());
                        }
                        self.seq += 1;
                        let seq = self.seq;
                        let m = &mut self.nss[ns];
                        m.entries.retain(|(ea, ek), _| !(*ea == a && ek.starts_with(&key)));
                        m.entries.insert(
                            (a, key.clone()),
                            MEntry {
                                value: value.clone(),
                                seq,
                            },
                        );
                        self.expect_insert(ns, a, &key, &value, errs).await;
                    }
                    (Err(_), false) => {}
                    (Ok(_), false) => errs.push("set_bytes succeeded but must fail".into()),
                    (Err(e), true) => errs.push(format!("set_bytes failed: {e}")),
                }
            }
            Op::Del(s, a, key) => {
                let ns = self.slots[s].ns;
                let want_ok = self.usable(s) && self.nss[ns].cap == Cap::Write;
                let res = self.slots[s].doc.del(self.authors[a], key.clone()).await;
                match (res, want_ok) {
                    (Ok(removed), true) => {
                        self.seq += 1;
                        let seq = self.seq;
                        let m = &mut self.nss[ns];
                        let before = m.entries.len();
                        m.entries.retain(|(ea, ek), _| !(*ea == a && ek.starts_with(&key)));
                        let want_removed = before - m.entries.len();
                        m.entries.insert(
                            (a, key.clone()),
                            MEntry {
                                value: vec![],
                                seq,
                            },
                        );
                        if removed != want_removed {
                            errs.push(format!("del removed {removed}, model {want_removed}"));
                        }
                        self.expect_insert(ns, a, &key, &[], errs).await;
                    }
                    (Err(_), false) => {}
                    (Ok(_), false) => errs.push("del succeeded but must fail".into()),
                    (Err(e), true) => errs.push(format!("del failed: {e}")),
                }
            }
            Op::GetExact(s, a, key, include_empty) => {
                let ns = self.slots[s].ns;
                let want_ok = self.usable(s);
                let res = self.slots[s]
                    .doc
                    .get_exact(self.authors[a], key.clone(), include_empty)
                    .await;
                match (res, want_ok) {
                    (Ok(got), true) => {
                        let want = self.nss[ns]
                            .entries
                            .get(&(a, key.clone()))
                            .filter(|e| include_empty || !e.value.is_empty())
                            .map(|e| row_expect(&(a, key.clone(), e.value.clone())));
                        let got = got.map(|e| entry_row(&e, &self.authors));
                        if got != want {
                            errs.push(format!("get_exact got {got:?} want {want:?}"));
                        }
                    }
                    (Err(_), false) => {}
                    (Ok(_), false) => errs.push("get_exact succeeded but must fail".into()),
                    (Err(e), true) => errs.push(format!("get_exact failed: {e}")),
                }
            }
            Op::GetMany(s, q) => {
                let ns = self.slots[s].ns;
                let want_ok = self.usable(s);
                let query = build_query(&q, &self.authors);
                let res: Result<Vec<Entry>> = async {
                    let stream = self.slots[s].doc.get_many(query).await?;
                    tokio::pin!(stream);
                    let mut out = vec![];
                    while let Some(item) = stream.next().await {
                        out.push(item?);
                    }
                    Ok(out)
                }
                .await;
                match (res, want_ok) {
                    (Ok(got), true) => {
                        let want: Vec<_> = model_query(&self.nss[ns], &q, &self.authors)
                            .iter()
                            .map(row_expect)
                            .collect();
                        let got: Vec<_> = got.iter().map(|e| entry_row(e, &self.authors)).collect();
                        if got != want {
                            errs.push(format!("get_many got {got:?} want {want:?}"));
                        }
                    }
                    (Err(_), false) => {}
                    (Ok(got), false) => {
                        errs.push(format!("get_many succeeded but must fail: {}", got.len()))
                    }
                    (Err(e), true) => errs.push(format!("get_many failed: {e}")),
                }
            }
            Op::Subscribe(s) => {
                let ns = self.slots[s].ns;
                let want_ok = self.usable(s);
                let res = self.slots[s].doc.subscribe().await;
                match (res, want_ok) {
                    (Ok(stream), true) => self.subs.push(Sub {
                        ns,
                        stream: Box::pin(stream),
                        state: SubState::Alive,
                    }),
                    (Err(_), false) => {}
                    (Ok(stream), false) => {
                        // local irpc: the error arrives as first item
                        let mut stream = Box::pin(stream);
                        match tokio::time::timeout(Duration::from_secs(3), stream.next()).await {
                            Ok(Some(Err(_))) | Ok(None) => {}
                            other => errs.push(format!(
                                "subscribe succeeded but must fail: {:?}",
                                other.map(|o| o.map(|r| r.map_err(|e| e.to_string())))
                            )),
                        }
                    }
                    (Err(e), true) => errs.push(format!("subscribe failed: {e}")),
                }
            }
            Op::DropSub(i) => {
                self.subs.remove(i);
            }
            Op::SetPolicy(s, p) => {
                let ns = self.slots[s].ns;
                let want_ok = self.slot_unclosed(s) && self.nss[ns].cap != Cap::None;
                let res = self.slots[s].doc.set_download_policy(p.clone()).await;
                match (res, want_ok) {
                    (Ok(()), true) => self.nss[ns].policy = p,
                    (Err(_), false) => {}
                    (Ok(_), false) => errs.push("set_policy succeeded but must fail".into()),
                    (Err(e), true) => errs.push(format!("set_policy failed: {e}")),
                }
            }
            Op::GetPolicy(s) => {
                let ns = self.slots[s].ns;
                let want_ok = self.slot_unclosed(s);
                let res = self.slots[s].doc.get_download_policy().await;
                match (res, want_ok) {
                    (Ok(p), true) => {
                        if p != self.nss[ns].policy {
                            errs.push(format!("get_policy {p:?} want {:?}", self.nss[ns].policy));
                        }
                    }
                    (Err(_), false) => {}
                    (Ok(_), false) => errs.push("get_policy succeeded but must fail".into()),
                    (Err(e), true) => errs.push(format!("get_policy failed: {e}")),
                }
            }
            Op::Share(s, write) => {
                let ns = self.slots[s].ns;
                let want_ok = self.slot_unclosed(s)
                    && if write {
                        self.nss[ns].open() && self.nss[ns].cap == Cap::Write
                    } else {
                        self.nss[ns].cap != Cap::None
                    };
                let mode = if write {
                    ShareMode::Write
                } else {
                    ShareMode::Read
                };
                let res = self.slots[s].doc.share(mode, AddrInfoOptions::Id).await;
                match (res, want_ok) {
                    (Ok(ticket), true) => {
                        self.nss[ns].live = true;
                        let kind_ok = match (&ticket.capability, write) {
                            (Capability::Write(sec), true) => sec.id() == self.nss[ns].id,
                            (Capability::Read(id), false) => *id == self.nss[ns].id,
                            _ => false,
                        };
                        if !kind_ok {
                            errs.push("share: wrong capability in ticket".into());
                        }
                    }
                    (Err(_), false) => {}
                    (Ok(_), false) => errs.push("share succeeded but must fail".into()),
                    (Err(e), true) => errs.push(format!("share failed: {e}")),
                }
            }
            Op::StartSync(s) => {
                let ns = self.slots[s].ns;
                let want_ok = self.slot_unclosed(s) && self.nss[ns].cap != Cap::None;
                let res = self.slots[s].doc.start_sync(vec![]).await;
                match (res, want_ok) {
                    (Ok(()), true) => self.nss[ns].live = true,
                    (Err(_), false) => {}
                    (Ok(_), false) => errs.push("start_sync succeeded but must fail".into()),
                    (Err(e), true) => errs.push(format!("start_sync failed: {e}")),
                }
            }
            Op::Leave(s) => {
                let ns = self.slots[s].ns;
                let want_ok = self.slot_unclosed(s);
                let res = self.slots[s].doc.leave().await;
                match (res, want_ok) {
                    (Ok(()), true) => {
                        self.nss[ns].live = false;
                        self.after_handles_change(ns);
                    }
                    (Err(_), false) => {}
                    (Ok(_), false) => errs.push("leave succeeded but must fail".into()),
                    (Err(e), true) => errs.push(format!("leave failed: {e}")),
                }
            }
            Op::List => {
                let res: Result<Vec<(NamespaceId, CapabilityKind)>> = async {
                    let stream = self.docs.list().await?;
                    tokio::pin!(stream);
                    let mut out = vec![];
                    while let Some(item) = stream.next().await {
                        out.push(item?);
                    }
                    Ok(out)
                }
                .await;
                match res {
                    Err(e) => errs.push(format!("list failed {e}")),
                    Ok(list) => {
                        for m in &self.nss {
                            let got = list.iter().find(|(id, _)| *id == m.id).map(|(_, k)| match k {
                                CapabilityKind::Write => Cap::Write,
                                CapabilityKind::Read => Cap::Read,
                            });
                            let want = match m.cap {
                                Cap::None => None,
                                c => Some(c),
                            };
                            if got != want {
                                errs.push(format!("list: got {got:?} want {want:?}"));
                            }
                        }
                    }
                }
            }
        }
    }

    /// compare the open state of every namespace with the model
    async fn check_status(&mut self, errs: &mut Vec<String>) {
        for ns in 0..self.nss.len() {
            // find a Doc object that is not closed on the client side
            let Some(s) = (0..self.slots.len()).find(|s| self.slots[*s].ns == ns && self.slot_unclosed(*s))
            else {
                continue;
            };
            let res = self.slots[s].doc.status().await;
            let m = &self.nss[ns];
            match res {
                Ok(st) => {
                    if !m.open() {
                        errs.push(format!("status ns{ns}: open {st:?} but model closed"));
                    } else {
                        let want_handles = m.handles.len() + m.live as usize;
                        if st.handles != want_handles || st.sync != m.live {
                            errs.push(format!(
                                "status ns{ns}: {st:?}, model handles {want_handles} sync {}",
                                m.live
                            ));
                        }
                    }
                }
                Err(e) => {
                    if m.open() {
                        errs.push(format!("status ns{ns}: failed {e} but model open"));
                    }
                }
            }
        }
    }

    async fn finish(&mut self, errs: &mut Vec<String>) {
        tokio::time::sleep(Duration::from_millis(15)).await;
        for (i, sub) in self.subs.iter_mut().enumerate() {
            let next = tokio::time::timeout(Duration::from_millis(2), sub.stream.next()).await;
            match (sub.state, next) {
                (SubState::Alive | SubState::Detached, Err(_)) => {}
                (SubState::Ended, Ok(None)) => {}
                (SubState::Ended, Err(_)) => errs.push(format!("sub {i}: ended in model but still open")),
                (st, Ok(other)) => errs.push(format!(
                    "sub {i} ({st:?}): extra item {:?}",
                    other.map(|r| r.map_err(|e| e.to_string()))
                )),
            }
        }
        self.subs.clear();
        // cleanup
        for s in 0..self.slots.len() {
            if self.slot_unclosed(s) {
                let _ = self.slots[s].doc.close().await;
                let hid = self.slots[s].hid;
                self.closed.insert(hid);
            }
        }
        for ns in 0..self.nss.len() {
            let _ = self.docs.drop_doc(self.nss[ns].id).await;
        }
    }
}

async fn run(seed0: u64, n: u64, avoid_stale: bool) -> Result<Vec<String>> {
    let node = Node::memory(empty_endpoint().await?).spawn().await?;
    let docs = node.docs().clone();
    let a0 = docs.author_default().await?;
    let a1 = docs.author_create().await?;
    let authors = vec![a0, a1];
    let mut kinds: BTreeMap<String, String> = BTreeMap::new();
    for seed in seed0..seed0 + n {
        let mut rng = rand::rngs::ChaCha12Rng::seed_from_u64(seed);
        let mut nss = vec![];
        for _ in 0..2 {
            let secret = NamespaceSecret::new(&mut rng);
            nss.push(MNs {
                id: secret.id(),
                secret,
                cap: Cap::None,
                handles: Default::default(),
                live: false,
                entries: Default::default(),
                policy: DownloadPolicy::default(),
            });
        }
        let mut w = World {
            docs: docs.clone(),
            authors: authors.clone(),
            nss,
            slots: vec![],
            closed: Default::default(),
            next_hid: 0,
            subs: vec![],
            seq: 0,
            avoid_stale,
            voided: Default::default(),
        };
        let len = rng.random_range(3..10usize);
        let mut trace = vec![];
        let mut failed = false;
        for _ in 0..len {
            let op = w.gen_op(&mut rng);
            trace.push(format!("{op:?}"));
            let mut errs = vec![];
            w.apply(&op, &mut errs).await;
            w.check_status(&mut errs).await;
            if !errs.is_empty() {
                let kind = errs[0]
                    .chars()
                    .filter(|c| !c.is_ascii_digit())
                    .take(40)
                    .collect::<String>();
                let kind = format!("{} @ {}", kind, format!("{op:?}").split('(').next().unwrap());
                kinds
                    .entry(kind)
                    .or_insert_with(|| format!("seed {seed}: {trace:#?}\n  => {errs:?}"));
                failed = true;
                break;
            }
        }
        let mut errs = vec![];
        w.finish(&mut errs).await;
        if !failed && !errs.is_empty() {
            let kind = errs[0]
                .chars()
                .filter(|c| !c.is_ascii_digit())
                .take(40)
                .collect::<String>();
            kinds
                .entry(format!("{kind} @ finish"))
                .or_insert_with(|| format!("seed {seed}: {trace:#?}\n  => {errs:?}"));
        }
    }
    node.shutdown().await?;
    Ok(kinds.into_iter().map(|(k, v)| format!("### {k}\n{v}")).collect())
}

#[tokio::test(flavor = "multi_thread", worker_threads = 2)]
async fn explore_api() -> Result<()> {
    let n: u64 = std::env::var("EXPLORE_N")
        .ok()
        .and_then(|s| s.parse().ok())
        .unwrap_or(300);
    let seed0: u64 = std::env::var("EXPLORE_SEED")
        .ok()
        .and_then(|s| s.parse().ok())
        .unwrap_or(0);
    let avoid_stale = std::env::var("EXPLORE_AVOID_STALE").is_ok();
    let kinds = run(seed0, n, avoid_stale).await?;
    for k in &kinds {
        println!("{k}\n");
    }
    assert!(kinds.is_empty(), "{} kinds of divergence", kinds.len());
    Ok(())
}

//! Small-scope exhaustive explorer for property C11 (development harness).
use std::collections::{HashSet, VecDeque};

use iroh::{endpoint::presets, SecretKey};
use rand::RngExt;

use super::super::*;
use crate::{net::Timings, NamespaceSecret, SyncOutcome};

// ---------- abstract vocabulary ----------

#[derive(Clone, Copy, PartialEq, Eq, Hash, Debug, PartialOrd, Ord)]
enum Slot {
    Idle,
    Connect,
    Accept,
}

#[derive(Clone, Copy, PartialEq, Eq, Hash, Debug, PartialOrd, Ord)]
enum Rsn {
    DirectJoin,
    NewNeighbor,
    SyncReport,
    Resync,
}
impl Rsn {
    fn real(self) -> SyncReason {
        match self {
            Rsn::DirectJoin => SyncReason::DirectJoin,
            Rsn::NewNeighbor => SyncReason::NewNeighbor,
            Rsn::SyncReport => SyncReason::SyncReport,
            Rsn::Resync => SyncReason::Resync,
        }
    }
}

#[derive(Clone, Copy, PartialEq, Eq, Hash, Debug, PartialOrd, Ord)]
enum DialRes {
    Ok,
    Connect,
    AbortAlreadySyncing,
    AbortNotFound,
    Sync,
    Close,
}
const DIAL_RES: [DialRes; 6] = [
    DialRes::Ok,
    DialRes::Connect,
    DialRes::AbortAlreadySyncing,
    DialRes::AbortNotFound,
    DialRes::Sync,
    DialRes::Close,
];

#[derive(Clone, Copy, PartialEq, Eq, Hash, Debug, PartialOrd, Ord)]
enum Why {
    AlreadySyncing,
    NotFound,
}
impl Why {
    fn real(self) -> AbortReason {
        match self {
            Why::AlreadySyncing => AbortReason::AlreadySyncing,
            Why::NotFound => AbortReason::NotFound,
        }
    }
}

#[derive(Clone, Copy, PartialEq, Eq, Hash, Debug, PartialOrd, Ord)]
enum AccRes {
    Ok,
    SyncKnown,
    CloseKnown,
    Abort(Why),
    SyncUnknown,
    CloseUnknown,
}

#[derive(Clone, Copy, PartialEq, Eq, Hash, Debug, PartialOrd, Ord)]
struct DialT {
    reason: Rsn,
    /// a newer dial was started after this one
    superseded: bool,
    /// a request of the remote was allowed while this dial was in flight (tie-break takeover)
    orphaned: bool,
}

#[derive(Clone, Copy, PartialEq, Eq, Hash, Debug, PartialOrd, Ord)]
enum AccT {
    Allowed,
    Declined(Why),
}

#[derive(Clone, Copy, PartialEq, Eq, Hash, Debug)]
enum Ev {
    Dial(Rsn),
    Incoming,
    Report,
    DialResult(DialT, DialRes),
    AccResult(AccT, AccRes),
    Leave,
    StartSync,
}

#[derive(Clone, PartialEq, Eq, Hash, Debug)]
struct St {
    // mirror of the code's state
    syncing: bool,
    slot: Slot,
    flag: bool,
    // truth
    dials: Vec<DialT>,
    accs: Vec<AccT>,
    // monitor
    owed: bool,
}

/// What the code visibly did in one event.
#[derive(Clone, PartialEq, Eq, Debug, Default)]
struct Out {
    spawned: Vec<Rsn>,
    outcome: Option<Result<(), Why>>,
}

#[derive(Clone, Copy)]
struct Cfg {
    me_greater: bool,
    with_leave: bool,
    depth: usize,
}

impl St {
    fn init() -> Self {
        St {
            syncing: true,
            slot: Slot::Idle,
            flag: false,
            dials: vec![],
            accs: vec![],
            owed: false,
        }
    }

    fn in_progress(&self) -> bool {
        self.dials.iter().any(|d| !d.orphaned) || self.accs.iter().any(|a| *a == AccT::Allowed)
    }

    fn nothing_in_flight(&self) -> bool {
        self.dials.is_empty() && self.accs.is_empty()
    }

    /// mirror of sync_with_peer; returns violations
    fn dial(&mut self, reason: Rsn, out: &mut Out, viol: &mut Vec<String>) {
        if !self.syncing {
            return;
        }
        match self.slot {
            Slot::Idle => {
                self.slot = Slot::Connect;
                self.flag = false;
                if self.in_progress() {
                    viol.push(format!(
                        "V1a: dial({reason:?}) started while a session is in progress"
                    ));
                }
                for d in self.dials.iter_mut() {
                    d.superseded = true;
                }
                self.dials.push(DialT {
                    reason,
                    superseded: false,
                    orphaned: false,
                });
                self.dials.sort();
                out.spawned.push(reason);
            }
            _ => {
                if reason == Rsn::SyncReport {
                    self.flag = true;
                    if self.in_progress() {
                        self.owed = true;
                    }
                }
            }
        }
    }

    fn finish(&mut self, accept: bool, out: &mut Out, viol: &mut Vec<String>) {
        if !self.syncing {
            return;
        }
        let owner = match self.slot {
            Slot::Idle => return,
            Slot::Connect => !accept,
            Slot::Accept => accept,
        };
        if !owner {
            return;
        }
        self.slot = Slot::Idle;
        if self.flag {
            self.dial(Rsn::Resync, out, viol);
        }
    }

    fn step(&self, ev: Ev, cfg: Cfg) -> (St, Out, Vec<String>) {
        let mut s = self.clone();
        let mut out = Out::default();
        let mut viol = vec![];
        let owed_before = s.owed;
        let mut is_result = false;
        match ev {
            Ev::Dial(r) => s.dial(r, &mut out, &mut viol),
            Ev::Report => s.dial(Rsn::SyncReport, &mut out, &mut viol),
            Ev::Incoming => {
                let outcome = if !s.syncing {
                    Err(Why::NotFound)
                } else {
                    match s.slot {
                        Slot::Idle => {
                            s.flag = false;
                            Ok(())
                        }
                        Slot::Accept => Err(Why::AlreadySyncing),
                        Slot::Connect => {
                            if cfg.me_greater {
                                Ok(())
                            } else {
                                Err(Why::AlreadySyncing)
                            }
                        }
                    }
                };
                match outcome {
                    Ok(()) => {
                        if s.accs.iter().any(|a| *a == AccT::Allowed) {
                            viol.push(
                                "V1b: request allowed while an accepted session is in progress"
                                    .into(),
                            );
                        }
                        if s.dials.iter().any(|d| !d.orphaned) {
                            if cfg.me_greater {
                                for d in s.dials.iter_mut() {
                                    d.orphaned = true;
                                }
                                s.dials.sort();
                            } else {
                                viol.push(
                                    "V1c: request allowed while our dial is in progress and we hold the lesser id"
                                        .into(),
                                );
                            }
                        }
                        s.slot = Slot::Accept;
                        s.accs.push(AccT::Allowed);
                    }
                    Err(why) => {
                        s.accs.push(AccT::Declined(why));
                    }
                }
                s.accs.sort();
                // P4
                if !self.syncing && outcome != Err(Why::NotFound) {
                    viol.push("V4: request for a document not being synced not declined NotFound".into());
                }
                if self.syncing && outcome == Err(Why::NotFound) {
                    viol.push("V4: request for a syncing document declined NotFound".into());
                }
                out.outcome = Some(outcome);
            }
            Ev::DialResult(d, r) => {
                is_result = true;
                let i = s.dials.iter().position(|x| *x == d).expect("enabled");
                s.dials.remove(i);
                match r {
                    DialRes::AbortAlreadySyncing => {
                        if s.syncing && s.slot == Slot::Connect {
                            s.slot = Slot::Idle;
                            if std::mem::take(&mut s.flag) {
                                s.dial(Rsn::Resync, &mut out, &mut viol);
                            }
                        }
                    }
                    _ => s.finish(false, &mut out, &mut viol),
                }
            }
            Ev::AccResult(a, r) => {
                is_result = true;
                let i = s.accs.iter().position(|x| *x == a).expect("enabled");
                s.accs.remove(i);
                match r {
                    AccRes::Ok | AccRes::SyncKnown | AccRes::CloseKnown => {
                        s.finish(true, &mut out, &mut viol)
                    }
                    _ => {}
                }
            }
            Ev::Leave => {
                s.syncing = false;
                s.slot = Slot::Idle;
                s.flag = false;
                s.owed = false;
            }
            Ev::StartSync => {
                if !s.syncing {
                    s.syncing = true;
                    s.slot = Slot::Idle;
                    s.flag = false;
                }
                // the peer is registered as useful: start_sync dials it
                s.dial(Rsn::DirectJoin, &mut out, &mut viol);
            }
        }
        // P3: follow-up
        if is_result {
            let followups = out.spawned.len();
            if followups > 1 {
                viol.push("V3: more than one follow-up dial in one event".into());
            }
            if followups >= 1 && !owed_before {
                viol.push("V3a: follow-up dial although no report was refused".into());
            }
            if followups >= 1 {
                s.owed = false;
            }
            if s.owed && !s.in_progress() {
                viol.push("V3b: report refused while a session was running, all sessions over, no follow-up dial".into());
            }
        }
        // P2: never permanently busy
        if s.nothing_in_flight() && s.syncing && s.slot != Slot::Idle {
            viol.push("V2: nothing in flight but the slot is busy".into());
        }
        (s, out, viol)
    }

    fn enabled(&self, cfg: Cfg) -> Vec<Ev> {
        let mut evs = vec![
            Ev::Dial(Rsn::DirectJoin),
            Ev::Dial(Rsn::NewNeighbor),
            Ev::Dial(Rsn::SyncReport),
            Ev::Dial(Rsn::Resync),
            Ev::Incoming,
            Ev::Report,
        ];
        if cfg.with_leave {
            evs.push(Ev::Leave);
            evs.push(Ev::StartSync);
        }
        let mut seen = HashSet::new();
        for d in &self.dials {
            // known items m / y: the result of an old dial delivered after a newer dial started
            if d.superseded || !seen.insert(*d) {
                continue;
            }
            for r in DIAL_RES {
                evs.push(Ev::DialResult(*d, r));
            }
        }
        let mut seen = HashSet::new();
        for a in &self.accs {
            if !seen.insert(*a) {
                continue;
            }
            match a {
                AccT::Allowed => {
                    for r in [AccRes::Ok, AccRes::SyncKnown, AccRes::CloseKnown] {
                        evs.push(Ev::AccResult(*a, r));
                    }
                }
                AccT::Declined(why) => {
                    for r in [AccRes::Abort(*why), AccRes::SyncUnknown, AccRes::CloseUnknown] {
                        evs.push(Ev::AccResult(*a, r));
                    }
                }
            }
        }
        evs
    }
}

// ---------- the real actor ----------

struct Real {
    actor: LiveActor,
    ns: NamespaceId,
    peer: PublicKey,
    _tx: mpsc::Sender<ToLiveActor>,
}

impl Real {
    async fn new(me_greater: bool) -> Real {
        let (sk, peer) = loop {
            let sk = SecretKey::from_bytes(&rand::rng().random());
            let peer = SecretKey::from_bytes(&rand::rng().random()).public();
            if (sk.public().as_bytes() > peer.as_bytes()) == me_greater {
                break (sk, peer);
            }
        };
        let endpoint = Endpoint::builder(presets::Minimal)
            .secret_key(sk)
            .bind()
            .await
            .unwrap();
        let gossip = Gossip::builder().spawn(endpoint.clone());
        let blobs = iroh_blobs::store::mem::MemStore::new();
        let bao_store: Store = (*blobs).clone();
        let downloader = bao_store.downloader(&endpoint);
        let sync = SyncHandle::spawn(crate::store::Store::memory(), None, "me".into());
        let secret = NamespaceSecret::new(&mut rand::rng());
        let ns = secret.id();
        sync.import_namespace(secret.into()).await.unwrap();
        sync.register_useful_peer(ns, *peer.as_bytes()).await.unwrap();
        let (tx, rx) = mpsc::channel(64);
        let metrics = sync.metrics().clone();
        let actor = LiveActor::new(
            sync, endpoint, gossip, bao_store, downloader, rx, tx.clone(), metrics,
        )
        .unwrap();
        let mut this = Real {
            actor,
            ns,
            peer,
            _tx: tx,
        };
        this.reset().await;
        this
    }

    /// Back to: document syncing, peer unknown to the state, nothing spawned.
    async fn reset(&mut self) {
        if !self.actor.state.is_syncing(&self.ns) {
            self.actor.start_sync(self.ns, vec![]).await.unwrap();
        }
        self.actor.state.remove(&self.ns);
        self.actor.state.insert(self.ns);
        self.actor.running_sync_connect = JoinSet::new();
        // drain messages the gossip loop may have sent to "us"
        while self.actor.inbox.try_recv().is_ok() {}
    }

    fn finished(&self) -> SyncFinished {
        SyncFinished {
            namespace: self.ns,
            peer: self.peer,
            outcome: SyncOutcome::default(),
            timings: Timings::default(),
        }
    }

    async fn apply(&mut self, ev: Ev) -> Out {
        let before = self.actor.running_sync_connect.len();
        let mut out = Out::default();
        let (ns, peer) = (self.ns, self.peer);
        let e = || anyhow::anyhow!("boom");
        match ev {
            Ev::Dial(r) => self.actor.sync_with_peer(ns, peer, r.real()),
            Ev::Report => {
                let mut heads = AuthorHeads::default();
                heads.insert(crate::AuthorId::from([7u8; 32]), 1);
                let report = SyncReport {
                    namespace: ns,
                    heads: heads.encode(None).unwrap(),
                };
                self.actor.on_sync_report(peer, report).await;
            }
            Ev::Incoming => {
                out.outcome = Some(match self.actor.accept_sync_request(ns, peer) {
                    AcceptOutcome::Allow => Ok(()),
                    AcceptOutcome::Reject(AbortReason::AlreadySyncing) => Err(Why::AlreadySyncing),
                    AcceptOutcome::Reject(AbortReason::NotFound) => Err(Why::NotFound),
                    AcceptOutcome::Reject(other) => panic!("unexpected {other:?}"),
                });
            }
            Ev::DialResult(d, r) => {
                let res = match r {
                    DialRes::Ok => Ok(self.finished()),
                    DialRes::Connect => Err(ConnectError::Connect { error: e() }),
                    DialRes::AbortAlreadySyncing => {
                        Err(ConnectError::RemoteAbort(AbortReason::AlreadySyncing))
                    }
                    DialRes::AbortNotFound => Err(ConnectError::RemoteAbort(AbortReason::NotFound)),
                    DialRes::Sync => Err(ConnectError::Sync { error: e() }),
                    DialRes::Close => Err(ConnectError::Close { error: e() }),
                };
                self.actor
                    .on_sync_via_connect_finished(ns, peer, d.reason.real(), res)
                    .await;
            }
            Ev::AccResult(_a, r) => {
                let res = match r {
                    AccRes::Ok => Ok(self.finished()),
                    AccRes::SyncKnown => Err(AcceptError::Sync {
                        peer,
                        namespace: Some(ns),
                        error: e(),
                    }),
                    AccRes::CloseKnown => Err(AcceptError::Close {
                        peer,
                        namespace: Some(ns),
                        error: e(),
                    }),
                    AccRes::Abort(why) => Err(AcceptError::Abort {
                        peer,
                        namespace: ns,
                        reason: why.real(),
                    }),
                    AccRes::SyncUnknown => Err(AcceptError::Sync {
                        peer,
                        namespace: None,
                        error: e(),
                    }),
                    AccRes::CloseUnknown => Err(AcceptError::Close {
                        peer,
                        namespace: None,
                        error: e(),
                    }),
                };
                self.actor.on_sync_via_accept_finished(res).await;
            }
            Ev::Leave => self.actor.leave(ns, false).await.unwrap(),
            Ev::StartSync => self.actor.start_sync(ns, vec![]).await.unwrap(),
        }
        let after = self.actor.running_sync_connect.len();
        // the real actor does not tell us the reason of a spawned dial: only the count is compared
        out.spawned = vec![Rsn::Resync; after - before];
        out
    }

    /// Replays a history; returns the outputs of the last event.
    async fn replay(&mut self, hist: &[Ev]) -> Out {
        self.reset().await;
        let mut last = Out::default();
        for ev in hist {
            last = self.apply(*ev).await;
        }
        last
    }

    /// Is the slot idle (destructive probe)?
    fn probe_idle(&mut self) -> bool {
        let before = self.actor.running_sync_connect.len();
        self.actor
            .sync_with_peer(self.ns, self.peer, SyncReason::NewNeighbor);
        self.actor.running_sync_connect.len() == before + 1
    }
}

async fn explore(cfg: Cfg) -> Vec<(String, Vec<Ev>)> {
    let mut real = Real::new(cfg.me_greater).await;
    let mut seen: HashSet<St> = HashSet::new();
    let mut queue: VecDeque<(St, Vec<Ev>)> = VecDeque::new();
    let mut violations: Vec<(String, Vec<Ev>)> = vec![];
    let mut classes: HashSet<String> = HashSet::new();
    let init = St::init();
    seen.insert(init.clone());
    queue.push_back((init, vec![]));
    let mut transitions = 0usize;
    while let Some((st, hist)) = queue.pop_front() {
        if hist.len() >= cfg.depth {
            continue;
        }
        for ev in st.enabled(cfg) {
            let (next, out, viol) = st.step(ev, cfg);
            transitions += 1;
            let mut h = hist.clone();
            h.push(ev);
            // cross-check the mirror against the real actor
            let real_out = real.replay(&h).await;
            assert_eq!(
                real_out.spawned.len(),
                out.spawned.len(),
                "mirror mismatch (spawned) on {h:?}"
            );
            assert_eq!(real_out.outcome, out.outcome, "mirror mismatch (outcome) on {h:?}");
            if next.syncing {
                let idle = real.probe_idle();
                assert_eq!(idle, next.slot == Slot::Idle, "mirror mismatch (slot) on {h:?}");
            }
            if !viol.is_empty() {
                for v in viol {
                    let class = v.split(':').next().unwrap().to_string();
                    if classes.insert(class) {
                        violations.push((v, h.clone()));
                    }
                }
                if std::env::var("C11_CONTINUE").is_err() {
                    continue;
                }
            }
            if seen.insert(next.clone()) {
                queue.push_back((next, h));
            }
        }
    }
    eprintln!(
        "explored me_greater={} with_leave={} depth={}: {} states, {} transitions, {} violation classes",
        cfg.me_greater,
        cfg.with_leave,
        cfg.depth,
        seen.len(),
        transitions,
        violations.len()
    );
    violations
}

#[tokio::test(flavor = "multi_thread", worker_threads = 2)]
async fn c11_explore() {
    let depth: usize = std::env::var("C11_DEPTH")
        .ok()
        .and_then(|s| s.parse().ok())
        .unwrap_or(5);
    let mut all = vec![];
    for with_leave in [false, true] {
        for me_greater in [false, true] {
            let v = explore(Cfg {
                me_greater,
                with_leave,
                depth,
            })
            .await;
            for (class, hist) in v {
                eprintln!("VIOLATION me_greater={me_greater} with_leave={with_leave}: {class}\n    {hist:?}");
                all.push(class);
            }
        }
    }
    assert!(all.is_empty(), "{} violation classes", all.len());
}

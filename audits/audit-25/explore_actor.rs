//! Exhaustive small-scope explorer of the store actor (`SyncHandle`) against a reference model
//! of handle counts, the sync switch, subscriber lists and the events every live subscriber
//! must have received.
#![allow(dead_code, clippy::type_complexity)]

use std::{
    cmp::Ordering,
    collections::{BTreeMap, HashMap, HashSet},
    sync::{
        atomic::{AtomicUsize, Ordering as AtomicOrdering},
        Arc, Mutex,
    },
    time::{Instant, SystemTime, UNIX_EPOCH},
};

use bytes::Bytes;
use iroh_blobs::Hash;
use iroh_docs::{
    actor::{OpenOpts, OpenState, SyncHandle},
    store::{DownloadPolicy, FilterKind, Query, Store},
    Author, CapabilityKind, ContentStatus, Entry, Event, NamespaceId, NamespaceSecret,
    ProtocolMessage, Record, RecordIdentifier, SignedEntry, SyncOutcome,
};
use rand::SeedableRng;
use serde::{Deserialize, Serialize};

// ---------------------------------------------------------------------------------------------
// mirror of the reconciliation message (the fields of the real one are private)
// ---------------------------------------------------------------------------------------------

#[derive(Serialize, Deserialize, Debug, Clone)]
struct MRange {
    x: RecordIdentifier,
    y: RecordIdentifier,
}
#[derive(Serialize, Deserialize, Debug, Clone)]
struct MRangeFp {
    range: MRange,
    fingerprint: [u8; 32],
}
#[derive(Serialize, Deserialize, Debug, Clone)]
struct MRangeItem {
    range: MRange,
    values: Vec<(SignedEntry, ContentStatus)>,
    have_local: bool,
}
#[derive(Serialize, Deserialize, Debug, Clone)]
enum MPart {
    RangeFingerprint(MRangeFp),
    RangeItem(MRangeItem),
}
#[derive(Serialize, Deserialize, Debug, Clone)]
struct MMessage {
    parts: Vec<MPart>,
}
fn to_real(m: &MMessage) -> ProtocolMessage {
    postcard::from_bytes(&postcard::to_stdvec(m).unwrap()).unwrap()
}
fn from_real(m: &ProtocolMessage) -> MMessage {
    postcard::from_bytes(&postcard::to_stdvec(m).unwrap()).unwrap()
}
fn all_range() -> MRange {
    MRange {
        x: RecordIdentifier::default(),
        y: RecordIdentifier::default(),
    }
}

// ---------------------------------------------------------------------------------------------
// fixtures
// ---------------------------------------------------------------------------------------------

fn now_micros() -> u64 {
    SystemTime::now()
        .duration_since(UNIX_EPOCH)
        .unwrap()
        .as_micros() as u64
}
const MIN: u64 = 60_000_000;
const PEER: [u8; 32] = [7u8; 32];
fn keys() -> [&'static [u8]; 2] {
    match std::env::var("EXPLORE_KEYSET").ok().as_deref() {
        Some("1") => [b"", b"\xff"],
        Some("2") => [b"\xff", b"\xff\xff"],
        Some("3") => [b"\xff", b"\xff\x00"],
        _ => [b"a", b"ab"],
    }
}
const NREMOTE: usize = 10;
const NMSG: usize = 7;

#[derive(Debug, Clone)]
struct RemoteFix {
    entry: SignedEntry,
    valid: bool,
    status: ContentStatus,
}

struct Fix {
    created: Instant,
    ns: [NamespaceSecret; 2],
    authors: [Author; 2],
    remote: [Vec<RemoteFix>; 2],
    msgs: [Vec<MMessage>; 2],
}

fn author_idx(fix: &Fix, e: &SignedEntry) -> u8 {
    if e.author() == fix.authors[0].id() {
        0
    } else {
        1
    }
}

fn make_fix() -> Fix {
    let mut rng = rand::rngs::ChaCha12Rng::seed_from_u64(42);
    let ns = [
        NamespaceSecret::new(&mut rng),
        NamespaceSecret::new(&mut rng),
    ];
    let authors = [Author::new(&mut rng), Author::new(&mut rng)];
    let other = NamespaceSecret::new(&mut rng);
    let base = now_micros();
    let mk = |d: usize, a: usize, key: &[u8], hash: Hash, len: u64, ts: u64, signer: &NamespaceSecret| {
        let id = RecordIdentifier::new(ns[d].id(), authors[a].id(), key);
        let entry = Entry::new(id, Record::new(hash, len, ts));
        SignedEntry::from_entry(entry, signer, &authors[a])
    };
    let mut remote: [Vec<RemoteFix>; 2] = [vec![], vec![]];
    for d in 0..2 {
        let n = &ns[d];
        let v = |entry, valid, status| RemoteFix {
            entry,
            valid,
            status,
        };
        remote[d] = vec![
            // r0: ancient entry of the foreign author
            v(mk(d, 1, keys()[0], Hash::new(b"old"), 3, 1000, n), true, ContentStatus::Complete),
            // r1: near-future entry of the local author at "ab"
            v(mk(d, 0, keys()[1], Hash::new(b"fut"), 3, base + 5 * MIN, n), true, ContentStatus::Missing),
            // r2: near-future deletion marker of the local author at "a"
            v(mk(d, 0, keys()[0], Hash::EMPTY, 0, base + 5 * MIN + 1, n), true, ContentStatus::Incomplete),
            // r3: bad namespace signature
            v(mk(d, 1, b"b", Hash::new(b"bad"), 3, 3000, &other), false, ContentStatus::Complete),
            // r4: too far in the future
            v(mk(d, 1, keys()[0], Hash::new(b"far"), 3, base + 60 * MIN, n), false, ContentStatus::Complete),
            // r5: ancient entry of the local author at "ab"
            v(mk(d, 0, keys()[1], Hash::new(b"old2"), 4, 2000, n), true, ContentStatus::Complete),
            // r6: placeholder, replaced below by an entry of the other namespace
            v(mk(d, 1, keys()[0], Hash::new(b"old"), 3, 1000, n), false, ContentStatus::Complete),
            // r7: empty hash with a non-zero length
            v(mk(d, 1, keys()[0], Hash::EMPTY, 5, 4000, n), false, ContentStatus::Complete),
            // r8: deletion marker at "a" with the timestamp of r1
            v(mk(d, 0, keys()[0], Hash::EMPTY, 0, base + 5 * MIN, n), true, ContentStatus::Complete),
            // r9: another entry at "ab" with the timestamp of r1
            v(mk(d, 0, keys()[1], Hash::new(b"fut2"), 4, base + 5 * MIN, n), true, ContentStatus::Complete),
        ];
    }
    let r0_of_0 = remote[0][0].clone();
    let r0_of_1 = remote[1][0].clone();
    remote[0][6] = RemoteFix {
        valid: false,
        ..r0_of_1
    };
    remote[1][6] = RemoteFix {
        valid: false,
        ..r0_of_0
    };
    let mut msgs: [Vec<MMessage>; 2] = [vec![], vec![]];
    for d in 0..2 {
        let r = |i: usize| (remote[d][i].entry.clone(), remote[d][i].status);
        msgs[d] = vec![
            // m0: "I have nothing" for the whole range
            MMessage {
                parts: vec![MPart::RangeFingerprint(MRangeFp {
                    range: all_range(),
                    fingerprint: *Hash::EMPTY.as_bytes(),
                })],
            },
            // m1: items, answers not wanted
            MMessage {
                parts: vec![MPart::RangeItem(MRangeItem {
                    range: all_range(),
                    values: vec![r(0), r(3), r(0), r(1), r(4), r(7), r(6)],
                    have_local: true,
                })],
            },
            // m2: items, answer wanted
            MMessage {
                parts: vec![MPart::RangeItem(MRangeItem {
                    range: all_range(),
                    values: vec![r(2), r(1), r(5)],
                    have_local: false,
                })],
            },
            // m3: equal timestamps, answer wanted
            MMessage {
                parts: vec![MPart::RangeItem(MRangeItem {
                    range: all_range(),
                    values: vec![r(9), r(1), r(8), r(9)],
                    have_local: false,
                })],
            },
            // m4: two item parts, the second prunes what the first brought, then a fingerprint
            MMessage {
                parts: vec![
                    MPart::RangeItem(MRangeItem {
                        range: all_range(),
                        values: vec![r(1), r(0)],
                        have_local: true,
                    }),
                    MPart::RangeItem(MRangeItem {
                        range: all_range(),
                        values: vec![r(2), r(1)],
                        have_local: false,
                    }),
                    MPart::RangeFingerprint(MRangeFp {
                        range: all_range(),
                        fingerprint: *Hash::EMPTY.as_bytes(),
                    }),
                ],
            },
            // m5: fingerprint first, then items
            MMessage {
                parts: vec![
                    MPart::RangeFingerprint(MRangeFp {
                        range: all_range(),
                        fingerprint: *Hash::EMPTY.as_bytes(),
                    }),
                    MPart::RangeItem(MRangeItem {
                        range: all_range(),
                        values: vec![r(5), r(0)],
                        have_local: false,
                    }),
                ],
            },
            // m6: the same key at the same timestamp in two parts
            MMessage {
                parts: vec![
                    MPart::RangeItem(MRangeItem {
                        range: all_range(),
                        values: vec![r(9)],
                        have_local: false,
                    }),
                    MPart::RangeItem(MRangeItem {
                        range: all_range(),
                        values: vec![r(1), r(9)],
                        have_local: false,
                    }),
                ],
            },
        ];
    }
    Fix {
        created: Instant::now(),
        ns,
        authors,
        remote,
        msgs,
    }
}

// ---------------------------------------------------------------------------------------------
// operations
// ---------------------------------------------------------------------------------------------

#[derive(Clone, Copy, Debug, PartialEq, Eq, Hash, PartialOrd, Ord)]
enum Op {
    Import(usize, bool),
    Open(usize, bool, Option<usize>),
    Close(usize),
    Subscribe(usize, usize),
    Unsubscribe(usize, usize),
    DropRx(usize),
    SetSync(usize, bool),
    GetState(usize),
    InsertLocal(usize, usize),
    InsertLocalEmpty(usize),
    DeletePrefix(usize, usize),
    InsertRemote(usize, usize),
    SyncInit(usize),
    SyncMsg(usize, usize),
    SetPolicy(usize, usize),
    DropReplica(usize),
    /// get_exact on (local author, key)
    GetExact(usize, usize),
    GetMany(usize),
}

// ---------------------------------------------------------------------------------------------
// model
// ---------------------------------------------------------------------------------------------

#[derive(Clone, Debug)]
enum MEntry {
    Fixed(usize, SignedEntry),
    Local {
        id: usize,
        author: u8,
        key: Vec<u8>,
        hash: Hash,
        len: u64,
        t0: u64,
        t1: u64,
    },
}

fn cmp_entries(a: &MEntry, b: &MEntry) -> Ordering {
    match (a, b) {
        (MEntry::Fixed(_, x), MEntry::Fixed(_, y)) => x
            .timestamp()
            .cmp(&y.timestamp())
            .then_with(|| x.content_hash().cmp(&y.content_hash())),
        (MEntry::Local { id: x, .. }, MEntry::Local { id: y, .. }) => x.cmp(y),
        (MEntry::Fixed(_, x), MEntry::Local { .. }) => {
            if x.timestamp() < 1_000_000 {
                Ordering::Less
            } else {
                Ordering::Greater
            }
        }
        (MEntry::Local { .. }, MEntry::Fixed(..)) => cmp_entries(b, a).reverse(),
    }
}

#[derive(Clone, Debug)]
enum Origin {
    Local,
    Remote {
        should_download: bool,
        status: ContentStatus,
    },
}

#[derive(Clone, Debug)]
struct ExpEvent {
    doc: usize,
    entry: MEntry,
    origin: Origin,
}

#[derive(Clone, Debug, Default)]
struct DocM {
    cap: Option<bool>,
    handles: usize,
    sync: bool,
    subs: Vec<usize>,
    entries: BTreeMap<(u8, Vec<u8>), MEntry>,
    policy: usize,
}

#[derive(Clone, Debug, Default)]
struct ChanM {
    alive: bool,
    expected: Vec<ExpEvent>,
}

#[derive(Clone, Debug, Default)]
struct Model {
    docs: [DocM; 2],
    holder_chan: [Option<usize>; 2],
    chans: Vec<ChanM>,
    next_local: usize,
}

fn policy_of(p: usize) -> DownloadPolicy {
    match p {
        0 => DownloadPolicy::default(),
        _ => DownloadPolicy::NothingExcept(vec![FilterKind::Prefix(Bytes::from_static(keys()[1]))]),
    }
}
fn policy_says(p: usize, key: &[u8]) -> bool {
    match p {
        0 => true,
        _ => key.starts_with(keys()[1]),
    }
}

impl Model {
    fn put(&mut self, fix: &Fix, d: usize, new: MEntry) -> Option<usize> {
        let (au, key) = match &new {
            MEntry::Fixed(_, e) => (author_idx(fix, e), e.key().to_vec()),
            MEntry::Local { author, key, .. } => (*author, key.clone()),
        };
        let doc = &mut self.docs[d];
        for ((a2, k2), e) in doc.entries.iter() {
            if *a2 == au && key.starts_with(k2) && cmp_entries(&new, e) != Ordering::Greater {
                return None;
            }
        }
        let rm: Vec<_> = doc
            .entries
            .iter()
            .filter(|((a2, k2), e)| {
                *a2 == au && k2.starts_with(&key) && cmp_entries(&new, e) != Ordering::Less
            })
            .map(|(k, _)| k.clone())
            .collect();
        for k in &rm {
            doc.entries.remove(k);
        }
        doc.entries.insert((au, key), new);
        Some(rm.len())
    }

    fn emit(&mut self, d: usize, entry: MEntry, origin: Origin) {
        let subs = std::mem::take(&mut self.docs[d].subs);
        let mut keep = vec![];
        for c in subs {
            if self.chans[c].alive {
                self.chans[c].expected.push(ExpEvent {
                    doc: d,
                    entry: entry.clone(),
                    origin: origin.clone(),
                });
                keep.push(c);
            }
        }
        self.docs[d].subs = keep;
    }

    /// Apply a remote fixture entry; returns whether it was applied.
    fn remote(&mut self, fix: &Fix, d: usize, r: usize) -> bool {
        let f = &fix.remote[d][r];
        if !f.valid {
            return false;
        }
        let e = MEntry::Fixed(r, f.entry.clone());
        if self.put(fix, d, e.clone()).is_none() {
            return false;
        }
        let should_download = policy_says(self.docs[d].policy, f.entry.key());
        self.emit(
            d,
            e,
            Origin::Remote {
                should_download,
                status: f.status,
            },
        );
        true
    }

    fn close_fully(&mut self, d: usize) {
        let doc = &mut self.docs[d];
        doc.handles = 0;
        doc.subs.clear();
        doc.sync = false;
    }

    /// State with wall-clock values and channel identities abstracted away.
    fn abstract_key(&self) -> String {
        let mut ids: HashMap<usize, usize> = HashMap::new();
        let mut norm = |c: usize, ids: &mut HashMap<usize, usize>| {
            let n = ids.len();
            *ids.entry(c).or_insert(n)
        };
        let mut s = String::new();
        for d in &self.docs {
            s += &format!("[{:?} h{} s{} p{} subs:", d.cap, d.handles, d.sync as u8, d.policy);
            for c in &d.subs {
                let n = norm(*c, &mut ids);
                s += &format!("{}{} ", n, if self.chans[*c].alive { "+" } else { "-" });
            }
            s += " ents:";
            for ((a, k), e) in &d.entries {
                let cls = match e {
                    MEntry::Fixed(r, _) => format!("F{r}"),
                    MEntry::Local { len, .. } => format!("L{}", (*len == 0) as u8),
                };
                s += &format!("{a}/{}={cls} ", String::from_utf8_lossy(k));
            }
            s += "]";
        }
        for h in &self.holder_chan {
            match h {
                None => s += "h- ",
                Some(c) => {
                    // a holder channel no document refers to is like a fresh one
                    let referenced = self.docs.iter().any(|d| d.subs.contains(c));
                    if referenced {
                        let n = norm(*c, &mut ids);
                        s += &format!("h{n} ");
                    } else {
                        s += "hu ";
                    }
                }
            }
        }
        s
    }
}

// ---------------------------------------------------------------------------------------------
// the world: real system + model, stepped together
// ---------------------------------------------------------------------------------------------

struct Chan {
    tx: Option<async_channel::Sender<Event>>,
    rx: Option<async_channel::Receiver<Event>>,
}

struct World {
    fix: Arc<Fix>,
    sync: SyncHandle,
    chans: Vec<Chan>,
    model: Model,
    bound: HashMap<usize, SignedEntry>,
    last_local: u64,
    path: Option<std::path::PathBuf>,
}

static DB_COUNTER: AtomicUsize = AtomicUsize::new(0);
fn persistent() -> bool {
    std::env::var("EXPLORE_PERSISTENT").is_ok()
}

fn ok_err<T>(r: &anyhow::Result<T>) -> &'static str {
    if r.is_ok() {
        "Ok"
    } else {
        "Err"
    }
}

macro_rules! expect {
    ($cond:expr, $($arg:tt)*) => {
        if !$cond {
            return Err(format!($($arg)*));
        }
    };
}

impl World {
    async fn new(fix: Arc<Fix>) -> Self {
        let (store, path) = if persistent() {
            let dir = std::path::Path::new(env!("CARGO_MANIFEST_DIR")).join("scratch");
            std::fs::create_dir_all(&dir).unwrap();
            let n = DB_COUNTER.fetch_add(1, AtomicOrdering::SeqCst);
            let path = dir.join(format!("db-{}-{n}.redb", std::process::id()));
            let _ = std::fs::remove_file(&path);
            (Store::persistent(&path).unwrap(), Some(path))
        } else {
            (Store::memory(), None)
        };
        let sync = SyncHandle::spawn(store, None, "explore".into());
        sync.import_author(fix.authors[0].clone()).await.unwrap();
        World {
            path,
            fix,
            sync,
            chans: vec![],
            model: Model::default(),
            bound: HashMap::new(),
            last_local: 0,
        }
    }

    fn ns(&self, d: usize) -> NamespaceId {
        self.fix.ns[d].id()
    }

    fn ensure_chan(&mut self, h: usize) -> usize {
        if let Some(c) = self.model.holder_chan[h] {
            return c;
        }
        let (tx, rx) = async_channel::bounded(256);
        self.chans.push(Chan {
            tx: Some(tx),
            rx: Some(rx),
        });
        self.model.chans.push(ChanM {
            alive: true,
            expected: vec![],
        });
        let c = self.chans.len() - 1;
        self.model.holder_chan[h] = Some(c);
        c
    }

    fn matches(&mut self, actual: &SignedEntry, exp: &MEntry) -> Result<(), String> {
        match exp {
            MEntry::Fixed(r, e) => {
                expect!(actual == e, "entry differs from remote fixture r{r}: {actual:?}");
            }
            MEntry::Local {
                id,
                author,
                key,
                hash,
                len,
                t0,
                t1,
            } => {
                let ok = actual.author() == self.fix.authors[*author as usize].id()
                    && actual.key() == &key[..]
                    && actual.content_hash() == *hash
                    && actual.content_len() == *len
                    && actual.timestamp() >= *t0
                    && actual.timestamp() <= *t1;
                expect!(ok, "entry does not match local write #{id} {exp:?}: {actual:?}");
                if let Some(prev) = self.bound.get(id) {
                    expect!(prev == actual, "two different entries seen for local write #{id}");
                } else {
                    self.bound.insert(*id, actual.clone());
                }
            }
        }
        Ok(())
    }

    fn match_set(&mut self, what: &str, actual: &[SignedEntry], exp: &[MEntry]) -> Result<(), String> {
        let fix = self.fix.clone();
        let keyf = |e: &SignedEntry| (e.namespace(), author_idx(&fix, e), e.key().to_vec());
        let mut seen = HashSet::new();
        for a in actual {
            expect!(seen.insert(keyf(a)), "{what}: duplicate entry {a:?}");
        }
        expect!(
            actual.len() == exp.len(),
            "{what}: {} entries, model has {}: actual {:?} model {:?}",
            actual.len(),
            exp.len(),
            actual,
            exp
        );
        for e in exp {
            let (au, key) = match e {
                MEntry::Fixed(_, e) => (author_idx(&fix, e), e.key().to_vec()),
                MEntry::Local { author, key, .. } => (*author, key.clone()),
            };
            let found = actual
                .iter()
                .find(|a| author_idx(&fix, a) == au && a.key() == &key[..]);
            match found {
                None => return Err(format!("{what}: missing entry {e:?}; actual {actual:?}")),
                Some(a) => self.matches(a, e).map_err(|m| format!("{what}: {m}"))?,
            }
        }
        Ok(())
    }

    async fn get_many(&self, d: usize) -> Result<Vec<SignedEntry>, String> {
        let (tx, mut rx) = irpc::channel::mpsc::channel(64);
        self.sync
            .get_many(self.ns(d), Query::all().include_empty().into(), tx)
            .await
            .map_err(|e| format!("send failed {e}"))?;
        let mut out = vec![];
        loop {
            match rx.recv().await {
                Ok(Some(Ok(e))) => out.push(e),
                Ok(Some(Err(e))) => return Err(format!("{e}")),
                Ok(None) => break,
                Err(e) => return Err(format!("recv error {e}")),
            }
        }
        Ok(out)
    }

    fn wait_clock(&mut self) -> u64 {
        loop {
            let now = now_micros();
            if now > self.last_local + 1 {
                return now;
            }
            std::hint::spin_loop();
        }
    }

    /// Executes `op` on the real system and on the model; Err describes a deviation.
    async fn step(&mut self, op: Op) -> Result<(), String> {
        let fix = self.fix.clone();
        match op {
            Op::Import(d, write) => {
                let cap = if write {
                    iroh_docs::Capability::Write(fix.ns[d].clone())
                } else {
                    iroh_docs::Capability::Read(fix.ns[d].id())
                };
                let res = self.sync.import_namespace(cap).await;
                expect!(res.is_ok(), "import failed: {res:?}");
                let doc = &mut self.model.docs[d];
                doc.cap = match (doc.cap, write) {
                    (None, w) => Some(w),
                    (Some(false), true) => Some(true),
                    (c, _) => c,
                };
            }
            Op::Open(d, sync, sub) => {
                let mut opts = OpenOpts::default();
                if sync {
                    opts = opts.sync();
                }
                let chan = sub.map(|h| self.ensure_chan(h));
                if let Some(c) = chan {
                    opts = opts.subscribe(self.chans[c].tx.clone().unwrap());
                }
                let res = self.sync.open(self.ns(d), opts).await;
                let doc = &mut self.model.docs[d];
                let exp_ok = doc.cap.is_some();
                expect!(res.is_ok() == exp_ok, "open: {} but model says ok={exp_ok}: {res:?}", ok_err(&res));
                if exp_ok {
                    doc.handles += 1;
                    doc.sync |= sync;
                    if let Some(c) = chan {
                        doc.subs.push(c);
                    }
                }
            }
            Op::Close(d) => {
                let res = self.sync.close(self.ns(d)).await;
                let doc = &mut self.model.docs[d];
                let exp = if doc.handles == 0 {
                    true
                } else {
                    doc.handles -= 1;
                    doc.handles == 0
                };
                if exp {
                    self.model.close_fully(d);
                }
                match res {
                    Ok(b) => expect!(b == exp, "close returned {b}, model says {exp}"),
                    Err(e) => return Err(format!("close failed {e}")),
                }
            }
            Op::Subscribe(d, h) => {
                let c = self.ensure_chan(h);
                let res = self
                    .sync
                    .subscribe(self.ns(d), self.chans[c].tx.clone().unwrap())
                    .await;
                let doc = &mut self.model.docs[d];
                let exp_ok = doc.handles > 0;
                expect!(res.is_ok() == exp_ok, "subscribe: {} but model says ok={exp_ok}", ok_err(&res));
                if exp_ok {
                    doc.subs.push(c);
                }
            }
            Op::Unsubscribe(d, h) => {
                let c = self.ensure_chan(h);
                let res = self
                    .sync
                    .unsubscribe(self.ns(d), self.chans[c].tx.clone().unwrap())
                    .await;
                let doc = &mut self.model.docs[d];
                let exp_ok = doc.handles > 0;
                expect!(res.is_ok() == exp_ok, "unsubscribe: {} but model says ok={exp_ok}", ok_err(&res));
                if exp_ok {
                    doc.subs.retain(|x| *x != c);
                }
            }
            Op::DropRx(h) => {
                if let Some(c) = self.model.holder_chan[h].take() {
                    self.model.chans[c].alive = false;
                    // what was delivered so far must still be right
                    self.drain_chan(c)?;
                    self.chans[c].rx = None;
                    self.chans[c].tx = None;
                }
            }
            Op::SetSync(d, b) => {
                let res = self.sync.set_sync(self.ns(d), b).await;
                let doc = &mut self.model.docs[d];
                let exp_ok = doc.handles > 0;
                expect!(res.is_ok() == exp_ok, "set_sync: {} but model says ok={exp_ok}", ok_err(&res));
                if exp_ok {
                    doc.sync = b;
                }
            }
            Op::GetState(d) => {
                self.check_state(d).await?;
            }
            Op::InsertLocal(d, k) | Op::DeletePrefix(d, k) => {
                let is_del = matches!(op, Op::DeletePrefix(..));
                let key = keys()[k].to_vec();
                let (hash, len) = if is_del {
                    (Hash::EMPTY, 0)
                } else {
                    (Hash::new([b"local-", keys()[k]].concat()), keys()[k].len() as u64 + 6)
                };
                let t0 = self.wait_clock();
                let res: anyhow::Result<usize> = if is_del {
                    self.sync
                        .delete_prefix(self.ns(d), fix.authors[0].id(), Bytes::from(key.clone()))
                        .await
                } else {
                    self.sync
                        .insert_local(self.ns(d), fix.authors[0].id(), Bytes::from(key.clone()), hash, len)
                        .await
                        .map(|_| 0)
                };
                let t1 = now_micros();
                self.last_local = t1;
                let doc = &self.model.docs[d];
                let mut exp: Option<usize> = None;
                if doc.handles > 0 && doc.cap == Some(true) {
                    let id = self.model.next_local;
                    let e = MEntry::Local {
                        id,
                        author: 0,
                        key,
                        hash,
                        len,
                        t0,
                        t1,
                    };
                    if let Some(removed) = self.model.put(&fix, d, e.clone()) {
                        self.model.next_local += 1;
                        self.model.emit(d, e, Origin::Local);
                        exp = Some(removed);
                    }
                }
                expect!(
                    res.is_ok() == exp.is_some(),
                    "{op:?}: {} but model says {exp:?}: {res:?}",
                    ok_err(&res)
                );
                if is_del {
                    if let (Ok(n), Some(m)) = (&res, exp) {
                        expect!(*n == m, "delete_prefix returned {n}, model removed {m}");
                    }
                }
            }
            Op::InsertLocalEmpty(d) => {
                let res = self
                    .sync
                    .insert_local(self.ns(d), fix.authors[0].id(), Bytes::from_static(keys()[0]), Hash::EMPTY, 0)
                    .await;
                expect!(res.is_err(), "insert of an empty entry succeeded");
            }
            Op::InsertRemote(d, r) => {
                let f = &fix.remote[d][r];
                let res = self
                    .sync
                    .insert_remote(self.ns(d), f.entry.clone(), PEER, f.status)
                    .await;
                let doc = &self.model.docs[d];
                let exp_ok = doc.handles > 0 && doc.sync && self.model.remote(&fix, d, r);
                expect!(
                    res.is_ok() == exp_ok,
                    "insert_remote r{r}: {} but model says ok={exp_ok}: {res:?}",
                    ok_err(&res)
                );
            }
            Op::SyncInit(d) => {
                let res = self.sync.sync_initial_message(self.ns(d)).await;
                let doc = &self.model.docs[d];
                let exp_ok = doc.handles > 0 && doc.sync;
                expect!(res.is_ok() == exp_ok, "sync_initial_message: {} but model says ok={exp_ok}", ok_err(&res));
                if let Ok(m) = res {
                    let m = from_real(&m);
                    expect!(m.parts.len() == 1, "initial message with {} parts", m.parts.len());
                    match &m.parts[0] {
                        MPart::RangeFingerprint(fp) => {
                            let empty = fp.fingerprint == *Hash::EMPTY.as_bytes();
                            expect!(
                                empty == doc.entries.is_empty(),
                                "initial fingerprint empty={empty} but model has {} entries",
                                doc.entries.len()
                            );
                        }
                        other => return Err(format!("initial message part {other:?}")),
                    }
                }
            }
            Op::SyncMsg(d, m) => {
                let msg = &fix.msgs[d][m];
                let res = self
                    .sync
                    .sync_process_message(self.ns(d), to_real(msg), PEER, SyncOutcome::default())
                    .await;
                let doc = &self.model.docs[d];
                let exp_ok = doc.handles > 0 && doc.sync;
                expect!(res.is_ok() == exp_ok, "sync_process_message: {} but model says ok={exp_ok}: {:?}", ok_err(&res), res.as_ref().err());
                if exp_ok {
                    // item parts are handled one after the other: the answer to a part is
                    // computed on the state before its values are stored
                    let mut exp_reply: Vec<(bool, Vec<MEntry>)> = vec![];
                    for part in &msg.parts {
                        if let MPart::RangeItem(item) = part {
                            if !item.have_local {
                                let pre: Vec<MEntry> =
                                    self.model.docs[d].entries.values().cloned().collect();
                                let diff: Vec<MEntry> = pre
                                    .iter()
                                    .filter(|ours| {
                                        !item.values.iter().any(|(theirs, _)| {
                                            let t = MEntry::Fixed(usize::MAX, theirs.clone());
                                            same_id(&fix, ours, theirs)
                                                && cmp_entries(&t, ours) != Ordering::Less
                                        })
                                    })
                                    .cloned()
                                    .collect();
                                if !diff.is_empty() {
                                    exp_reply.push((true, diff));
                                }
                            }
                            for (e, _) in &item.values {
                                let r = fix.remote[d]
                                    .iter()
                                    .position(|f| &f.entry == e)
                                    .expect("message values are fixtures");
                                self.model.remote(&fix, d, r);
                            }
                        }
                    }
                    // fingerprint parts are answered on the state after the items
                    let post: Vec<MEntry> = self.model.docs[d].entries.values().cloned().collect();
                    for part in &msg.parts {
                        if let MPart::RangeFingerprint(_) = part {
                            if !post.is_empty() {
                                exp_reply.push((false, post.clone()));
                            }
                        }
                    }
                    let (reply, outcome) = res.unwrap();
                    let values: usize = msg
                        .parts
                        .iter()
                        .map(|p| match p {
                            MPart::RangeItem(i) => i.values.len(),
                            _ => 0,
                        })
                        .sum();
                    expect!(outcome.num_recv == values, "num_recv {} for {values} values", outcome.num_recv);
                    match reply {
                        None => expect!(exp_reply.is_empty(), "no reply, model expects {exp_reply:?}"),
                        Some(reply) => {
                            let reply = from_real(&reply);
                            expect!(
                                reply.parts.len() == exp_reply.len(),
                                "reply has {} parts, model {}: {reply:?}",
                                reply.parts.len(),
                                exp_reply.len()
                            );
                            for (part, (have_local, exp)) in reply.parts.iter().zip(exp_reply.iter()) {
                                match part {
                                    MPart::RangeItem(item) => {
                                        expect!(item.have_local == *have_local, "reply have_local {}", item.have_local);
                                        let actual: Vec<_> =
                                            item.values.iter().map(|(e, _)| e.clone()).collect();
                                        self.match_set("sync reply", &actual, exp)?;
                                    }
                                    other => return Err(format!("unexpected reply part {other:?}")),
                                }
                            }
                        }
                    }
                }
            }
            Op::SetPolicy(d, p) => {
                let res = self.sync.set_download_policy(self.ns(d), policy_of(p)).await;
                let doc = &mut self.model.docs[d];
                let exp_ok = doc.cap.is_some();
                expect!(res.is_ok() == exp_ok, "set_download_policy: {} but model says ok={exp_ok}", ok_err(&res));
                if exp_ok {
                    doc.policy = p;
                }
            }
            Op::DropReplica(d) => {
                let res = self.sync.drop_replica(self.ns(d)).await;
                let doc = &mut self.model.docs[d];
                let exp_ok = doc.handles <= 1;
                expect!(res.is_ok() == exp_ok, "drop_replica: {} but model says ok={exp_ok}: {res:?}", ok_err(&res));
                if exp_ok {
                    self.model.close_fully(d);
                    let doc = &mut self.model.docs[d];
                    doc.cap = None;
                    doc.entries.clear();
                    doc.policy = 0;
                }
            }
            Op::GetExact(d, k) => {
                self.check_exact(d, 0, k).await?;
            }
            Op::GetMany(d) => {
                self.check_many(d).await?;
            }
        }
        Ok(())
    }

    async fn check_state(&mut self, d: usize) -> Result<(), String> {
        let res = self.sync.get_state(self.ns(d)).await;
        let doc = &self.model.docs[d];
        if doc.handles == 0 {
            expect!(res.is_err(), "doc{d}: get_state succeeded on a closed document: {res:?}");
        } else {
            let exp = OpenState {
                sync: doc.sync,
                subscribers: doc.subs.len(),
                handles: doc.handles,
            };
            match res {
                Ok(s) => expect!(s == exp, "doc{d}: state {s:?}, model {exp:?}"),
                Err(e) => return Err(format!("doc{d}: get_state failed on an open document: {e}")),
            }
        }
        Ok(())
    }

    async fn check_exact(&mut self, d: usize, a: usize, k: usize) -> Result<(), String> {
        let res = self
            .sync
            .get_exact(self.ns(d), self.fix.authors[a].id(), Bytes::from_static(keys()[k]), true)
            .await;
        let doc = &self.model.docs[d];
        if doc.handles == 0 {
            expect!(res.is_err(), "doc{d}: get_exact succeeded on a closed document");
            return Ok(());
        }
        let exp = doc.entries.get(&(a as u8, keys()[k].to_vec())).cloned();
        match (res, exp) {
            (Err(e), _) => Err(format!("doc{d}: get_exact failed on an open document: {e}")),
            (Ok(None), None) => Ok(()),
            (Ok(Some(x)), Some(e)) => self.matches(&x, &e).map_err(|m| format!("doc{d} get_exact: {m}")),
            (Ok(x), e) => Err(format!("doc{d}: get_exact({a},{k}) = {x:?}, model {e:?}")),
        }
    }

    async fn check_many(&mut self, d: usize) -> Result<(), String> {
        let res = self.get_many(d).await;
        let doc = &self.model.docs[d];
        if doc.handles == 0 {
            expect!(res.is_err(), "doc{d}: get_many succeeded on a closed document");
            return Ok(());
        }
        let exp: Vec<MEntry> = doc.entries.values().cloned().collect();
        match res {
            Err(e) => Err(format!("doc{d}: get_many failed on an open document: {e}")),
            Ok(actual) => self.match_set(&format!("doc{d} get_many"), &actual, &exp),
        }
    }

    fn drain_chan(&mut self, c: usize) -> Result<(), String> {
        let Some(rx) = self.chans[c].rx.clone() else {
            return Ok(());
        };
        let mut actual = vec![];
        while let Ok(ev) = rx.try_recv() {
            actual.push(ev);
        }
        let exp = std::mem::take(&mut self.model.chans[c].expected);
        expect!(
            actual.len() == exp.len(),
            "channel {c}: received {} events, model expects {}: actual {:?} model {:?}",
            actual.len(),
            exp.len(),
            actual,
            exp
        );
        for (i, (a, e)) in actual.iter().zip(exp.iter()).enumerate() {
            let ns = self.ns(e.doc);
            match (a, &e.origin) {
                (Event::LocalInsert { namespace, entry }, Origin::Local) => {
                    expect!(*namespace == ns, "channel {c} event {i}: wrong namespace");
                    self.matches(entry, &e.entry)
                        .map_err(|m| format!("channel {c} event {i}: {m}"))?;
                }
                (
                    Event::RemoteInsert {
                        namespace,
                        entry,
                        from,
                        should_download,
                        remote_content_status,
                    },
                    Origin::Remote {
                        should_download: sd,
                        status,
                    },
                ) => {
                    expect!(*namespace == ns, "channel {c} event {i}: wrong namespace");
                    expect!(*from == PEER, "channel {c} event {i}: wrong peer");
                    expect!(
                        should_download == sd,
                        "channel {c} event {i}: should_download {should_download}, policy says {sd}"
                    );
                    expect!(
                        remote_content_status == status,
                        "channel {c} event {i}: content status {remote_content_status:?}, sent {status:?}"
                    );
                    self.matches(entry, &e.entry)
                        .map_err(|m| format!("channel {c} event {i}: {m}"))?;
                }
                (a, _) => return Err(format!("channel {c} event {i}: {a:?} but model expects {e:?}")),
            }
        }
        Ok(())
    }

    /// Full observation of the real system against the model.
    async fn probe(&mut self) -> Result<(), String> {
        for d in 0..2 {
            self.check_state(d).await?;
            self.check_many(d).await?;
            for k in 0..keys().len() {
                self.check_exact(d, 0, k).await?;
            }
            self.check_exact(d, 1, 0).await?;
        }
        {
            let (tx, mut rx) = irpc::channel::mpsc::channel(64);
            self.sync.list_replicas(tx).await.map_err(|e| format!("{e}"))?;
            let mut listed = vec![];
            while let Ok(Some(item)) = rx.recv().await {
                let item = item.map_err(|e| format!("list_replicas: {e}"))?;
                listed.push((item.id, matches!(item.capability, CapabilityKind::Write)));
            }
            listed.sort();
            let mut exp: Vec<(NamespaceId, bool)> = (0..2)
                .filter_map(|d| self.model.docs[d].cap.map(|w| (self.fix.ns[d].id(), w)))
                .collect();
            exp.sort();
            expect!(listed == exp, "list_replicas {listed:?}, model {exp:?}");
        }
        for d in 0..2 {
            let res = self.sync.export_secret_key(self.ns(d)).await;
            let doc = &self.model.docs[d];
            let exp_ok = doc.handles > 0 && doc.cap == Some(true);
            expect!(res.is_ok() == exp_ok, "doc{d}: export_secret_key {} but model says ok={exp_ok}", ok_err(&res));
        }
        for c in 0..self.chans.len() {
            self.drain_chan(c)?;
            // senders alive = ours + one per subscription the actor holds
            if let Some(rx) = &self.chans[c].rx {
                let held: usize = self
                    .model
                    .docs
                    .iter()
                    .map(|d| d.subs.iter().filter(|x| **x == c).count())
                    .sum();
                let actual = rx.sender_count().saturating_sub(1);
                expect!(
                    actual == held,
                    "channel {c}: actor holds {actual} senders, model has {held} subscriptions"
                );
            }
        }
        Ok(())
    }

    /// Shut down and check that the store that comes back has every acknowledged write.
    async fn finish(mut self) -> Result<(), String> {
        let mut store = self
            .sync
            .shutdown()
            .await
            .map_err(|e| format!("shutdown failed: {e}"))?;
        self.check_store(&mut store, "after shutdown")?;
        drop(store);
        if let Some(path) = self.path.clone() {
            let mut store = Store::persistent(&path).map_err(|e| format!("reopen failed: {e}"))?;
            self.check_store(&mut store, "after reopen")?;
            drop(store);
            let _ = std::fs::remove_file(&path);
        }
        Ok(())
    }

    fn check_store(&mut self, store: &mut Store, when: &str) -> Result<(), String> {
        let mut listed: Vec<(NamespaceId, bool)> = store
            .list_namespaces()
            .map_err(|e| format!("{e}"))?
            .map(|r| r.map(|(id, kind)| (id, matches!(kind, CapabilityKind::Write))).unwrap())
            .collect();
        listed.sort();
        let mut exp: Vec<(NamespaceId, bool)> = (0..2)
            .filter_map(|d| self.model.docs[d].cap.map(|w| (self.fix.ns[d].id(), w)))
            .collect();
        exp.sort();
        expect!(listed == exp, "{when}: namespaces {listed:?}, model {exp:?}");
        for d in 0..2 {
            let actual: Vec<SignedEntry> = store
                .get_many(self.ns(d), Query::all().include_empty())
                .map_err(|e| format!("{e}"))?
                .map(|r| r.unwrap())
                .collect();
            let exp: Vec<MEntry> = self.model.docs[d].entries.values().cloned().collect();
            self.match_set(&format!("doc{d} in the store {when}"), &actual, &exp)?;
            // the same through the key index, and the latest entry per key
            let by_key: Vec<SignedEntry> = store
                .get_many(
                    self.ns(d),
                    Query::all()
                        .include_empty()
                        .sort_by(iroh_docs::store::SortBy::KeyAuthor, iroh_docs::store::SortDirection::Asc),
                )
                .map_err(|e| format!("{e}"))?
                .map(|r| r.unwrap())
                .collect();
            self.match_set(&format!("doc{d} by key {when}"), &by_key, &exp)?;
            let pol = store.get_download_policy(&self.ns(d)).map_err(|e| format!("{e}"))?;
            expect!(
                pol == policy_of(self.model.docs[d].policy),
                "doc{d}: policy {when} {pol:?}"
            );
            let has_author = store
                .get_author(&self.fix.authors[0].id())
                .map_err(|e| format!("{e}"))?
                .is_some();
            expect!(has_author, "{when}: the imported author is gone");
        }
        Ok(())
    }
}

fn same_id(fix: &Fix, ours: &MEntry, theirs: &SignedEntry) -> bool {
    match ours {
        MEntry::Fixed(_, e) => e.id() == theirs.id(),
        MEntry::Local { author, key, .. } => {
            author_idx(fix, theirs) == *author && theirs.key() == &key[..]
        }
    }
}

/// Runs one sequence on a fresh system. Returns the abstract state reached, or the deviation.
async fn run(fix: Arc<Fix>, seq: &[Op], probe_every_step: bool) -> Result<String, String> {
    let mut w = World::new(fix).await;
    for (i, op) in seq.iter().enumerate() {
        w.step(*op).await.map_err(|m| format!("step {i} {op:?}: {m}"))?;
        if probe_every_step {
            w.probe().await.map_err(|m| format!("after step {i} {op:?}: {m}"))?;
        }
    }
    w.probe().await.map_err(|m| format!("final probe: {m}"))?;
    let key = w.model.abstract_key();
    w.finish().await.map_err(|m| format!("finish: {m}"))?;
    Ok(key)
}

// ---------------------------------------------------------------------------------------------
// exploration drivers
// ---------------------------------------------------------------------------------------------

fn workers() -> usize {
    std::env::var("EXPLORE_WORKERS")
        .ok()
        .and_then(|s| s.parse().ok())
        .unwrap_or(4)
}

/// Runs all `jobs` on worker threads; returns per job the result of `run`.
fn run_jobs(jobs: &[Vec<Op>]) -> Vec<Result<String, String>> {
    let next = AtomicUsize::new(0);
    let results: Mutex<Vec<Option<Result<String, String>>>> = Mutex::new(vec![None; jobs.len()]);
    std::thread::scope(|s| {
        for _ in 0..workers() {
            s.spawn(|| {
                let rt = tokio::runtime::Builder::new_current_thread()
                    .enable_time()
                    .build()
                    .unwrap();
                let mut fix = Arc::new(make_fix());
                loop {
                    let i = next.fetch_add(1, AtomicOrdering::SeqCst);
                    if i >= jobs.len() {
                        break;
                    }
                    if fix.created.elapsed().as_secs() > 60 {
                        fix = Arc::new(make_fix());
                    }
                    let res = rt.block_on(run(fix.clone(), &jobs[i], false));
                    results.lock().unwrap()[i] = Some(res);
                }
            });
        }
    });
    results
        .into_inner()
        .unwrap()
        .into_iter()
        .map(|r| r.unwrap())
        .collect()
}

struct Report {
    runs: usize,
    steps: usize,
    states: usize,
    failures: Vec<(Vec<Op>, String)>,
}

/// Breadth-first exploration over abstract model states: every operation is tried from every
/// distinct state reached within `max_depth` operations.
fn explore_bfs(label: &str, init: &[Op], ops: &[Op], max_depth: usize) -> Report {
    let start = Instant::now();
    let mut seen: HashSet<String> = HashSet::new();
    let mut frontier: Vec<Vec<Op>> = vec![init.to_vec()];
    let mut rep = Report {
        runs: 0,
        steps: 0,
        states: 0,
        failures: vec![],
    };
    let r0 = run_jobs(&frontier);
    match &r0[0] {
        Ok(k) => {
            seen.insert(k.clone());
        }
        Err(m) => {
            rep.failures.push((init.to_vec(), m.clone()));
            return rep;
        }
    }
    for depth in 1..=max_depth {
        let mut jobs = vec![];
        for path in &frontier {
            for op in ops {
                let mut p = path.clone();
                p.push(*op);
                jobs.push(p);
            }
        }
        let results = run_jobs(&jobs);
        let mut next = vec![];
        for (job, res) in jobs.into_iter().zip(results) {
            rep.runs += 1;
            rep.steps += job.len();
            match res {
                Ok(k) => {
                    if seen.insert(k) {
                        next.push(job);
                    }
                }
                Err(m) => rep.failures.push((job, m)),
            }
        }
        eprintln!(
            "[{label}] depth {depth}: {} new states, {} total, {} runs, {} failures, {:?}",
            next.len(),
            seen.len(),
            rep.runs,
            rep.failures.len(),
            start.elapsed()
        );
        frontier = next;
        if frontier.is_empty() {
            break;
        }
    }
    rep.states = seen.len();
    rep
}

/// All sequences over `ops` of exactly `len` operations after `init` (each one is probed at its
/// end only; shorter sequences are covered by calling this for every length).
fn explore_seq(label: &str, init: &[Op], ops: &[Op], len: usize) -> Report {
    let start = Instant::now();
    let total = ops.len().pow(len as u32);
    let mut jobs = Vec::with_capacity(total);
    for mut n in 0..total {
        let mut p = init.to_vec();
        for _ in 0..len {
            p.push(ops[n % ops.len()]);
            n /= ops.len();
        }
        jobs.push(p);
    }
    let results = run_jobs(&jobs);
    let mut rep = Report {
        runs: 0,
        steps: 0,
        states: 0,
        failures: vec![],
    };
    let mut seen = HashSet::new();
    for (job, res) in jobs.into_iter().zip(results) {
        rep.runs += 1;
        rep.steps += job.len();
        match res {
            Ok(k) => {
                seen.insert(k);
            }
            Err(m) => rep.failures.push((job, m)),
        }
    }
    rep.states = seen.len();
    eprintln!(
        "[{label}] len {len}: {} sequences, {} distinct end states, {} failures, {:?}",
        rep.runs,
        rep.states,
        rep.failures.len(),
        start.elapsed()
    );
    rep
}

fn summarize(label: &str, rep: &Report) {
    eprintln!(
        "[{label}] TOTAL runs={} steps={} states={} failures={}",
        rep.runs,
        rep.steps,
        rep.states,
        rep.failures.len()
    );
    // group by message with the sequence-specific parts removed, show the shortest witness
    let mut groups: BTreeMap<String, (usize, Vec<Op>, String)> = BTreeMap::new();
    for (seq, msg) in &rep.failures {
        let short: String = msg.chars().take(90).collect();
        let short = short
            .split(':')
            .skip(1)
            .collect::<Vec<_>>()
            .join(":");
        let e = groups
            .entry(short)
            .or_insert((0, seq.clone(), msg.clone()));
        e.0 += 1;
        if seq.len() < e.1.len() {
            e.1 = seq.clone();
            e.2 = msg.clone();
        }
    }
    for (k, (n, seq, msg)) in groups {
        eprintln!("[{label}] FAILURE x{n} [{k}]\n    seq: {seq:?}\n    msg: {msg}");
    }
}

fn depth(default: usize) -> usize {
    std::env::var("EXPLORE_DEPTH")
        .ok()
        .and_then(|s| s.parse().ok())
        .unwrap_or(default)
}

#[test]
fn smoke() {
    use Op::*;
    let seqs = vec![
        vec![],
        vec![Import(0, true), Open(0, true, Some(0)), InsertLocal(0, 1), InsertRemote(0, 0), InsertRemote(0, 1), SyncMsg(0, 2), InsertLocal(0, 0), SyncMsg(0, 0), SyncMsg(0, 1), DeletePrefix(0, 0)],
        vec![Import(0, false), Open(0, true, Some(0)), InsertLocal(0, 1), SyncMsg(0, 1), SyncMsg(0, 2), SyncMsg(0, 0), Import(0, true), InsertLocal(0, 0), DeletePrefix(0, 0), Close(0), Close(0)],
    ];
    let res = run_jobs(&seqs);
    for (s, r) in seqs.iter().zip(res) {
        eprintln!("{s:?} -> {r:?}");
        assert!(r.is_ok());
    }
}

/// Handles, sync switch, drop and import on two documents; one local and one remote write.
#[test]
fn explore_handles_two_docs() {
    use Op::*;
    let mut ops = vec![];
    for d in 0..2 {
        ops.extend([
            Import(d, true),
            Import(d, false),
            Open(d, false, None),
            Open(d, true, None),
            Close(d),
            SetSync(d, true),
            SetSync(d, false),
            InsertLocal(d, 0),
            InsertRemote(d, 0),
            SyncInit(d),
            DropReplica(d),
        ]);
    }
    let rep = explore_bfs("handles2", &[], &ops, depth(6));
    summarize("handles2", &rep);
    assert!(rep.failures.is_empty());
}

/// One document, two holders: subscriptions and every way an entry may enter.
#[test]
fn explore_subscribers_one_doc() {
    use Op::*;
    let init = [Import(0, true)];
    let ops = vec![
        Open(0, false, None),
        Open(0, true, Some(0)),
        Close(0),
        Subscribe(0, 0),
        Subscribe(0, 1),
        Unsubscribe(0, 0),
        Unsubscribe(0, 1),
        DropRx(0),
        DropRx(1),
        SetSync(0, true),
        InsertLocal(0, 0),
        InsertLocal(0, 1),
        DeletePrefix(0, 0),
        InsertLocalEmpty(0),
        InsertRemote(0, 0),
        InsertRemote(0, 1),
        InsertRemote(0, 2),
        InsertRemote(0, 3),
        InsertRemote(0, 5),
        SyncMsg(0, 0),
        SyncMsg(0, 1),
        SyncMsg(0, 2),
        SetPolicy(0, 1),
        DropReplica(0),
        Import(0, true),
    ];
    let rep = explore_bfs("subs1", &init, &ops, depth(5));
    summarize("subs1", &rep);
    assert!(rep.failures.is_empty());
}

/// Plain enumeration of all sequences (no merging of states) over a small alphabet.
#[test]
fn explore_sequences_plain() {
    use Op::*;
    let init = [Import(0, true)];
    let ops = vec![
        Open(0, false, None),
        Open(0, true, Some(0)),
        Close(0),
        Subscribe(0, 1),
        Unsubscribe(0, 0),
        DropRx(0),
        SetSync(0, false),
        InsertLocal(0, 1),
        DeletePrefix(0, 0),
        InsertRemote(0, 1),
        SyncMsg(0, 2),
        DropReplica(0),
        Import(0, false),
        GetMany(0),
    ];
    let mut all = Report {
        runs: 0,
        steps: 0,
        states: 0,
        failures: vec![],
    };
    for len in 1..=depth(5) {
        let rep = explore_seq("plain", &init, &ops, len);
        all.runs += rep.runs;
        all.steps += rep.steps;
        all.states = all.states.max(rep.states);
        all.failures.extend(rep.failures);
        if all.failures.len() > 200 {
            break;
        }
    }
    summarize("plain", &all);
    assert!(all.failures.is_empty());
}

#[test]
fn timing() {
    let rt = tokio::runtime::Builder::new_current_thread().enable_time().build().unwrap();
    let fix = Arc::new(make_fix());
    let t = Instant::now();
    for _ in 0..200 {
        let s = Store::memory();
        drop(s);
    }
    eprintln!("Store::memory x200: {:?}", t.elapsed());
    let t = Instant::now();
    for _ in 0..200 {
        rt.block_on(async {
            let w = World::new(fix.clone()).await;
            let _ = w.sync.shutdown().await.unwrap();
        });
    }
    eprintln!("World new+shutdown x200: {:?}", t.elapsed());
    let t = Instant::now();
    rt.block_on(async {
        let mut w = World::new(fix.clone()).await;
        w.step(Op::Import(0, true)).await.unwrap();
        w.step(Op::Open(0, true, None)).await.unwrap();
        for _ in 0..200 {
            w.probe().await.unwrap();
        }
        eprintln!("probe x200: {:?}", t.elapsed());
        let t = Instant::now();
        for _ in 0..200 {
            w.step(Op::GetState(0)).await.unwrap();
        }
        eprintln!("get_state x200: {:?}", t.elapsed());
        let t = Instant::now();
        for _ in 0..200 {
            w.step(Op::InsertLocal(0, 0)).await.unwrap();
        }
        eprintln!("insert_local x200: {:?}", t.elapsed());
    });
    let t = Instant::now();
    for _ in 0..20 { let _ = make_fix(); }
    eprintln!("make_fix x20: {:?}", t.elapsed());
}

/// Two documents, one holder channel subscribed to both, writes on both.
#[test]
fn explore_subscribers_two_docs() {
    use Op::*;
    let init = [Import(0, true), Import(1, true)];
    let mut ops = vec![DropRx(0), Subscribe(0, 1), Unsubscribe(1, 1)];
    for d in 0..2 {
        ops.extend([
            Open(d, true, Some(0)),
            Open(d, false, None),
            Close(d),
            Subscribe(d, 0),
            Unsubscribe(d, 0),
            InsertLocal(d, 0),
            InsertRemote(d, 1),
            InsertRemote(d, 6),
            SyncMsg(d, 1),
            DropReplica(d),
            Import(d, false),
        ]);
    }
    let rep = explore_bfs("subs2", &init, &ops, depth(5));
    summarize("subs2", &rep);
    assert!(rep.failures.is_empty());
}

/// Equal timestamps, prefixes and deletion markers on both ingress paths, with a subscriber.
#[test]
fn explore_equal_timestamps() {
    use Op::*;
    let init = [Import(0, true), Open(0, true, Some(0))];
    let ops = vec![
        InsertLocal(0, 0),
        InsertLocal(0, 1),
        DeletePrefix(0, 0),
        DeletePrefix(0, 1),
        InsertRemote(0, 1),
        InsertRemote(0, 2),
        InsertRemote(0, 5),
        InsertRemote(0, 8),
        InsertRemote(0, 9),
        SyncMsg(0, 0),
        SyncMsg(0, 1),
        SyncMsg(0, 2),
        SyncMsg(0, 3),
        SyncMsg(0, 4),
        SyncMsg(0, 5),
        SyncMsg(0, 6),
        SetPolicy(0, 1),
        SetPolicy(0, 0),
        Close(0),
        Open(0, true, Some(1)),
        DropReplica(0),
        Import(0, true),
    ];
    let rep = explore_bfs("eqts", &init, &ops, depth(6));
    summarize("eqts", &rep);
    assert!(rep.failures.is_empty());
}

/// Requests issued without waiting for the replies: every reply (including reply streams that
/// are read late) reflects exactly the requests issued before it.
#[test]
fn pipelined_requests_reflect_earlier_ones() {
    use n0_future::future::poll_once;
    let rt = tokio::runtime::Builder::new_current_thread().enable_time().build().unwrap();
    rt.block_on(async {
        let fix = Arc::new(make_fix());
        let w = World::new(fix.clone()).await;
        let ns = fix.ns[0].id();
        let author = fix.authors[0].id();
        w.sync.import_namespace(iroh_docs::Capability::Write(fix.ns[0].clone())).await.unwrap();
        w.sync.open(ns, OpenOpts::default().sync()).await.unwrap();
        const N: usize = 150;
        let mut inserts = vec![];
        let mut gets = vec![];
        let mut streams = vec![];
        let mut states = vec![];
        for i in 0..N {
            let key = Bytes::from(format!("k{i:04}"));
            let mut f = Box::pin(w.sync.insert_local(ns, author, key.clone(), Hash::new(&key), 5));
            assert!(poll_once(&mut f).await.is_none());
            inserts.push(f);
            let mut g = Box::pin(w.sync.get_exact(ns, author, key.clone(), false));
            assert!(poll_once(&mut g).await.is_none());
            gets.push(g);
            let (tx, rx) = irpc::channel::mpsc::channel(4);
            w.sync.get_many(ns, Query::all().into(), tx).await.unwrap();
            streams.push(rx);
            // an open in between: the handle count seen by the state request is exact
            let mut o = Box::pin(w.sync.open(ns, OpenOpts::default()));
            assert!(poll_once(&mut o).await.is_none());
            let mut s = Box::pin(w.sync.get_state(ns));
            assert!(poll_once(&mut s).await.is_none());
            states.push((o, s));
        }
        for (i, f) in inserts.into_iter().enumerate() {
            f.await.unwrap_or_else(|e| panic!("insert {i}: {e}"));
        }
        for (i, g) in gets.into_iter().enumerate() {
            assert!(g.await.unwrap().is_some(), "get {i} does not see the insert before it");
        }
        for (i, (o, s)) in states.into_iter().enumerate() {
            o.await.unwrap();
            assert_eq!(s.await.unwrap().handles, i + 2);
        }
        for (i, mut rx) in streams.into_iter().enumerate().rev() {
            let mut n = 0;
            while let Some(item) = rx.recv().await.unwrap() {
                let e = item.unwrap();
                assert!(e.key() <= format!("k{i:04}").as_bytes(), "stream {i} has later key");
                n += 1;
            }
            assert_eq!(n, i + 1, "stream {i}");
        }
        let mut store = w.sync.shutdown().await.unwrap();
        let n = store.get_many(ns, Query::all()).unwrap().count();
        assert_eq!(n, N);
    });
}

/// Plain enumeration, second alphabet: handle counting, sync switch, drop/import, one subscriber.
#[test]
fn explore_sequences_plain2() {
    use Op::*;
    let init = [Import(0, true)];
    let ops = vec![
        Open(0, false, None),
        Open(0, true, Some(0)),
        Close(0),
        SetSync(0, true),
        InsertRemote(0, 1),
        InsertLocal(0, 0),
        DropReplica(0),
        Import(0, true),
        Unsubscribe(0, 0),
    ];
    let mut all = Report {
        runs: 0,
        steps: 0,
        states: 0,
        failures: vec![],
    };
    for len in 1..=depth(6) {
        let rep = explore_seq("plain2", &init, &ops, len);
        all.runs += rep.runs;
        all.steps += rep.steps;
        all.states = all.states.max(rep.states);
        all.failures.extend(rep.failures);
        if all.failures.len() > 200 {
            break;
        }
    }
    summarize("plain2", &all);
    assert!(all.failures.is_empty());
}

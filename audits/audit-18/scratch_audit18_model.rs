//! Model-based exploration of C17 and C14 (audit scratch).
use std::collections::{BTreeMap, HashMap};

use anyhow::Result;
use bytes::Bytes;
use iroh_blobs::Hash;
use iroh_docs::{
    actor::{OpenOpts, SyncHandle},
    store::{Query, Store},
    sync::{Record, SignedEntry},
    Author, Capability, ContentStatus, NamespaceId, NamespaceSecret,
};
use rand::{RngExt, SeedableRng};

#[test]
fn audit18_useful_peers_model() -> Result<()> {
    for seed in 0..40u64 {
        let mut rng = rand::rngs::ChaCha12Rng::seed_from_u64(seed);
        let dir = tempfile::tempdir()?;
        let path = dir.path().join("docs.db");
        let mut store = Store::persistent(&path)?;
        let docs: Vec<NamespaceSecret> = (0..3).map(|_| NamespaceSecret::new(&mut rng)).collect();
        for d in &docs[..2] {
            store.import_namespace(d.clone().into())?;
        }
        let mut model: HashMap<NamespaceId, Vec<[u8; 32]>> = HashMap::new();
        let n_peers = rng.random_range(1..9u8);
        for _ in 0..rng.random_range(1..60usize) {
            match rng.random_range(0..12u32) {
                0 => {
                    // reopen
                    drop(store);
                    store = Store::persistent(&path)?;
                }
                1 => {
                    // unknown doc
                    assert!(store
                        .register_useful_peer(docs[2].id(), [7u8; 32])
                        .is_err());
                    assert!(store.get_sync_peers(&docs[2].id())?.is_none());
                }
                _ => {
                    let d = docs[rng.random_range(0..2usize)].id();
                    let p = [rng.random_range(0..n_peers); 32];
                    store.register_useful_peer(d, p)?;
                    let l = model.entry(d).or_default();
                    l.retain(|x| *x != p);
                    l.insert(0, p);
                    l.truncate(5);
                }
            }
            for d in &docs[..2] {
                let got: Vec<[u8; 32]> = store
                    .get_sync_peers(&d.id())?
                    .map(|i| i.collect())
                    .unwrap_or_default();
                let want = model.get(&d.id()).cloned().unwrap_or_default();
                assert_eq!(got, want, "seed {seed}");
            }
        }
    }
    Ok(())
}

#[derive(Default, Debug)]
struct DocModel {
    exists: bool,
    writable: bool,
    handles: usize,
    sync: bool,
    entries: BTreeMap<(Vec<u8>, Vec<u8>), Hash>,
}

#[tokio::test]
async fn audit18_actor_model() -> Result<()> {
    for seed in 0..60u64 {
        let mut rng = rand::rngs::ChaCha12Rng::seed_from_u64(seed);
        let store = Store::memory();
        let sync = SyncHandle::spawn(store, None, "m".into());
        let secrets: Vec<NamespaceSecret> =
            (0..2).map(|_| NamespaceSecret::new(&mut rng)).collect();
        let author = Author::new(&mut rng);
        let remote_author = Author::new(&mut rng);
        sync.import_author(author.clone()).await?;
        let mut model: Vec<DocModel> = (0..2).map(|_| DocModel::default()).collect();
        let mut keep_rx = Vec::new();
        let keys: [&[u8]; 4] = [b"k0", b"k1", b"k2", b"k3"];
        let n_ops = rng.random_range(5..80usize);
        for step in 0..n_ops {
            let d = rng.random_range(0..2usize);
            let id = secrets[d].id();
            let m = &mut model[d];
            let ctx = format!("seed {seed} step {step} model {m:?}");
            match rng.random_range(0..14u32) {
                0 => {
                    let write = rng.random_range(0..2u32) == 0;
                    let cap = if write {
                        Capability::Write(secrets[d].clone())
                    } else {
                        Capability::Read(id)
                    };
                    sync.import_namespace(cap).await?;
                    m.exists = true;
                    m.writable |= write;
                }
                1 | 2 => {
                    let mut opts = OpenOpts::default();
                    let s = rng.random_range(0..2u32) == 0;
                    if s {
                        opts = opts.sync();
                    }
                    if rng.random_range(0..3u32) == 0 {
                        let (tx, rx) = async_channel::unbounded();
                        keep_rx.push(rx);
                        opts = opts.subscribe(tx);
                    }
                    let res = sync.open(id, opts).await;
                    assert_eq!(res.is_ok(), m.exists, "open {ctx}");
                    if m.exists {
                        m.handles += 1;
                        m.sync |= s;
                    }
                }
                3 | 4 => {
                    let res = sync.close(id).await?;
                    if m.handles > 0 {
                        m.handles -= 1;
                        if m.handles == 0 {
                            m.sync = false;
                        }
                    }
                    assert_eq!(res, m.handles == 0, "close {ctx}");
                }
                5 => {
                    let b = rng.random_range(0..2u32) == 0;
                    let res = sync.set_sync(id, b).await;
                    assert_eq!(res.is_ok(), m.handles > 0, "set_sync {ctx}");
                    if m.handles > 0 {
                        m.sync = b;
                    }
                }
                6 | 7 => {
                    let key = keys[rng.random_range(0..4usize)];
                    let hash = Hash::new([rng.random_range(0..200u8)]);
                    let res = sync
                        .insert_local(id, author.id(), Bytes::copy_from_slice(key), hash, 1)
                        .await;
                    let ok = m.handles > 0 && m.writable;
                    assert_eq!(res.is_ok(), ok, "insert_local {ctx} {res:?}");
                    if ok {
                        m.entries
                            .insert((author.id().as_bytes().to_vec(), key.to_vec()), hash);
                    }
                }
                8 => {
                    let key = keys[rng.random_range(0..4usize)];
                    let res = sync.get_exact(id, author.id(), Bytes::copy_from_slice(key), true).await;
                    assert_eq!(res.is_ok(), m.handles > 0, "get_exact {ctx}");
                    if let Ok(e) = res {
                        let want = m
                            .entries
                            .get(&(author.id().as_bytes().to_vec(), key.to_vec()))
                            .copied();
                        assert_eq!(e.map(|e| e.content_hash()), want, "get_exact value {ctx}");
                    }
                }
                9 => {
                    let (tx, rx) = async_channel::unbounded();
                    keep_rx.push(rx);
                    let res = sync.subscribe(id, tx).await;
                    assert_eq!(res.is_ok(), m.handles > 0, "subscribe {ctx}");
                }
                10 => {
                    let res = sync.sync_initial_message(id).await;
                    assert_eq!(res.is_ok(), m.handles > 0 && m.sync, "initial {ctx}");
                }
                11 => {
                    let key = keys[rng.random_range(0..4usize)];
                    let hash = Hash::new([rng.random_range(0..200u8), 1]);
                    let now = std::time::SystemTime::now()
                        .duration_since(std::time::UNIX_EPOCH)?
                        .as_micros() as u64;
                    let e = SignedEntry::from_parts(
                        &secrets[d],
                        &remote_author,
                        key,
                        Record::new(hash, 2, now),
                    );
                    let res = sync
                        .insert_remote(id, e, [3u8; 32], ContentStatus::Missing)
                        .await;
                    let ok = m.handles > 0 && m.sync;
                    assert_eq!(res.is_ok(), ok, "insert_remote {ctx} {res:?}");
                    if ok {
                        m.entries.insert(
                            (remote_author.id().as_bytes().to_vec(), key.to_vec()),
                            hash,
                        );
                    }
                }
                12 => {
                    let res = sync.drop_replica(id).await;
                    let ok = m.handles <= 1;
                    assert_eq!(res.is_ok(), ok, "drop {ctx} {res:?}");
                    if ok {
                        *m = DocModel::default();
                    }
                }
                _ => {
                    let res = sync.get_state(id).await;
                    assert_eq!(res.is_ok(), m.handles > 0, "get_state {ctx}");
                    if let Ok(s) = res {
                        assert_eq!(s.handles, m.handles, "handles {ctx}");
                        assert_eq!(s.sync, m.sync, "sync {ctx}");
                    }
                    // get_many
                    let (tx, mut rx) = irpc::channel::mpsc::channel(64);
                    sync.get_many(id, Query::all().include_empty().build(), tx)
                        .await?;
                    let mut got = BTreeMap::new();
                    let mut failed = false;
                    while let Some(item) = rx.recv().await? {
                        match item {
                            Ok(e) => {
                                got.insert(
                                    (e.author().as_bytes().to_vec(), e.key().to_vec()),
                                    e.content_hash(),
                                );
                            }
                            Err(_) => failed = true,
                        }
                    }
                    assert_eq!(failed, m.handles == 0, "get_many {ctx}");
                    if !failed {
                        assert_eq!(got, m.entries, "get_many entries {ctx}");
                    }
                }
            }
        }
        let mut store = sync.shutdown().await?;
        for (d, m) in model.iter().enumerate() {
            let id = secrets[d].id();
            let got: BTreeMap<_, _> = store
                .get_many(id, Query::all().include_empty())?
                .map(|e| {
                    let e = e.unwrap();
                    (
                        (e.author().as_bytes().to_vec(), e.key().to_vec()),
                        e.content_hash(),
                    )
                })
                .collect();
            assert_eq!(got, m.entries, "after shutdown seed {seed} doc {d}");
        }
    }
    Ok(())
}

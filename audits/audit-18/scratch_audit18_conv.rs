//! Randomized convergence exploration (audit scratch).
use anyhow::Result;
use iroh_blobs::Hash;
use iroh_docs::{
    store::{Query, Store},
    sync::{Record, SignedEntry, SyncOutcome},
    Author, ContentStatus, NamespaceId, NamespaceSecret,
};
use rand::{RngExt, SeedableRng};

const KEYS: &[&[u8]] = &[
    b"",
    b"a",
    b"ab",
    b"abc",
    b"b",
    &[0xff],
    &[0xff, 0xff],
    &[0xff, 0xff, 0x00],
    &[0x00],
    b"a\x00",
    b"a\xff",
    b"a\xff\xff",
];

async fn run_session(
    ns: NamespaceId,
    a: &mut Store,
    b: &mut Store,
    cutoff: Option<usize>,
) -> Result<usize> {
    let mut n = 0usize;
    let mut sa = SyncOutcome::default();
    let mut sb = SyncOutcome::default();
    let mut msg = {
        let mut ra = a.open_replica(&ns)?;
        let m = ra.sync_initial_message()?;
        drop(ra);
        a.close_replica(ns);
        m
    };
    loop {
        n += 1;
        if let Some(c) = cutoff {
            if n > c {
                return Ok(n);
            }
        }
        // bob processes
        let reply = {
            let mut rb = b.open_replica(&ns)?;
            let r = rb.sync_process_message(msg, [1u8; 32], &mut sb).await?;
            drop(rb);
            b.close_replica(ns);
            r
        };
        let Some(reply) = reply else { break };
        n += 1;
        if let Some(c) = cutoff {
            if n > c {
                return Ok(n);
            }
        }
        let next = {
            let mut ra = a.open_replica(&ns)?;
            let r = ra.sync_process_message(reply, [2u8; 32], &mut sa).await?;
            drop(ra);
            a.close_replica(ns);
            r
        };
        let Some(next) = next else { break };
        msg = next;
        assert!(n < 10_000, "session does not terminate");
    }
    Ok(n)
}

fn all(store: &mut Store, ns: NamespaceId) -> Result<Vec<SignedEntry>> {
    store
        .get_many(ns, Query::all().include_empty())?
        .collect::<Result<Vec<_>>>()
}

async fn put(store: &mut Store, ns: NamespaceId, e: SignedEntry) -> Result<bool> {
    let mut r = store.open_replica(&ns)?;
    let res = r
        .insert_remote_entry(e, [9u8; 32], ContentStatus::Missing)
        .await;
    drop(r);
    store.close_replica(ns);
    Ok(res.is_ok())
}

async fn one_case(seed: u64) -> Result<()> {
    let mut rng = rand::rngs::ChaCha12Rng::seed_from_u64(seed);
    let secret = NamespaceSecret::new(&mut rng);
    let ns = secret.id();
    let authors: Vec<Author> = (0..2).map(|_| Author::new(&mut rng)).collect();
    let n_replicas = rng.random_range(2..=4usize);
    let mut stores: Vec<Store> = Vec::new();
    for _ in 0..n_replicas {
        let mut s = Store::memory();
        s.import_namespace(secret.clone().into())?;
        stores.push(s);
    }
    let mut accepted: Vec<SignedEntry> = Vec::new();
    let n_ops = rng.random_range(5..40usize);
    for _ in 0..n_ops {
        let kind = rng.random_range(0..10u32);
        match kind {
            0..=5 => {
                // write or delete
                let r = rng.random_range(0..n_replicas);
                let author = &authors[rng.random_range(0..authors.len())];
                let key = KEYS[rng.random_range(0..KEYS.len())];
                let ts = rng.random_range(1..6u64);
                let record = if rng.random_range(0..4u32) == 0 {
                    Record::empty(ts)
                } else {
                    let data = [rng.random_range(0..4u8)];
                    Record::new(Hash::new(data), 1, ts)
                };
                let e = SignedEntry::from_parts(&secret, author, key, record);
                if put(&mut stores[r], ns, e.clone()).await? {
                    accepted.push(e);
                }
            }
            6..=7 => {
                // broadcast delivery (dup / reorder)
                if accepted.is_empty() {
                    continue;
                }
                let e = accepted[rng.random_range(0..accepted.len())].clone();
                let r = rng.random_range(0..n_replicas);
                put(&mut stores[r], ns, e).await?;
            }
            _ => {
                let i = rng.random_range(0..n_replicas);
                let mut j = rng.random_range(0..n_replicas);
                if i == j {
                    j = (j + 1) % n_replicas;
                }
                let cutoff = if rng.random_range(0..2u32) == 0 {
                    Some(rng.random_range(0..4usize))
                } else {
                    None
                };
                let (a, b) = pick2(&mut stores, i, j);
                run_session(ns, a, b, cutoff).await?;
            }
        }
    }
    // closing round: chain forward and backward
    for i in 0..n_replicas - 1 {
        let (a, b) = pick2(&mut stores, i, i + 1);
        run_session(ns, a, b, None).await?;
    }
    for i in (0..n_replicas - 1).rev() {
        let (a, b) = pick2(&mut stores, i + 1, i);
        run_session(ns, a, b, None).await?;
    }
    // reference
    let mut reference = Store::memory();
    reference.import_namespace(secret.clone().into())?;
    for e in &accepted {
        put(&mut reference, ns, e.clone()).await?;
    }
    let expected = all(&mut reference, ns)?;
    for (i, s) in stores.iter_mut().enumerate() {
        let got = all(s, ns)?;
        assert_eq!(
            got, expected,
            "seed {seed}: replica {i} differs from the merge of accepted writes"
        );
    }
    Ok(())
}

fn pick2(stores: &mut [Store], i: usize, j: usize) -> (&mut Store, &mut Store) {
    assert!(i != j);
    if i < j {
        let (l, r) = stores.split_at_mut(j);
        (&mut l[i], &mut r[0])
    } else {
        let (l, r) = stores.split_at_mut(i);
        (&mut r[0], &mut l[j])
    }
}

#[tokio::test]
async fn audit18_random_convergence() -> Result<()> {
    let n: u64 = std::env::var("AUDIT_CASES")
        .ok()
        .and_then(|s| s.parse().ok())
        .unwrap_or(300);
    for seed in 0..n {
        one_case(seed).await?;
    }
    Ok(())
}

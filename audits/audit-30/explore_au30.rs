//! Persistence explorer: random operation histories on a file-backed store, with reopen / crash
//! images / removed derived tables, compared against an in-memory reference model.
#![cfg(feature = "fs-store")]
#![allow(clippy::type_complexity)]

use std::{collections::BTreeMap, path::Path};

use anyhow::Result;
use bytes::Bytes;
use iroh_blobs::Hash;
use iroh_docs::{
    store::{DownloadPolicy, FilterKind, Query, SortBy, SortDirection, Store},
    Author, AuthorHeads, AuthorId, Capability, CapabilityKind, ContentStatus, Entry, NamespaceId,
    NamespaceSecret, Record, RecordIdentifier, SignedEntry,
};

const LATEST: redb::TableDefinition<(&[u8; 32], &[u8; 32]), (u64, &[u8])> =
    redb::TableDefinition::new("latest-by-author-1");
const BY_KEY: redb::TableDefinition<(&[u8; 32], &[u8], &[u8; 32]), ()> =
    redb::TableDefinition::new("records-by-key-1");

struct Rng(u64);
impl Rng {
    fn next(&mut self) -> u64 {
        self.0 = self.0.wrapping_add(0x9E3779B97F4A7C15);
        let mut z = self.0;
        z = (z ^ (z >> 30)).wrapping_mul(0xBF58476D1CE4E5B9);
        z = (z ^ (z >> 27)).wrapping_mul(0x94D049BB133111EB);
        z ^ (z >> 31)
    }
    fn below(&mut self, n: u64) -> u64 {
        self.next() % n
    }
    fn pick<'a, T>(&mut self, xs: &'a [T]) -> &'a T {
        &xs[self.below(xs.len() as u64) as usize]
    }
}

#[derive(Clone, Debug, PartialEq, Eq)]
struct MEntry {
    ts: u64,
    hash: Hash,
    len: u64,
}

#[derive(Clone, Debug, Default, PartialEq)]
struct MDoc {
    write: bool,
    entries: BTreeMap<([u8; 32], Vec<u8>), MEntry>,
    policy: Option<DownloadPolicy>,
    peers: Vec<[u8; 32]>,
}

#[derive(Clone, Debug, Default, PartialEq)]
struct Model {
    docs: BTreeMap<[u8; 32], MDoc>,
    authors: BTreeMap<[u8; 32], ()>,
}

impl MDoc {
    fn put(&mut self, author: [u8; 32], key: &[u8], e: MEntry) -> bool {
        for ((a, k), ex) in &self.entries {
            if *a == author && key.starts_with(k) && (e.ts, e.hash) <= (ex.ts, ex.hash) {
                return false;
            }
        }
        self.entries.retain(|(a, k), ex| {
            !(*a == author && k.starts_with(key) && (e.ts, e.hash) >= (ex.ts, ex.hash))
        });
        self.entries.insert((author, key.to_vec()), e);
        true
    }

    fn heads(&self) -> Vec<([u8; 32], u64, Vec<u8>)> {
        let mut m: BTreeMap<[u8; 32], (u64, Vec<u8>)> = BTreeMap::new();
        for ((a, k), e) in &self.entries {
            let cand = (e.ts, k.clone());
            m.entry(*a)
                .and_modify(|h| {
                    if cand > *h {
                        *h = cand.clone()
                    }
                })
                .or_insert(cand);
        }
        m.into_iter().map(|(a, (t, k))| (a, t, k)).collect()
    }
}

type Row = ([u8; 32], Vec<u8>, u64, Hash, u64);

#[derive(Clone, Debug)]
enum KF {
    Any,
    Exact(Vec<u8>),
    Prefix(Vec<u8>),
}
impl KF {
    fn matches(&self, k: &[u8]) -> bool {
        match self {
            KF::Any => true,
            KF::Exact(e) => e == k,
            KF::Prefix(p) => k.starts_with(p),
        }
    }
}

#[derive(Clone, Debug)]
struct Q {
    kind: u8, // 0 flat author-key, 1 flat key-author, 2 latest per key
    author: Option<[u8; 32]>,
    key: KF,
    include_empty: bool,
    desc: bool,
    offset: u64,
    limit: Option<u64>,
}

impl Q {
    fn build(&self) -> Query {
        let dir = if self.desc {
            SortDirection::Desc
        } else {
            SortDirection::Asc
        };
        macro_rules! common {
            ($b:expr) => {{
                let mut b = $b;
                if let Some(a) = self.author {
                    b = b.author(AuthorId::from(&a));
                }
                match &self.key {
                    KF::Any => {}
                    KF::Exact(k) => b = b.key_exact(k),
                    KF::Prefix(k) => b = b.key_prefix(k),
                }
                if self.include_empty {
                    b = b.include_empty();
                }
                if self.offset > 0 {
                    b = b.offset(self.offset);
                }
                if let Some(l) = self.limit {
                    b = b.limit(l);
                }
                b
            }};
        }
        match self.kind {
            0 => common!(Query::all().sort_by(SortBy::AuthorKey, dir)).build(),
            1 => common!(Query::all().sort_by(SortBy::KeyAuthor, dir)).build(),
            _ => common!(Query::single_latest_per_key().sort_direction(dir)).build(),
        }
    }

    fn eval(&self, doc: &MDoc) -> Vec<Row> {
        let all: Vec<Row> = doc
            .entries
            .iter()
            .map(|((a, k), e)| (*a, k.clone(), e.ts, e.hash, e.len))
            .collect();
        let is_empty = |r: &Row| r.3 == Hash::EMPTY;
        let mut rows: Vec<Row> = match self.kind {
            0 | 1 => {
                let mut rows: Vec<Row> = all
                    .into_iter()
                    .filter(|r| self.author.map(|a| a == r.0).unwrap_or(true))
                    .filter(|r| self.key.matches(&r.1))
                    .filter(|r| self.include_empty || !is_empty(r))
                    .collect();
                if self.kind == 1 && self.author.is_none() {
                    rows.sort_by(|x, y| (&x.1, &x.0).cmp(&(&y.1, &y.0)));
                } else {
                    rows.sort_by(|x, y| (&x.0, &x.1).cmp(&(&y.0, &y.1)));
                }
                rows
            }
            _ => {
                let mut groups: BTreeMap<Vec<u8>, Row> = BTreeMap::new();
                for r in all.into_iter().filter(|r| self.key.matches(&r.1)) {
                    match groups.get(&r.1) {
                        Some(best) if (best.2, best.3, best.0) >= (r.2, r.3, r.0) => {}
                        _ => {
                            groups.insert(r.1.clone(), r);
                        }
                    }
                }
                groups
                    .into_values()
                    .filter(|r| self.author.map(|a| a == r.0).unwrap_or(true))
                    .filter(|r| self.include_empty || !is_empty(r))
                    .collect()
            }
        };
        if self.desc {
            rows.reverse();
        }
        let rows = rows.into_iter().skip(self.offset as usize);
        match self.limit {
            Some(l) => rows.take(l as usize).collect(),
            None => rows.collect(),
        }
    }
}

fn row(e: &SignedEntry) -> Row {
    (
        e.author().to_bytes(),
        e.key().to_vec(),
        e.timestamp(),
        e.content_hash(),
        e.content_len(),
    )
}

struct World {
    secrets: Vec<NamespaceSecret>,
    authors: Vec<Author>,
    keys: Vec<Vec<u8>>,
    peers: Vec<[u8; 32]>,
}

impl World {
    fn new() -> Self {
        let secrets = (0..3u8)
            .map(|i| NamespaceSecret::from_bytes(&[i + 1; 32]))
            .collect();
        let authors = (0..3u8)
            .map(|i| Author::from_bytes(&[i + 11; 32]))
            .collect();
        let big = std::env::var("AU30_BIG").is_ok();
        let alphabet: &[u8] = if big {
            &[0u8, 1, 0x61, 0x62, 0xfe, 0xff]
        } else {
            &[0u8, 0x61, 0xff]
        };
        let mut keys = vec![vec![]];
        for &a in alphabet {
            keys.push(vec![a]);
            for &b in alphabet {
                keys.push(vec![a, b]);
                for &c in alphabet {
                    keys.push(vec![a, b, c]);
                    if big {
                        for &d in alphabet {
                            // long keys, so that the tables span many pages
                            let mut k = vec![a, b, c, d];
                            k.extend(std::iter::repeat(d).take(200));
                            keys.push(k);
                        }
                    }
                }
            }
        }
        let peers = (0..8u8).map(|i| [i + 100; 32]).collect();
        World {
            secrets,
            authors,
            keys,
            peers,
        }
    }

    fn random_query(&self, rng: &mut Rng) -> Q {
        let key = match rng.below(4) {
            0 => KF::Any,
            1 => KF::Exact(rng.pick(&self.keys).clone()),
            _ => KF::Prefix(rng.pick(&self.keys[..13]).clone()),
        };
        let (offset, limit) = match rng.below(4) {
            0 => (1, Some(2)),
            1 => (0, Some(1)),
            _ => (0, None),
        };
        Q {
            kind: rng.below(3) as u8,
            author: match rng.below(3) {
                0 => None,
                _ => Some(rng.pick(&self.authors).id().to_bytes()),
            },
            key,
            include_empty: rng.below(2) == 0,
            desc: rng.below(2) == 0,
            offset,
            limit,
        }
    }
}

/// Compare everything observable with the model. Returns a description of the first mismatch.
fn check(store: &mut Store, model: &Model, w: &World, rng: &mut Rng) -> Result<Option<String>> {
    // namespaces
    let got: Vec<([u8; 32], bool)> = store
        .list_namespaces()?
        .map(|r| r.map(|(id, k)| (id.to_bytes(), matches!(k, CapabilityKind::Write))))
        .collect::<Result<_>>()?;
    let want: Vec<([u8; 32], bool)> = model.docs.iter().map(|(id, d)| (*id, d.write)).collect();
    if got != want {
        return Ok(Some(format!("list_namespaces: got {got:?} want {want:?}")));
    }
    // authors
    let mut got: Vec<[u8; 32]> = store
        .list_authors()?
        .map(|r| r.map(|a| a.id().to_bytes()))
        .collect::<Result<_>>()?;
    got.sort();
    let want: Vec<[u8; 32]> = model.authors.keys().copied().collect();
    if got != want {
        return Ok(Some(format!("list_authors: got {got:?} want {want:?}")));
    }
    // content hashes
    let mut got: Vec<Hash> = store.content_hashes()?.collect::<Result<_>>()?;
    got.sort();
    let mut want: Vec<Hash> = model
        .docs
        .values()
        .flat_map(|d| d.entries.values().map(|e| e.hash))
        .collect();
    want.sort();
    if got != want {
        return Ok(Some(format!("content_hashes: got {got:?} want {want:?}")));
    }

    let empty_doc = MDoc::default();
    for secret in &w.secrets {
        let ns = secret.id();
        let doc = model.docs.get(&ns.to_bytes());
        let exists = doc.is_some();
        let doc = doc.unwrap_or(&empty_doc);

        // capability as loaded
        match store.load_replica_info(&ns) {
            Ok(info) => {
                store.close_replica(ns);
                if !exists {
                    return Ok(Some(format!("doc {ns} should not exist")));
                }
                // capability only reachable through a replica
                let replica = store.open_replica(&ns)?;
                let kind = matches!(replica.capability().kind(), CapabilityKind::Write);
                drop(replica);
                store.close_replica(ns);
                drop(info);
                let want = doc.write;
                if kind != want {
                    return Ok(Some(format!("capability of {ns}: {kind:?} want {want:?}")));
                }
            }
            Err(_) => {
                if exists {
                    return Ok(Some(format!("doc {ns} should exist")));
                }
            }
        }

        // queries
        let mut queries = vec![];
        for kind in 0..3u8 {
            for include_empty in [false, true] {
                for desc in [false, true] {
                    queries.push(Q {
                        kind,
                        author: None,
                        key: KF::Any,
                        include_empty,
                        desc,
                        offset: 0,
                        limit: None,
                    });
                }
            }
        }
        for _ in 0..30 {
            queries.push(w.random_query(rng));
        }
        for q in queries {
            let got: Vec<Row> = store
                .get_many(ns, q.build())?
                .map(|r| r.map(|e| row(&e)))
                .collect::<Result<_>>()?;
            let want = q.eval(doc);
            if got != want {
                return Ok(Some(format!(
                    "query {q:?} on {ns}:\n got  {got:?}\n want {want:?}"
                )));
            }
        }
        // get_exact
        for a in &w.authors {
            let sample: Vec<&Vec<u8>> = if w.keys.len() > 100 {
                (0..60).map(|_| rng.pick(&w.keys)).collect()
            } else {
                w.keys.iter().collect()
            };
            for k in sample {
                for include_empty in [false, true] {
                    let got = store
                        .get_exact(ns, a.id(), k, include_empty)?
                        .map(|e| row(&e));
                    let want = doc
                        .entries
                        .get(&(a.id().to_bytes(), k.clone()))
                        .filter(|e| include_empty || e.hash != Hash::EMPTY)
                        .map(|e| (a.id().to_bytes(), k.clone(), e.ts, e.hash, e.len));
                    if got != want {
                        return Ok(Some(format!(
                            "get_exact {k:?} include_empty={include_empty}: got {got:?} want {want:?}"
                        )));
                    }
                }
            }
        }
        // heads
        let got: Vec<([u8; 32], u64, Vec<u8>)> = store
            .get_latest_for_each_author(ns)?
            .map(|r| r.map(|(a, t, k)| (a.to_bytes(), t, k)))
            .collect::<Result<_>>()?;
        let want = doc.heads();
        if got != want {
            return Ok(Some(format!("heads of {ns}: got {got:?} want {want:?}")));
        }
        // has_news_for_us
        for variant in 0..4 {
            let mut theirs = AuthorHeads::default();
            let mut expect = 0u64;
            for (i, a) in w.authors.iter().enumerate() {
                let ours = want.iter().find(|h| h.0 == a.id().to_bytes()).map(|h| h.1);
                let t = match (variant + i) % 4 {
                    0 => continue,
                    1 => ours.unwrap_or(5),
                    2 => ours.unwrap_or(5) + 1,
                    _ => ours.unwrap_or(5).saturating_sub(1),
                };
                theirs.insert(a.id(), t);
                if ours.map(|o| t > o).unwrap_or(true) {
                    expect += 1;
                }
            }
            let got = store.has_news_for_us(ns, &theirs)?.map(|n| n.get()).unwrap_or(0);
            if got != expect {
                return Ok(Some(format!(
                    "has_news_for_us {theirs:?} on {ns}: got {got} want {expect}"
                )));
            }
        }
        // policy
        let got = store.get_download_policy(&ns)?;
        let want = doc.policy.clone().unwrap_or_default();
        if got != want {
            return Ok(Some(format!("policy of {ns}: got {got:?} want {want:?}")));
        }
        // peers
        let got: Vec<[u8; 32]> = store
            .get_sync_peers(&ns)?
            .map(|i| i.collect())
            .unwrap_or_default();
        if got != doc.peers {
            return Ok(Some(format!(
                "peers of {ns}: got {got:?} want {:?}",
                doc.peers
            )));
        }
    }
    Ok(None)
}

fn strip(path: &Path, latest: bool, by_key: bool) -> Result<()> {
    let db = redb::Database::create(path)?;
    let tx = db.begin_write()?;
    if latest {
        tx.delete_table(LATEST)?;
    }
    if by_key {
        tx.delete_table(BY_KEY)?;
    }
    tx.commit()?;
    Ok(())
}

/// Rewrite the database the way iroh-docs 0.94..=0.98 (redb 2.x tuple encoding) stored it.
fn to_legacy(path: &Path) -> Result<()> {
    use redb::{ReadableDatabase, ReadableMultimapTable, ReadableTable};
    use redb_v3::Legacy;
    type RK<'a> = (&'a [u8; 32], &'a [u8; 32], &'a [u8]);
    type RV<'a> = (u64, &'a [u8; 64], &'a [u8; 64], u64, &'a [u8; 32]);
    type BK<'a> = (&'a [u8; 32], &'a [u8], &'a [u8; 32]);
    const RECORDS: redb::TableDefinition<RK, RV> = redb::TableDefinition::new("records-1");
    const AUTHORS: redb::TableDefinition<&[u8; 32], &[u8; 32]> =
        redb::TableDefinition::new("authors-1");
    const NAMESPACES: redb::TableDefinition<&[u8; 32], (u8, &[u8; 32])> =
        redb::TableDefinition::new("namespaces-2");
    const PEERS: redb::MultimapTableDefinition<&[u8; 32], (u64, &[u8; 32])> =
        redb::MultimapTableDefinition::new("sync-peers-1");
    const POLICY: redb::TableDefinition<&[u8; 32], &[u8]> =
        redb::TableDefinition::new("download-policy-1");
    const O_RECORDS: redb_v3::TableDefinition<Legacy<RK>, RV> =
        redb_v3::TableDefinition::new("records-1");
    const O_LATEST: redb_v3::TableDefinition<(&[u8; 32], &[u8; 32]), Legacy<(u64, &[u8])>> =
        redb_v3::TableDefinition::new("latest-by-author-1");
    const O_BY_KEY: redb_v3::TableDefinition<Legacy<BK>, ()> =
        redb_v3::TableDefinition::new("records-by-key-1");
    const O_AUTHORS: redb_v3::TableDefinition<&[u8; 32], &[u8; 32]> =
        redb_v3::TableDefinition::new("authors-1");
    const O_NAMESPACES: redb_v3::TableDefinition<&[u8; 32], (u8, &[u8; 32])> =
        redb_v3::TableDefinition::new("namespaces-2");
    const O_PEERS: redb_v3::MultimapTableDefinition<&[u8; 32], (u64, &[u8; 32])> =
        redb_v3::MultimapTableDefinition::new("sync-peers-1");
    const O_POLICY: redb_v3::TableDefinition<&[u8; 32], &[u8]> =
        redb_v3::TableDefinition::new("download-policy-1");

    let tmp = path.with_extension("legacy");
    {
        let src = redb::Database::create(path)?;
        let rtx = src.begin_read()?;
        let dst = redb_v3::Database::create(&tmp)?;
        let wtx = dst.begin_write()?;
        {
            let t = rtx.open_table(RECORDS)?;
            let mut o = wtx.open_table(O_RECORDS)?;
            for r in t.iter()? {
                let (k, v) = r?;
                o.insert(k.value(), v.value())?;
            }
            let t = rtx.open_table(LATEST)?;
            let mut o = wtx.open_table(O_LATEST)?;
            for r in t.iter()? {
                let (k, v) = r?;
                o.insert(k.value(), v.value())?;
            }
            let t = rtx.open_table(BY_KEY)?;
            let mut o = wtx.open_table(O_BY_KEY)?;
            for r in t.iter()? {
                let (k, v) = r?;
                o.insert(k.value(), v.value())?;
            }
            let t = rtx.open_table(AUTHORS)?;
            let mut o = wtx.open_table(O_AUTHORS)?;
            for r in t.iter()? {
                let (k, v) = r?;
                o.insert(k.value(), v.value())?;
            }
            let t = rtx.open_table(NAMESPACES)?;
            let mut o = wtx.open_table(O_NAMESPACES)?;
            for r in t.iter()? {
                let (k, v) = r?;
                o.insert(k.value(), v.value())?;
            }
            let t = rtx.open_table(POLICY)?;
            let mut o = wtx.open_table(O_POLICY)?;
            for r in t.iter()? {
                let (k, v) = r?;
                o.insert(k.value(), v.value())?;
            }
            let t = rtx.open_multimap_table(PEERS)?;
            let mut o = wtx.open_multimap_table(O_PEERS)?;
            for r in t.iter()? {
                let (k, vs) = r?;
                for v in vs {
                    o.insert(k.value(), v?.value())?;
                }
            }
        }
        wtx.commit()?;
    }
    std::fs::rename(&tmp, path)?;
    Ok(())
}

fn random_policy(rng: &mut Rng, w: &World) -> DownloadPolicy {
    let n = rng.below(4);
    let filters: Vec<FilterKind> = (0..n)
        .map(|_| {
            let k = Bytes::from(rng.pick(&w.keys).clone());
            if rng.below(2) == 0 {
                FilterKind::Prefix(k)
            } else {
                FilterKind::Exact(k)
            }
        })
        .collect();
    if rng.below(2) == 0 {
        DownloadPolicy::NothingExcept(filters)
    } else {
        DownloadPolicy::EverythingExcept(filters)
    }
}

async fn apply_op(
    store: &mut Store,
    model: &mut Model,
    w: &World,
    rng: &mut Rng,
    log: &mut Vec<String>,
) -> Result<Option<String>> {
    let secret = rng.pick(&w.secrets).clone();
    let ns = secret.id();
    let nsb = ns.to_bytes();
    let author = rng.pick(&w.authors).clone();
    let ab = author.id().to_bytes();
    let key = rng.pick(&w.keys).clone();
    match rng.below(16) {
        0 | 1 => {
            let write = rng.below(2) == 0;
            log.push(format!("import_namespace {ns} write={write}"));
            let cap = if write {
                Capability::Write(secret.clone())
            } else {
                Capability::Read(ns)
            };
            store.import_namespace(cap)?;
            let d = model.docs.entry(nsb).or_default();
            d.write = d.write || write;
        }
        2..=6 => {
            // signed entry with a chosen timestamp, as received from a peer
            let ts = if w.keys.len() > 100 {
                100 + rng.below(60)
            } else {
                *rng.pick(&[100u64, 100, 101, 102, 103, 104])
            };
            let empty = rng.below(4) == 0;
            let data = *rng.pick(&[b"a", b"b", b"c"]);
            let record = if empty {
                Record::empty(ts)
            } else {
                Record::new(Hash::new(data), 1, ts)
            };
            log.push(format!(
                "remote put {ns} author={} key={key:?} ts={ts} empty={empty} data={data:?}",
                author.id()
            ));
            let id = RecordIdentifier::new(ns, author.id(), &key);
            let entry = SignedEntry::from_entry(Entry::new(id, record.clone()), &secret, &author);
            let exists = model.docs.contains_key(&nsb);
            match store.open_replica(&ns) {
                Ok(mut replica) => {
                    let res = replica
                        .insert_remote_entry(entry, [9u8; 32], ContentStatus::Missing)
                        .await;
                    drop(replica);
                    store.close_replica(ns);
                    if !exists {
                        return Ok(Some("opened a missing doc".into()));
                    }
                    let inserted = model.docs.get_mut(&nsb).unwrap().put(
                        ab,
                        &key,
                        MEntry {
                            ts,
                            hash: record.content_hash(),
                            len: record.content_len(),
                        },
                    );
                    if inserted != res.is_ok() {
                        return Ok(Some(format!(
                            "put outcome {res:?}, model says inserted={inserted}"
                        )));
                    }
                }
                Err(_) => {
                    if exists {
                        return Ok(Some("could not open existing doc".into()));
                    }
                }
            }
        }
        7 => {
            // local insert or delete
            let del = rng.below(3) == 0;
            log.push(format!(
                "local {} {ns} author={} key={key:?}",
                if del { "delete_prefix" } else { "insert" },
                author.id()
            ));
            if !model.docs.contains_key(&nsb) {
                return Ok(None);
            }
            store.import_author(author.clone())?;
            model.authors.insert(ab, ());
            let doc = model.docs.get_mut(&nsb).unwrap();
            let mut replica = store.open_replica(&ns)?;
            let res = if del {
                replica.delete_prefix(&key, &author).await.map(|_| ())
            } else {
                replica
                    .hash_and_insert(&key, &author, b"local")
                    .await
                    .map(|_| ())
            };
            drop(replica);
            store.close_replica(ns);
            if !doc.write {
                if res.is_ok() {
                    return Ok(Some("local write on a read-only replica succeeded".into()));
                }
            } else if res.is_ok() {
                let e = store
                    .get_exact(ns, author.id(), &key, true)?
                    .expect("entry just written");
                let ok = doc.put(
                    ab,
                    &key,
                    MEntry {
                        ts: e.timestamp(),
                        hash: e.content_hash(),
                        len: e.content_len(),
                    },
                );
                if !ok {
                    return Ok(Some("local write accepted, model refuses".into()));
                }
                if del != (e.content_hash() == Hash::EMPTY) {
                    return Ok(Some("local write has the wrong kind".into()));
                }
            } else {
                return Ok(Some(format!("local write on a write replica failed: {res:?}")));
            }
        }
        8 | 9 => {
            let policy = random_policy(rng, w);
            log.push(format!("set_download_policy {ns} {policy:?}"));
            let res = store.set_download_policy(&ns, policy.clone());
            match model.docs.get_mut(&nsb) {
                Some(d) => {
                    res?;
                    d.policy = Some(policy);
                }
                None => {
                    if res.is_ok() {
                        return Ok(Some("policy set on a missing doc".into()));
                    }
                }
            }
        }
        10..=12 => {
            let peer = *rng.pick(&w.peers);
            log.push(format!("register_useful_peer {ns} {}", peer[0]));
            let res = store.register_useful_peer(ns, peer);
            match model.docs.get_mut(&nsb) {
                Some(d) => {
                    res?;
                    d.peers.retain(|p| *p != peer);
                    d.peers.insert(0, peer);
                    d.peers.truncate(5);
                }
                None => {
                    if res.is_ok() {
                        return Ok(Some("peer registered on a missing doc".into()));
                    }
                }
            }
        }
        13 => {
            log.push(format!("remove_replica {ns}"));
            store.remove_replica(&ns)?;
            model.docs.remove(&nsb);
        }
        14 => {
            log.push(format!("import_author {}", author.id()));
            store.import_author(author.clone())?;
            model.authors.insert(ab, ());
        }
        _ => {
            log.push(format!("delete_author {}", author.id()));
            store.delete_author(author.id())?;
            model.authors.remove(&ab);
        }
    }
    Ok(None)
}

async fn run_seed(seed: u64, steps: usize) -> Result<Option<String>> {
    let dir = tempfile::tempdir()?;
    let path = dir.path().join("docs.db");
    let w = World::new();
    let mut rng = Rng(seed);
    let mut model = Model::default();
    let mut log = vec![];
    let mut store = Store::persistent(&path)?;
    // states at operation boundaries since the last known commit
    let mut boundaries = vec![model.clone()];
    let fail = |log: &Vec<String>, msg: String| {
        Ok(Some(format!(
            "seed {seed}: {msg}\nhistory:\n  {}",
            log.join("\n  ")
        )))
    };
    let burst: usize = std::env::var("AU30_BURST")
        .ok()
        .and_then(|s| s.parse().ok())
        .unwrap_or(1);
    for _step in 0..steps {
        for _ in 0..burst {
            if let Some(msg) = apply_op(&mut store, &mut model, &w, &mut rng, &mut log).await? {
                return fail(&log, msg);
            }
            boundaries.push(model.clone());
        }
        match rng.below(8) {
            0 | 1 => {
                // crash image: must be one of the boundary states
                log.push("crash image".into());
                let copy = dir.path().join("crash.db");
                std::fs::copy(&path, &copy)?;
                let mut crashed = match Store::persistent(&copy) {
                    Ok(s) => s,
                    Err(err) => return fail(&log, format!("crash image does not open: {err:?}")),
                };
                let mut last = None;
                let mut ok = false;
                for b in boundaries.iter().rev() {
                    match check(&mut crashed, b, &w, &mut Rng(1))? {
                        None => {
                            ok = true;
                            break;
                        }
                        Some(msg) => last = last.or(Some(msg)),
                    }
                }
                drop(crashed);
                std::fs::remove_file(&copy)?;
                if !ok {
                    return fail(
                        &log,
                        format!("crash image matches no boundary state; vs latest: {last:?}"),
                    );
                }
            }
            2 | 3 => {
                log.push("reopen".into());
                drop(store);
                store = Store::persistent(&path)?;
                boundaries = vec![model.clone()];
            }
            4 => {
                let (l, k) = match rng.below(3) {
                    0 => (true, false),
                    1 => (false, true),
                    _ => (true, true),
                };
                log.push(format!("reopen as old format: drop latest={l} by_key={k}"));
                drop(store);
                strip(&path, l, k)?;
                store = Store::persistent(&path)?;
                boundaries = vec![model.clone()];
            }
            7 if rng.below(2) == 0 => {
                log.push("reopen as redb 2.x tuple format".into());
                drop(store);
                to_legacy(&path)?;
                store = Store::persistent(&path)?;
                let backup = dir.path().join("docs.db.backup-redb-v2-tuples");
                assert!(backup.exists(), "legacy migration did not run");
                std::fs::remove_file(backup)?;
                boundaries = vec![model.clone()];
            }
            5 => {
                log.push("flush".into());
                store.flush()?;
                boundaries = vec![model.clone()];
            }
            6 => {
                // several operations inside one transaction, optionally letting it get older
                // than the automatic commit delay
                if std::env::var("AU30_SLEEP").is_ok() && rng.below(2) == 0 {
                    log.push("sleep 600ms".into());
                    std::thread::sleep(std::time::Duration::from_millis(600));
                }
                continue;
            }
            _ => {}
        }
        if let Some(msg) = check(&mut store, &model, &w, &mut rng)? {
            return fail(&log, msg);
        }
        // the checks read through snapshots, which commit
        boundaries = vec![model.clone()];
    }
    Ok(None)
}

#[tokio::test]
async fn explore_persistence() -> Result<()> {
    let seeds: u64 = std::env::var("AU30_SEEDS")
        .ok()
        .and_then(|s| s.parse().ok())
        .unwrap_or(30);
    let start: u64 = std::env::var("AU30_START")
        .ok()
        .and_then(|s| s.parse().ok())
        .unwrap_or(0);
    let steps: usize = std::env::var("AU30_STEPS")
        .ok()
        .and_then(|s| s.parse().ok())
        .unwrap_or(60);
    for seed in start..start + seeds {
        if let Some(msg) = run_seed(seed, steps).await? {
            panic!("{msg}");
        }
    }
    Ok(())
}

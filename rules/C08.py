"""C08 — reconciliation behaves the same on the redb store as on a plain ordered map."""
import re
from . import mir, tables
from .mir import trace, origin_summary, callee_matches
from .common import find_calls, one_call, call_outcomes, leaves
from . import paths as P
from . import C02

EXPLANATION = (
    'Decides structural necessary conditions of C08 from MIR: (R1) the records key is the tuple (namespace[32], author[32],'
    ' key) in that order, RecordIdentifier is namespace||author||key (constructor append order, accessor ranges) and '
    "into_entry / entry_put / to_byte_tuple map component i to component i (and the value tuple's fields to the right "
    'Record / signature fields); (R2) StoreInstance::get_range evaluated per cmp(x,y) (table scans opened, their bounds, '
    'chaining order): every bound derived from range.x() is Included and every bound derived from range.y() is Excluded, '
    'the Less arm scans [x,y), the Greater (wrap-around) arm chains [start,y) before [x,end), the Equal arm scans the '
    'namespace bounds; (R3) get_fingerprint starts from Fingerprint::empty(), scans get_range of the same range and folds '
    'with xor of as_fingerprint; get_first scans the namespace bounds and falls back to RecordIdentifier::default(); (R4) '
    'the prefix primitives (shared with C02.R3/R4). NOT decided: transcript equality as a relation between two executions.'
)
ASSUMPTIONS = ["redb tuple key order equals component-wise byte order", "blake3 / xor fingerprint algebra trusted"]

SI = "<store::fs::StoreInstance<'a> as ranger::Store<sync::SignedEntry>>::"


def _fields(body, op, **kw):
    out = set()
    for o in trace(body, op, **kw):
        base = o.data[1] if o.kind == "arg" else (o.data if o.kind == "upvar" else origin_summary(o))
        fl = mir.field_path(o)
        out.add("%s%s" % (base, ("." + ".".join(fl)) if fl else ""))
    return out


def _const_defs(body, op, depth=0):
    """named constants passed to the calls that produce this operand (walking back through calls)"""
    out = set()
    if depth > 6:
        return out
    for o in trace(body, op, through_calls=False):
        if o.kind == "call":
            for a in o.data["a"]:
                if a[0] == "const":
                    if "def" in a[1]:
                        out.add(a[1]["def"].split("::")[-1])
                else:
                    out |= _const_defs(body, a, depth + 1)
        elif o.kind == "const" and "def" in o.data:
            out.add(o.data["def"].split("::")[-1])
    return out


def id_oracle(f, L):
    """oracle modelling a RecordIdentifier whose bytes are the opaque buffer `id` of length L (slices are named
    id[a..b]; an out-of-range index diverges), plus the constructors of the entry types. Returns (oracle, state)."""
    from . import feval as E, coll
    from .C09 import _rng
    state = {"inline_ctor": True}

    def label_args(t, names):
        """callee(param=value, ...) with the callee's own parameter names"""
        cp = [p for p in mir.callee_paths(t) if p in f.bodies]
        if not cp:
            return None
        cb = f.bodies[cp[0]]
        return "%s(%s)" % (cp[0].split("::")[-1], ",".join("%s=%s" % (cb.local_name(i + 1) or i, n) for i, n in enumerate(names)))

    def oracle(kind, name, payload, site):
        if kind != "call":
            return None
        t, args, it = payload
        names = [it.tokname(a) for a in args]
        full = (t["f"].get("full") or "") + (t["f"].get("path") or "")
        import re as _re
        m0 = _re.fullmatch(r"id\[(\d+)\.\.(\d+)\]", names[0]) if names else None
        if name in ("with_capacity", "new") and "BytesMut" in full:
            return coll.seq("vec", [])
        if name == "extend_from_slice" and coll.is_seq(it.deref_val(args[0])):
            d = it.deref_val(args[0])
            it.write_loc(args[0][1], coll.seq("vec", d[2] + [E.Tok(names[1])]))
            return E.UNIT
        if name == "freeze" and coll.is_seq(it.deref_val(args[0])):
            return it.deref_val(args[0])
        if name in ("index", "slice", "get") and names and (names[0] == "id" or m0) and len(args) == 2:
            base, blen = (0, L) if names[0] == "id" else (int(m0.group(1)), int(m0.group(2)) - int(m0.group(1)))
            r = _rng(E, it, args[1], blen)
            if r is None or r[0] is None or r[1] is None:
                raise E.Unsupported("slice of the id with an undetermined range")
            if not (r[0] <= r[1] <= blen):
                return E.DIVERGE if name != "get" else E.NONE
            tok = E.Tok("id[%d..%d]" % (base + r[0], base + r[1]))
            return E.Some(tok) if name == "get" else tok
        if name in ("try_into", "try_from") and m0:
            return E.Ok(args[0]) if int(m0.group(2)) - int(m0.group(1)) == 32 else E.Err(E.Tok("wrong-length"))
        if name in ("len",) and names and names[0] == "id":
            return E.Int(L)
        if name in ("deref", "as_ref", "as_bytes", "into", "from", "clone", "borrow", "as_slice", "to_bytes", "copy_from_slice") and len(args) == 1:
            return args[0]
        if name == "len":
            return E.Tok("len(%s)" % names[0])
        if callee_matches(t, r"sync::(RecordIdentifier|Record|Entry|SignedEntry|EntrySignature)::(new|from_parts)$") and not state["inline_ctor"]:
            la = label_args(t, names)
            if la:
                return E.Tok(la)
        if name == "from_bytes" and "Signature" in full:
            return E.Tok("signature(%s)" % names[0])
        return None
    return oracle, state


def r1(ctx):
    f = ctx.facts
    al = f.aliases.get("store::fs::tables::RecordsId")
    if not al:
        raise mir.AnchorMissing("type alias store::fs::tables::RecordsId not found")
    shape = tables.norm(al["ty"])
    ctx.check(shape == "(&[u8; 32], &[u8; 32], &[u8])", "C08.R1", "store::fs::tables::RecordsId", "key-shape", "records key type = %s" % shape, None)
    # ---- the id layout, evaluated (K6'): constructor, accessors, row <-> entry maps
    from . import feval as E, coll
    from .C09 import _rng
    RI = "sync::RecordIdentifier"
    L = 70     # an id of 70 bytes: 32 + 32 + 6
    oracle, state = id_oracle(f, L)

    n = f.body(RI + "::new")
    ctx.touch(n)
    try:
        ret, it_ = E.run_it(f, n.path, [E.Tok("namespace"), E.Tok("author"), E.Tok("key")], {}, oracle)
        got = E.describe(it_.resolve(ret), f)
    except E.Unsupported as ex:
        got = "UNSUPPORTED-FORM: %s" % ex
    ctx.check(got == "RecordIdentifier([namespace,author,key])", "C08.R1", n.path, "append-order", "RecordIdentifier::new(namespace, author, key) = %s (spec: the bytes of namespace, author, key in this order)" % got, n.sp)
    want = {"as_byte_tuple": "(id[0..32],id[32..64],id[64..70])", "to_byte_tuple": "(id[0..32],id[32..64],id[64..70])", "namespace": "id[0..32]", "author": "id[32..64]", "key": "id[64..70]", "key_bytes": "id[64..70]"}
    for acc, w in want.items():
        b = f.body(RI + "::" + acc)
        ctx.touch(*f.scope(b.path, prefix="sync::"))
        try:
            ret, it_ = E.run_it(f, b.path, [E.href("self")], {"self": E.struct(f, RI, **{"0": E.Tok("id")})}, oracle)
            got = "PANIC" if (ret is not None and ret[0] == "diverge") else E.describe(it_.resolve(ret), f)
        except E.Unsupported as ex:
            got = "UNSUPPORTED-FORM: %s" % ex
        ctx.check(got == w, "C08.R1", b.path, "component-range", "%s() of a 70-byte id = %s (spec %s: namespace = bytes 0..32, author = 32..64, key = the rest)" % (acc, got, w), b.sp)
    # into_entry: row -> entry
    state["inline_ctor"] = False
    ie = f.body("store::fs::into_entry")
    ctx.touch(ie)
    key = ("tuple", [E.Tok("k.namespace"), E.Tok("k.author"), E.Tok("k.key")])
    val = ("tuple", [E.Tok("v.timestamp"), E.Tok("v.namespace_sig"), E.Tok("v.author_sig"), E.Tok("v.len"), E.Tok("v.hash")])
    try:
        ret, it_ = E.run_it(f, ie.path, [key, val], {}, oracle)
        got = E.describe(it_.resolve(ret), f)
    except E.Unsupported as ex:
        got = "UNSUPPORTED-FORM: %s" % ex
    need = ["new(namespace=k.namespace,author=k.author,key=k.key)", "hash=v.hash", "len=v.len", "timestamp=v.timestamp", "namespace_sig=v.namespace_sig", "author_sig=v.author_sig"]
    ctx.check(all(x in got for x in need), "C08.R1", ie.path, "row-to-entry-map", "into_entry(key, value) = %s; spec: id from the key components in order, record (hash, len, timestamp) and the two signatures from their own value fields" % got, ie.sp)
    state["inline_ctor"] = True
    fp = f.body("sync::EntrySignature::from_parts")
    ctx.touch(fp)
    try:
        ret, it_ = E.run_it(f, fp.path, [E.href("ns"), E.href("au")], {"ns": E.Tok("namespace_sig"), "au": E.Tok("author_sig")}, oracle)
        rv = it_.resolve(ret)
        got = (E.describe(E.field(f, rv, "sync::EntrySignature", "namespace_signature"), f), E.describe(E.field(f, rv, "sync::EntrySignature", "author_signature"), f))
    except E.Unsupported as ex:
        got = ("UNSUPPORTED-FORM: %s" % ex, None)
    ctx.check(got == ("signature(namespace_sig)", "signature(author_sig)"), "C08.R1", fp.path, "signature-fields-not-swapped", "(namespace_signature, author_signature) = %s" % (got,), fp.sp)
    # entry_put: entry -> row (value order timestamp, namespace sig, author sig, len, hash), from the evaluated transaction
    from . import C18
    got, log = C18.eval_entry_put(f, None)
    rec = [x for x in log if x[0] == "records" and x[1] == "insert"]
    okv = False
    if len(rec) == 1 and rec[0][3]:
        comps = [c.strip() for c in rec[0][3].strip("()").split(",")]
        okv = len(comps) == 5 and "timestamp" in comps[0] and "namespace(signature" in comps[1] and "author(signature" in comps[2] and "content_len" in comps[3] and "content_hash" in comps[4]
    ep = f.body(SI + "entry_put")
    ctx.touch(ep)
    ctx.check(okv, "C08.R1", ep.path, "value=(timestamp,ns_sig,author_sig,len,hash)", "records row written by entry_put: %s" % (rec,), ep.sp)
    ctx.floor("C08.R1", 11)


def eval_get_range(f, order, has_successor=1):
    """StoreInstance::get_range evaluated (K6'): returns (rendered result, [bounds of each table scan in order of creation])"""
    from . import feval as E
    inl = [x.path for x in f.bodies.values() if x.path.startswith("store::fs::bounds::") and not x.path.endswith("increment_by_one")]
    scans = []

    def oracle(kind, name, payload, site):
        if kind == "cmp":
            a, b = name, payload
            if a == "x(range)" and b == "y(range)":
                return order
            if a == "y(range)" and b == "x(range)":
                return -order
            return None
        if kind != "call":
            return None
        t, args, it = payload
        names = [it.tokname(a) for a in args]
        if name == "tables":
            return E.Ok(E.Tok("tables"))
        if name == "range" and "Table" in (t["f"].get("full") or "") + (t["f"].get("path") or ""):
            scans.append((names[0], names[1]))
            return E.Ok(E.Tok("scan%d" % len(scans)))
        if name == "to_byte_tuple":
            return E.Tok("tuple(%s)" % names[0])
        if name == "increment_by_one":
            if args[0][0] == "ref":
                it.write_loc(args[0][1], E.Tok("succ(%s)" % names[0]))
            return E.Int(has_successor)
        if name in ("to_bytes", "as_bytes"):
            return E.Tok("bytes(%s)" % names[0])
        if name == "new" and callee_matches(t, r"Bytes::new"):
            return E.Tok("empty")
        if name in ("into_iter", "flatten"):
            return args[0]
        if name == "chain":
            return E.Tok("chain(%s,%s)" % (names[0], names[1]))
        return None
    try:
        ret, hp, ev = E.run(f, SI + "get_range", [E.href("self"), E.Tok("range")], {"self": E.Tok("self")}, oracle, inline=inl)
        return E.describe(ret, f), scans
    except E.Unsupported as e:
        return "UNSUPPORTED-FORM: %s" % e, scans


def r2(ctx):
    """get_range as a function of cmp(range.x, range.y): which table scans are opened, with which bounds, chained in which order"""
    import re as _re
    f = ctx.facts
    b = f.body(SI + "get_range")
    ctx.touch(b)
    for bb in ("store::fs::bounds::RecordsBounds::from_start", "store::fs::bounds::RecordsBounds::to_end", "store::fs::bounds::RecordsBounds::namespace", "store::fs::bounds::RecordsBounds::new"):
        ctx.touch(f.body(bb))
    NS0 = "(bytes(self.namespace),[0; _],empty)"
    X, Y = "tuple(x(range))", "tuple(y(range))"
    for succ in (1, 0):
        NSE = "Excluded((succ(bytes(self.namespace)),[0; _],empty))" if succ else "Unbounded"
        spec = {
            -1: [("RecordsBounds(Included(%s),Excluded(%s))" % (X, Y))],
            0: [("RecordsBounds(Included(%s),%s)" % (NS0, NSE))],
            1: [("RecordsBounds(Included(%s),Excluded(%s))" % (NS0, Y)), ("RecordsBounds(Included(%s),%s)" % (X, NSE))],
        }
        for order, nm in ((-1, "Less"), (0, "Equal"), (1, "Greater")):
            got, scans = eval_get_range(f, order, succ)
            want = spec[order]
            bounds = [s[1] for s in scans]
            ok = got.startswith("Ok(") and sorted(bounds) == sorted(want) and all(s[0] == "tables.records" for s in scans)
            if ok:
                # order of the scans in the returned iterator: exactly the scans opened, the [start,y) part before the [x,end) part
                ids = _re.findall(r"scan(\d+)", got)
                seq = [bounds[int(i) - 1] for i in ids]
                ok = seq == want
            label = {"Less": "Less=[x,y)", "Equal": "Equal=whole-namespace", "Greater": "Greater=[start,y)++[x,end)"}[nm]
            ctx.check(ok, "C08.R2", b.path, "%s%s" % (label, "" if succ else "[namespace-without-successor]"),
                      "cmp(x,y)=%s: returns %s over scans %s; spec: scans with bounds %s in this order, on the records table" % (nm, got, scans, want), b.sp)
    ctx.floor("C08.R2", 6)


def r3(ctx):
    from . import feval as E
    f = ctx.facts
    b = f.body(SI + "get_fingerprint")
    ctx.touch(b)
    # get_fingerprint evaluated (K6') on element sequences of the range scan: the xor-fold of every element's fingerprint from empty()
    for items in ((), ("el0",), ("el0", "el1", "el2"), ("el0", "err", "el2")):
        st = {"i": 0, "ranges": []}

        def xor(acc, x):
            return E.Tok("xor(%s,%s)" % (acc, x))

        def oracle(kind, name, payload, site, items=items, st=st):
            if kind != "call":
                return None
            t, args, it = payload
            names = [it.tokname(a) for a in args]
            if name == "get_range":
                st["ranges"].append(names[1:])
                return E.Ok(E.Tok("elements"))
            if name == "into_iter":
                return args[0]
            if name == "next" and names and names[0] == "elements":
                i = st["i"]
                st["i"] += 1
                if i >= len(items):
                    return E.NONE
                return E.Some(E.Err(E.Tok("storage-error"))) if items[i] == "err" else E.Some(E.Ok(E.Tok(items[i])))
            if name in ("try_fold", "fold") and names and names[0] == "elements":
                acc = args[1]
                for x in items[st["i"]:]:
                    st["i"] += 1
                    item = E.Err(E.Tok("storage-error")) if x == "err" else E.Ok(E.Tok(x))
                    r = it.apply(args[2], [acc, item])
                    if name == "fold":
                        acc = r
                        continue
                    rd = it.deref_val(r)
                    if rd is not None and rd[0] == "adt" and rd[1] in (E.RESULT,) and rd[2] == 0:
                        acc = rd[3].get(0, E.TOP)
                    elif rd is not None and rd[0] == "adt" and rd[1] == E.CFLOW and rd[2] == 0:
                        acc = rd[3].get(0, E.TOP)
                    else:
                        return r
                return E.Ok(acc) if name == "try_fold" else acc
            if callee_matches(t, r"ranger::Fingerprint::empty$"):
                return E.Tok("EMPTY")
            if name == "as_fingerprint":
                return E.Tok("fp(%s)" % names[0])
            if name == "bitxor_assign":
                if args[0][0] == "ref":
                    it.write_loc(args[0][1], xor(names[0], names[1]))
                return E.UNIT
            if name == "bitxor":
                return xor(names[0], names[1])
            return None
        try:
            ret, hp, ev = E.run(f, b.path, [E.href("self"), E.href("range")], {"self": E.Tok("self"), "range": E.Tok("range")}, oracle)
            got = E.describe(ret, f)
        except E.Unsupported as e:
            got = "UNSUPPORTED-FORM: %s" % e
        if "err" in items:
            want = "Err(storage-error)"
        else:
            acc = "EMPTY"
            for x in items:
                acc = "xor(%s,fp(%s))" % (acc, x)
            want = "Ok(%s)" % acc
        okr = st["ranges"] == [["range"]]
        ctx.check((got == want or (want.startswith("Err") and got.startswith("Err"))) and okr, "C08.R3", b.path, "fp=xor-fold-over-get_range(range)[%s]" % ("+".join(items) or "empty"),
                  "returns %s over get_range%s; spec %s (every element of the same range folded once, from Fingerprint::empty(); a storage error is reported)" % (got, st["ranges"], want), b.sp)
    fx = f.body("<ranger::Fingerprint as std::ops::BitXorAssign>::bitxor_assign")
    ctx.touch(*f.family(fx.path))
    # evaluated on two concrete 32-byte values: the result must be their bytewise xor (loop, zip or for_each alike)
    from . import coll
    C = coll.Collections(f)
    A = [(7 * i + 3) & 0xFF for i in range(32)]
    B = [(29 * i + 101) & 0xFF for i in range(32)]
    heap = {"self": E.struct(f, "ranger::Fingerprint", **{"0": coll.seq("vec", [E.Int(v) for v in A])}), "rhs": E.struct(f, "ranger::Fingerprint", **{"0": coll.seq("vec", [E.Int(v) for v in B])})}
    try:
        rhs_arg = E.href("rhs") if fx.locals[2]["ty"].startswith("&") else heap["rhs"]
        ret, itp = E.run_it(f, fx.path, [E.href("self"), rhs_arg], heap, lambda k, n, p_, s_: C.handle(k, n, p_, s_))
        res = E.field(f, itp.heap["self"], "ranger::Fingerprint", "0")
        gotx = [itp.resolve(v)[1] if E.is_int(itp.resolve(v)) else None for v in res[2]] if coll.is_seq(res) else None
        detx = "self.0 after `self ^= rhs` on two sample values: %s" % ("the bytewise xor" if gotx == [a ^ b for a, b in zip(A, B)] else gotx)
        okx = gotx == [a ^ b for a, b in zip(A, B)]
    except E.Unsupported as e:
        okx, detx = False, "UNSUPPORTED-FORM: %s" % e
    ctx.check(okx, "C08.R3", fx.path, "is-bytewise-xor", detx, fx.sp)
    fe = f.body("ranger::Fingerprint::empty")
    ctx.touch(fe)
    g = f.body(SI + "get_first")
    ctx.touch(g)
    from . import feval as E
    rows = {}
    for scen in ("empty", "row", "error"):
        seen = {}

        def oracle(kind, name, payload, site, scen=scen, seen=seen):
            if kind != "call":
                return None
            t, args, it = payload
            names = [it.tokname(a) for a in args]
            if name == "tables":
                return E.Ok(E.Tok("tables"))
            if name == "namespace" and callee_matches(t, r"RecordsBounds::namespace"):
                seen["bounds"] = names
                return E.Tok("namespace_bounds(%s)" % ",".join(names))
            if name == "range":
                seen["range"] = names
                return E.Ok(E.Tok("iter"))
            if name == "next":
                seen["next"] = seen.get("next", 0) + 1
                if scen == "empty" or seen["next"] > 1:
                    return E.NONE
                if scen == "error":
                    return E.Some(E.Err(E.Tok("storage-error")))
                return E.Some(E.Ok(("tuple", [E.Tok("key_guard"), E.Tok("value_guard")])))
            if name == "value" and names == ["key_guard"]:
                return ("tuple", [E.Tok("k.namespace"), E.Tok("k.author"), E.Tok("k.key")])
            if callee_matches(t, r"sync::RecordIdentifier::new"):
                return E.Tok("RecordIdentifier::new(%s)" % ",".join(names))
            if name == "default":
                return E.Tok("RecordIdentifier::default()")
            return None
        try:
            ret, hp, ev = E.run(f, g.path, [E.href("self")], {"self": E.Tok("self")}, oracle)
            rows[scen] = (E.describe(ret, f), seen.get("bounds"), seen.get("range"))
        except E.Unsupported as e:
            rows[scen] = ("UNSUPPORTED-FORM: %s" % e, None, None)
    want_b = ["self.namespace"]
    okf = rows["empty"][0] == "Ok(RecordIdentifier::default())" and rows["row"][0] == "Ok(RecordIdentifier::new(k.namespace,k.author,k.key))" \
        and rows["error"][0].startswith("Err(") and all(r[1] == want_b and r[2] is not None and any("namespace_bounds(self.namespace)" in x for x in r[2]) for r in rows.values())
    ctx.check(okf, "C08.R3", g.path, "first-key-or-default",
              "by first row of the namespace scan (result, bounds of, range args): %s; spec: empty => default id, row => its (namespace, author, key) in order, error => Err" % rows, g.sp)
    ctx.floor("C08.R3", 5)


def r4(ctx):
    sub = type(ctx)(ctx.prop, ctx.tier, ctx.facts, ctx.cfg)
    C02.r2(sub)
    C02.r3(sub)
    C02.r4(sub)
    for o in sub.obligations:
        o = dict(o)
        o["key"] = o["key"].replace("C02.R2a", "C08.R4").replace("C02.R2b", "C08.R4").replace("C02.R3", "C08.R4").replace("C02.R4", "C08.R4")
        o["rule"] = "C08.R4"
        ctx.obligations.append(o)
        if o["status"] != "holds":
            ctx.violations.append(o)
    ctx.analysed_bodies |= sub.analysed_bodies
    ctx.floor("C08.R4", 6)


def run(ctx):
    ctx.run_rule("C08.R1", r1)
    ctx.run_rule("C08.R2", r2)
    ctx.run_rule("C08.R3", r3)
    ctx.run_rule("C08.R4", r4)

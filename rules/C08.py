"""C08 — reconciliation behaves the same on the redb store as on a plain ordered map."""
import re
from . import mir, tables
from .mir import trace, origin_summary, callee_matches
from .common import find_calls, one_call, call_outcomes, leaves
from . import paths as P
from . import C02

EXPLANATION = (
    'Decides structural necessary conditions of C08 from MIR: (R1) the records key is the tuple (namespace[32], author[32],'
    ' key) in that order, RecordIdentifier is namespace||author||key (constructor append order, accessor ranges) and '
    "into_entry / entry_put / to_byte_tuple map component i to component i (and the value tuple's fields to the right "
    'Record / signature fields); (R2) StoreInstance::get_range evaluated per cmp(x,y) (table scans opened, their bounds, '
    'chaining order): every bound derived from range.x() is Included and every bound derived from range.y() is Excluded, '
    'the Less arm scans [x,y), the Greater (wrap-around) arm chains [start,y) before [x,end), the Equal arm scans the '
    'namespace bounds; (R3) get_fingerprint starts from Fingerprint::empty(), scans get_range of the same range and folds '
    'with xor of as_fingerprint; get_first scans the namespace bounds and falls back to RecordIdentifier::default(); (R4) '
    'the prefix primitives (shared with C02.R3/R4). NOT decided: transcript equality as a relation between two executions.'
)
ASSUMPTIONS = ["redb tuple key order equals component-wise byte order", "blake3 / xor fingerprint algebra trusted"]

SI = "<store::fs::StoreInstance<'a> as ranger::Store<sync::SignedEntry>>::"


EXPLANATION += ' (R5, round 10) RecordsRange::next evaluated call after call over scripted rows: every row of the scan in scan order, markers included; a failing row is an error.'
EXPLANATION += ' (R6, round 12) the range count (get_range_len, default and every override) evaluated over scripted scans: the number of rows the scan of the range given yields, whatever its end points; a failing scan or row is an error.'
EXPLANATION += " (R7, round 13) = C02.R15: a database-backed store that overrides a default method of the reconciliation trait is evaluated on the default's table."


def _fields(body, op, **kw):
    out = set()
    for o in trace(body, op, **kw):
        base = o.data[1] if o.kind == "arg" else (o.data if o.kind == "upvar" else origin_summary(o))
        fl = mir.field_path(o)
        out.add("%s%s" % (base, ("." + ".".join(fl)) if fl else ""))
    return out


def _const_defs(body, op, depth=0):
    """named constants passed to the calls that produce this operand (walking back through calls)"""
    out = set()
    if depth > 6:
        return out
    for o in trace(body, op, through_calls=False):
        if o.kind == "call":
            for a in o.data["a"]:
                if a[0] == "const":
                    if "def" in a[1]:
                        out.add(a[1]["def"].split("::")[-1])
                else:
                    out |= _const_defs(body, a, depth + 1)
        elif o.kind == "const" and "def" in o.data:
            out.add(o.data["def"].split("::")[-1])
    return out


def id_oracle(f, L):
    """oracle modelling a RecordIdentifier whose bytes are the opaque buffer `id` of length L (slices are named
    id[a..b]; an out-of-range index diverges), plus the constructors of the entry types. Returns (oracle, state)."""
    from . import feval as E, coll
    from .C09 import _rng
    state = {"inline_ctor": True}

    def label_args(t, names):
        """callee(param=value, ...) with the callee's own parameter names"""
        cp = [p for p in mir.callee_paths(t) if p in f.bodies]
        if not cp:
            return None
        cb = f.bodies[cp[0]]
        return "%s(%s)" % (cp[0].split("::")[-1], ",".join("%s=%s" % (cb.local_name(i + 1) or i, n) for i, n in enumerate(names)))

    def oracle(kind, name, payload, site):
        if kind != "call":
            return None
        t, args, it = payload
        names = [it.tokname(a) for a in args]
        full = (t["f"].get("full") or "") + (t["f"].get("path") or "")
        import re as _re
        m0 = _re.fullmatch(r"id\[(\d+)\.\.(\d+)\]", names[0]) if names else None
        if name in ("with_capacity", "new") and "BytesMut" in full:
            return coll.seq("vec", [])
        if name == "extend_from_slice" and coll.is_seq(it.deref_val(args[0])):
            d = it.deref_val(args[0])
            it.write_loc(args[0][1], coll.seq("vec", d[2] + [E.Tok(names[1])]))
            return E.UNIT
        if name == "freeze" and coll.is_seq(it.deref_val(args[0])):
            return it.deref_val(args[0])
        if name in ("index", "slice", "get") and names and (names[0] == "id" or m0) and len(args) == 2:
            base, blen = (0, L) if names[0] == "id" else (int(m0.group(1)), int(m0.group(2)) - int(m0.group(1)))
            r = _rng(E, it, args[1], blen)
            if r is None or r[0] is None or r[1] is None:
                raise E.Unsupported("slice of the id with an undetermined range")
            if not (r[0] <= r[1] <= blen):
                return E.DIVERGE if name != "get" else E.NONE
            tok = E.Tok("id[%d..%d]" % (base + r[0], base + r[1]))
            return E.Some(tok) if name == "get" else tok
        if name in ("try_into", "try_from") and m0:
            return E.Ok(args[0]) if int(m0.group(2)) - int(m0.group(1)) == 32 else E.Err(E.Tok("wrong-length"))
        if name in ("len",) and names and names[0] == "id":
            return E.Int(L)
        if name in ("deref", "as_ref", "as_bytes", "into", "from", "clone", "borrow", "as_slice", "to_bytes", "copy_from_slice") and len(args) == 1:
            return args[0]
        if name == "len":
            return E.Tok("len(%s)" % names[0])
        if callee_matches(t, r"sync::(RecordIdentifier|Record|Entry|SignedEntry|EntrySignature)::(new|from_parts)$") and not state["inline_ctor"]:
            la = label_args(t, names)
            if la:
                return E.Tok(la)
        if name == "from_bytes" and "Signature" in full:
            return E.Tok("signature(%s)" % names[0])
        return None
    return oracle, state


def r1(ctx):
    f = ctx.facts
    al = f.aliases.get("store::fs::tables::RecordsId")
    if not al:
        raise mir.AnchorMissing("type alias store::fs::tables::RecordsId not found")
    shape = tables.norm(al["ty"])
    ctx.check(shape == "(&[u8; 32], &[u8; 32], &[u8])", "C08.R1", "store::fs::tables::RecordsId", "key-shape", "records key type = %s" % shape, None)
    # ---- the id layout, evaluated (K6'): constructor, accessors, row <-> entry maps
    from . import feval as E, coll
    from .C09 import _rng
    RI = "sync::RecordIdentifier"
    L = 70     # an id of 70 bytes: 32 + 32 + 6
    oracle, state = id_oracle(f, L)

    n = f.body(RI + "::new")
    ctx.touch(n)
    try:
        ret, it_ = E.run_it(f, n.path, [E.Tok("namespace"), E.Tok("author"), E.Tok("key")], {}, oracle)
        got = E.describe(it_.resolve(ret), f)
    except E.Unsupported as ex:
        got = "UNSUPPORTED-FORM: %s" % ex
    ctx.check(got == "RecordIdentifier([namespace,author,key])", "C08.R1", n.path, "append-order", "RecordIdentifier::new(namespace, author, key) = %s (spec: the bytes of namespace, author, key in this order)" % got, n.sp)
    want = {"as_byte_tuple": "(id[0..32],id[32..64],id[64..70])", "to_byte_tuple": "(id[0..32],id[32..64],id[64..70])", "namespace": "id[0..32]", "author": "id[32..64]", "key": "id[64..70]", "key_bytes": "id[64..70]"}
    for acc, w in want.items():
        b = f.body(RI + "::" + acc)
        ctx.touch(*f.scope(b.path, prefix="sync::"))
        try:
            ret, it_ = E.run_it(f, b.path, [E.href("self")], {"self": E.struct(f, RI, **{"0": E.Tok("id")})}, oracle)
            got = "PANIC" if (ret is not None and ret[0] == "diverge") else E.describe(it_.resolve(ret), f)
        except E.Unsupported as ex:
            got = "UNSUPPORTED-FORM: %s" % ex
        ctx.check(got == w, "C08.R1", b.path, "component-range", "%s() of a 70-byte id = %s (spec %s: namespace = bytes 0..32, author = 32..64, key = the rest)" % (acc, got, w), b.sp)
    # into_entry: row -> entry
    state["inline_ctor"] = False
    ie = f.body("store::fs::into_entry")
    ctx.touch(ie)
    key = ("tuple", [E.Tok("k.namespace"), E.Tok("k.author"), E.Tok("k.key")])
    val = ("tuple", [E.Tok("v.timestamp"), E.Tok("v.namespace_sig"), E.Tok("v.author_sig"), E.Tok("v.len"), E.Tok("v.hash")])
    try:
        ret, it_ = E.run_it(f, ie.path, [key, val], {}, oracle)
        got = E.describe(it_.resolve(ret), f)
    except E.Unsupported as ex:
        got = "UNSUPPORTED-FORM: %s" % ex
    need = ["new(namespace=k.namespace,author=k.author,key=k.key)", "hash=v.hash", "len=v.len", "timestamp=v.timestamp", "namespace_sig=v.namespace_sig", "author_sig=v.author_sig"]
    ctx.check(all(x in got for x in need), "C08.R1", ie.path, "row-to-entry-map", "into_entry(key, value) = %s; spec: id from the key components in order, record (hash, len, timestamp) and the two signatures from their own value fields" % got, ie.sp)
    state["inline_ctor"] = True
    fp = f.body("sync::EntrySignature::from_parts")
    ctx.touch(fp)
    try:
        ret, it_ = E.run_it(f, fp.path, [E.href("ns"), E.href("au")], {"ns": E.Tok("namespace_sig"), "au": E.Tok("author_sig")}, oracle)
        rv = it_.resolve(ret)
        got = (E.describe(E.field(f, rv, "sync::EntrySignature", "namespace_signature"), f), E.describe(E.field(f, rv, "sync::EntrySignature", "author_signature"), f))
    except E.Unsupported as ex:
        got = ("UNSUPPORTED-FORM: %s" % ex, None)
    ctx.check(got == ("signature(namespace_sig)", "signature(author_sig)"), "C08.R1", fp.path, "signature-fields-not-swapped", "(namespace_signature, author_signature) = %s" % (got,), fp.sp)
    # entry_put: entry -> row (value order timestamp, namespace sig, author sig, len, hash), from the evaluated transaction
    from . import C18
    got, log = C18.eval_entry_put(f, None)
    rec = [x for x in log if x[0] == "records" and x[1] == "insert"]
    okv = False
    if len(rec) == 1 and rec[0][3]:
        comps = [c.strip() for c in rec[0][3].strip("()").split(",")]
        okv = len(comps) == 5 and "timestamp" in comps[0] and "namespace(signature" in comps[1] and "author(signature" in comps[2] and "content_len" in comps[3] and "content_hash" in comps[4]
    ep = f.body(SI + "entry_put")
    ctx.touch(ep)
    ctx.check(okv, "C08.R1", ep.path, "value=(timestamp,ns_sig,author_sig,len,hash)", "records row written by entry_put: %s" % (rec,), ep.sp)
    ctx.floor("C08.R1", 11)


def _rid(ns, author, key):
    return "rid:%s:%s:%s" % (ns.hex(), author.hex(), key.hex())


def _rid_bytes(tok):
    p_ = tok.strip("&*").split(":")
    return bytes.fromhex(p_[1]), bytes.fromhex(p_[2]), bytes.fromhex(p_[3]) if len(p_) > 3 and p_[3] else b""


def eval_get_range(f, ns, x, y):
    """StoreInstance::get_range evaluated (K6') for the replica of the concrete namespace `ns` on the range from x to y (record
    identifiers = (namespace, author, key) byte triples, possibly of other namespaces): returns (rendered result, [rendered
    bounds of each records-table scan in order of creation])"""
    from . import feval as E
    from . import keyrange as KR
    inl = [p_.path for p_ in f.bodies.values() if p_.path.startswith("store::fs::bounds::") and not p_.path.endswith("increment_by_one")]
    scans = []

    def oracle(kind, name, payload, site):
        if kind == "cmp":
            a, b_ = str(name).strip("&*"), str(payload).strip("&*")
            if a.startswith("rid:") and b_.startswith("rid:"):
                ka, kb = _rid_bytes(a), _rid_bytes(b_)
                return (ka > kb) - (ka < kb)
            return KR.cmp_rendered(a, b_)
        if kind == "eq":
            c = KR.cmp_rendered(str(name), str(payload))
            return None if c is None else (c == 0)
        if kind != "call":
            return None
        t, args, it = payload
        names = [it.tokname(a).strip("&*") for a in args]
        full = (t["f"].get("full") or "") + (t["f"].get("path") or "")
        if name == "tables":
            return E.Ok(E.Tok("tables"))
        if name == "range" and "Table" in full:
            scans.append((names[0], E.describe(it.resolve(args[1]), f)))
            return E.Ok(E.Tok("scan%d" % len(scans)))
        if name in ("to_byte_tuple", "as_byte_tuple") and names and names[0].startswith("rid:"):
            n_, a_, k_ = _rid_bytes(names[0])
            return ("tuple", [E.Tok("id:" + n_.hex()), E.Tok("id:" + a_.hex()), E.Tok("key:" + k_.hex()) if k_ else E.Tok("empty")])
        if name == "increment_by_one" and names and names[0].startswith("id:"):
            v = bytearray(bytes.fromhex(names[0][3:]))
            for i in range(len(v) - 1, -1, -1):
                if v[i] != 255:
                    v[i] += 1
                    for j in range(i + 1, len(v)):
                        v[j] = 0
                    if args[0][0] == "ref":
                        it.write_loc(args[0][1], E.Tok("id:" + bytes(v).hex()))
                    return E.Int(1)
            return E.Int(0)
        if name in ("to_bytes", "as_bytes") and names and names[0].startswith("nsid:"):
            return E.Tok("id:" + names[0][5:])
        if name == "new" and callee_matches(t, r"Bytes::new"):
            return E.Tok("empty")
        if name in ("max", "min") and len(args) == 2 and "cmp::Ord" in full:
            c = KR.cmp_rendered(E.describe(it.resolve(args[0]), f), E.describe(it.resolve(args[1]), f))
            if c is not None:
                return args[0] if ((c >= 0) == (name == "max")) else args[1]
        if name in ("into_iter", "flatten"):
            return args[0]
        if name == "chain":
            return E.Tok("chain(%s,%s)" % (names[0], names[1]))
        if name == "clone":
            return args[0]
        return None
    rng = E.struct(f, "ranger::Range", x=E.Tok(_rid(*x)), y=E.Tok(_rid(*y)))
    me = E.struct(f, "store::fs::StoreInstance", namespace=E.Tok("nsid:" + ns.hex()), store=E.Tok("store"))
    try:
        ret, hp, ev = E.run(f, SI + "get_range", [E.href("self"), rng], {"self": me}, oracle, inline=inl)
        return E.describe(ret, f), scans
    except E.Unsupported as e:
        return "UNSUPPORTED-FORM: %s" % e, scans


def r2(ctx):
    """get_range against the ordered-map definition, decided on sample records: the replica's own records inside the circular
    range [x, y), in the order a wrap-around scan visits them ([start, y) then [x, end)) - and nothing else, whatever namespace
    the end points name (the records of all documents share one table, and the end points come from the remote peer)"""
    import re as _re
    from . import keyrange as KR
    f = ctx.facts
    b = f.body(SI + "get_range")
    ctx.touch(b)
    for bb in f.bodies.values():
        if bb.path.startswith("store::fs::bounds::RecordsBounds::"):
            ctx.touch(bb)
    for ns_byte, label in ((7, "namespace=07.."), (255, "namespace=ff..(no successor)")):
        N1 = bytes([ns_byte]) * 32
        N0 = bytes([ns_byte]) * 31 + bytes([ns_byte - 1])
        N2 = (bytes([ns_byte]) * 31 + bytes([ns_byte + 1])) if ns_byte < 255 else None
        authors = [bytes([0]) * 32, bytes([5]) * 32, bytes([255]) * 32]
        keys = [b"", b"k", b"\xff"]
        samples = [(n_, a_, k_) for n_ in (N0, N1, N2) if n_ is not None for a_ in authors for k_ in keys]
        ends = [(bytes(32), bytes(32), b""), (N0, authors[1], b"k"), (N1, authors[0], b""), (N1, authors[1], b"k"), (N1, authors[2], b"\xff"),
                (bytes([255]) * 32, bytes([255]) * 32, b"\xff")] + ([(N2, authors[1], b"k")] if N2 else [])
        bad = {"Less": [], "Equal": [], "Greater": []}
        n = {"Less": 0, "Equal": 0, "Greater": 0}
        for x in ends:
            for y in ends:
                arm = "Less" if x < y else ("Equal" if x == y else "Greater")
                n[arm] += 1
                got, scans = eval_get_range(f, N1, x, y)
                tag = "x=(%s..,%s..,%r) y=(%s..,%s..,%r)" % (x[0].hex()[:2] + x[0].hex()[-2:], x[1].hex()[:2], x[2], y[0].hex()[:2] + y[0].hex()[-2:], y[1].hex()[:2], y[2])
                if not got.startswith("Ok("):
                    bad[arm].append("%s: %s" % (tag, got))
                    continue
                mine = sorted(s_ for s_ in samples if s_[0] == N1)
                if x < y:
                    want = [s_ for s_ in mine if x <= s_ < y]
                elif x == y:
                    want = mine
                else:
                    want = [s_ for s_ in mine if s_ < y] + [s_ for s_ in mine if s_ >= x]
                try:
                    rngs = [KR.bounds(sc[1]) for sc in scans]
                    ids = [int(i) for i in _re.findall(r"scan(\d+)", got)]
                    seq = []
                    for i in ids:
                        seq += [s_ for s_ in sorted(samples) if KR.inside(s_, rngs[i - 1])]
                    if any(sc[0] != "tables.records" for sc in scans):
                        bad[arm].append("%s: scans another table: %s" % (tag, [sc[0] for sc in scans]))
                    elif seq != want:
                        foreign = [s_ for s_ in seq if s_[0] != N1]
                        bad[arm].append("%s: yields %d sample records (%d of other documents), the ordered map of this replica prescribes %d%s" % (
                            tag, len(seq), len(foreign), len(want), "" if foreign or sorted(seq) != sorted(want) else " - same records, other order"))
                except ValueError as e:
                    bad[arm].append("%s: UNSUPPORTED-FORM: cannot read the scan bounds (%s)" % (tag, e))
        for arm, lab in (("Less", "Less=[x,y)"), ("Equal", "Equal=whole-namespace"), ("Greater", "Greater=[start,y)++[x,end)")):
            ctx.check(not bad[arm] and n[arm] >= 6, "C08.R2", b.path, "%s[%s]" % (lab, label),
                      "%d ranges with cmp(x,y)=%s (end points inside this namespace, in neighbouring ones, all-zero, all-0xFF) evaluated and decided on %d sample records of this and the neighbouring documents; deviating (%d): %s"
                      % (n[arm], arm, len(samples), len(bad[arm]), bad[arm][:3]), b.sp)
    ctx.floor("C08.R2", 6)


def r3(ctx):
    from . import feval as E
    f = ctx.facts
    b = f.body(SI + "get_fingerprint")
    ctx.touch(b)
    # get_fingerprint evaluated (K6') on element sequences of the range scan: the xor-fold of every element's fingerprint from empty()
    for items in ((), ("el0",), ("el0", "el1", "el2"), ("el0", "err", "el2")):
        st = {"i": 0, "ranges": []}

        def xor(acc, x):
            return E.Tok("xor(%s,%s)" % (acc, x))

        def oracle(kind, name, payload, site, items=items, st=st):
            if kind != "call":
                return None
            t, args, it = payload
            names = [it.tokname(a) for a in args]
            if name == "get_range":
                st["ranges"].append(names[1:])
                return E.Ok(E.Tok("elements"))
            if name == "into_iter":
                return args[0]
            if name == "next" and names and names[0] == "elements":
                i = st["i"]
                st["i"] += 1
                if i >= len(items):
                    return E.NONE
                return E.Some(E.Err(E.Tok("storage-error"))) if items[i] == "err" else E.Some(E.Ok(E.Tok(items[i])))
            if name in ("try_fold", "fold") and names and names[0] == "elements":
                acc = args[1]
                for x in items[st["i"]:]:
                    st["i"] += 1
                    item = E.Err(E.Tok("storage-error")) if x == "err" else E.Ok(E.Tok(x))
                    r = it.apply(args[2], [acc, item])
                    if name == "fold":
                        acc = r
                        continue
                    rd = it.deref_val(r)
                    if rd is not None and rd[0] == "adt" and rd[1] in (E.RESULT,) and rd[2] == 0:
                        acc = rd[3].get(0, E.TOP)
                    elif rd is not None and rd[0] == "adt" and rd[1] == E.CFLOW and rd[2] == 0:
                        acc = rd[3].get(0, E.TOP)
                    else:
                        return r
                return E.Ok(acc) if name == "try_fold" else acc
            if callee_matches(t, r"ranger::Fingerprint::empty$"):
                return E.Tok("EMPTY")
            if name == "as_fingerprint":
                return E.Tok("fp(%s)" % names[0])
            if name == "bitxor_assign":
                if args[0][0] == "ref":
                    it.write_loc(args[0][1], xor(names[0], names[1]))
                return E.UNIT
            if name == "bitxor":
                return xor(names[0], names[1])
            return None
        try:
            ret, hp, ev = E.run(f, b.path, [E.href("self"), E.href("range")], {"self": E.Tok("self"), "range": E.Tok("range")}, oracle)
            got = E.describe(ret, f)
        except E.Unsupported as e:
            got = "UNSUPPORTED-FORM: %s" % e
        if "err" in items:
            want = "Err(storage-error)"
        else:
            acc = "EMPTY"
            for x in items:
                acc = "xor(%s,fp(%s))" % (acc, x)
            want = "Ok(%s)" % acc
        okr = st["ranges"] == [["range"]]
        ctx.check((got == want or (want.startswith("Err") and got.startswith("Err"))) and okr, "C08.R3", b.path, "fp=xor-fold-over-get_range(range)[%s]" % ("+".join(items) or "empty"),
                  "returns %s over get_range%s; spec %s (every element of the same range folded once, from Fingerprint::empty(); a storage error is reported)" % (got, st["ranges"], want), b.sp)
    fx = f.body("<ranger::Fingerprint as std::ops::BitXorAssign>::bitxor_assign")
    ctx.touch(*f.family(fx.path))
    # evaluated on two concrete 32-byte values: the result must be their bytewise xor (loop, zip or for_each alike)
    from . import coll
    C = coll.Collections(f)
    A = [(7 * i + 3) & 0xFF for i in range(32)]
    B = [(29 * i + 101) & 0xFF for i in range(32)]
    heap = {"self": E.struct(f, "ranger::Fingerprint", **{"0": coll.seq("vec", [E.Int(v) for v in A])}), "rhs": E.struct(f, "ranger::Fingerprint", **{"0": coll.seq("vec", [E.Int(v) for v in B])})}
    try:
        rhs_arg = E.href("rhs") if fx.locals[2]["ty"].startswith("&") else heap["rhs"]
        ret, itp = E.run_it(f, fx.path, [E.href("self"), rhs_arg], heap, lambda k, n, p_, s_: C.handle(k, n, p_, s_))
        res = E.field(f, itp.heap["self"], "ranger::Fingerprint", "0")
        gotx = [itp.resolve(v)[1] if E.is_int(itp.resolve(v)) else None for v in res[2]] if coll.is_seq(res) else None
        detx = "self.0 after `self ^= rhs` on two sample values: %s" % ("the bytewise xor" if gotx == [a ^ b for a, b in zip(A, B)] else gotx)
        okx = gotx == [a ^ b for a, b in zip(A, B)]
    except E.Unsupported as e:
        okx, detx = False, "UNSUPPORTED-FORM: %s" % e
    ctx.check(okx, "C08.R3", fx.path, "is-bytewise-xor", detx, fx.sp)
    fe = f.body("ranger::Fingerprint::empty")
    ctx.touch(fe)
    g = f.body(SI + "get_first")
    ctx.touch(g)
    from . import feval as E
    rows = {}
    for scen in ("empty", "row", "error"):
        seen = {}

        def oracle(kind, name, payload, site, scen=scen, seen=seen):
            if kind != "call":
                return None
            t, args, it = payload
            names = [it.tokname(a) for a in args]
            if name == "tables":
                return E.Ok(E.Tok("tables"))
            if name == "namespace" and callee_matches(t, r"RecordsBounds::namespace"):
                seen["bounds"] = names
                return E.Tok("namespace_bounds(%s)" % ",".join(names))
            if name == "range":
                seen["range"] = names
                return E.Ok(E.Tok("iter"))
            if name == "next":
                seen["next"] = seen.get("next", 0) + 1
                if scen == "empty" or seen["next"] > 1:
                    return E.NONE
                if scen == "error":
                    return E.Some(E.Err(E.Tok("storage-error")))
                return E.Some(E.Ok(("tuple", [E.Tok("key_guard"), E.Tok("value_guard")])))
            if name == "value" and names == ["key_guard"]:
                return ("tuple", [E.Tok("k.namespace"), E.Tok("k.author"), E.Tok("k.key")])
            if callee_matches(t, r"sync::RecordIdentifier::new"):
                return E.Tok("RecordIdentifier::new(%s)" % ",".join(names))
            if name == "default":
                return E.Tok("RecordIdentifier::default()")
            return None
        try:
            ret, hp, ev = E.run(f, g.path, [E.href("self")], {"self": E.Tok("self")}, oracle)
            rows[scen] = (E.describe(ret, f), seen.get("bounds"), seen.get("range"))
        except E.Unsupported as e:
            rows[scen] = ("UNSUPPORTED-FORM: %s" % e, None, None)
    want_b = ["self.namespace"]
    okf = rows["empty"][0] == "Ok(RecordIdentifier::default())" and rows["row"][0] == "Ok(RecordIdentifier::new(k.namespace,k.author,k.key))" \
        and rows["error"][0].startswith("Err(") and all(r[1] == want_b and r[2] is not None and any("namespace_bounds(self.namespace)" in x for x in r[2]) for r in rows.values())
    ctx.check(okf, "C08.R3", g.path, "first-key-or-default",
              "by first row of the namespace scan (result, bounds of, range args): %s; spec: empty => default id, row => its (namespace, author, key) in order, error => Err" % rows, g.sp)
    ctx.floor("C08.R3", 5)


def r4(ctx):
    sub = type(ctx)(ctx.prop, ctx.tier, ctx.facts, ctx.cfg)
    C02.r2(sub)
    C02.r3(sub)
    C02.r4(sub)
    C02.r10(sub)
    # prefix removal: the store's prune primitive asks the predicate about each row's own record and removes by its verdict
    # (the rest of C02.R1 - the value order - is C02's and C01's)
    sub1 = type(ctx)(ctx.prop, ctx.tier, ctx.facts, ctx.cfg)
    C02.r1(sub1)
    sub.obligations += [o for o in sub1.obligations if "# predicate-decides" in o["key"] or "# prune-predicate" in o["key"]]
    sub.analysed_bodies |= sub1.analysed_bodies
    for o in sub.obligations:
        o = dict(o)
        o["key"] = o["key"].replace("C02.R1", "C08.R4")
        o["key"] = o["key"].replace("C02.R2a", "C08.R4").replace("C02.R2b", "C08.R4").replace("C02.R3", "C08.R4").replace("C02.R4", "C08.R4").replace("C02.R10", "C08.R4")
        o["rule"] = "C08.R4"
        ctx.obligations.append(o)
        if o["status"] != "holds":
            ctx.violations.append(o)
    ctx.analysed_bodies |= sub.analysed_bodies
    ctx.floor("C08.R4", 9)


def r5(ctx):
    """the plain iterator over a range of the records table (RecordsRange::next - behind get_range, the range fingerprint, the
    range count and the content-hash listing) evaluated call after call over scripted rows: every row of the scan is yielded, in
    scan order, deletion markers included (they are entries of the ordered map like any other: a marker that is not
    fingerprinted or sent never reaches the peer), a failing row is an error, the end comes after the last row"""
    from . import feval as E, coll
    f = ctx.facts
    cands = [p for p in f.bodies if re.match(r"^<store::fs::ranges::RecordsRange<.*> as std::iter::Iterator>::next$", p)]
    if len(cands) != 1:
        raise mir.AnchorMissing("expected one Iterator::next of RecordsRange, found %s" % cands)
    NEXT = cands[0]
    b = f.body(NEXT)
    ctx.touch(b)
    for label, rows in (("live,marker,live", ["live", "marker", "live"]), ("marker-first", ["marker", "live"]), ("failing-row", ["live", "fail", "live"]), ("empty", [])):
        pos = [0]
        C = coll.Collections(f)

        def oracle(kind, name, payload, site, rows=rows):
            if kind in ("eq", "cmp"):
                a, b2 = str(name), str(payload)
                if "EMPTY" in a or "EMPTY" in b2:
                    return ("EMPTY" in a and "EMPTY" in b2) if kind == "eq" else None
                return None
            if kind != "call":
                return None
            t, args, it = payload
            names = [it.tokname(a).strip("&*") for a in args]
            if name in ("next", "next_back") and names and names[0] == "redb-range":
                i = pos[0]
                pos[0] += 1
                if i >= len(rows):
                    return E.NONE
                if rows[i] == "fail":
                    return E.Some(E.Err(E.Tok("storage-error")))
                return E.Some(E.Ok(("tuple", [E.Tok("kguard%d" % i), E.Tok("vguard%d" % i)])))
            if name == "value" and names and names[0].startswith("kguard"):
                i = names[0][6:]
                return ("tuple", [E.Tok("ns"), E.Tok("author%s" % i), E.Tok("key%s" % i)])
            if name == "value" and names and names[0].startswith("vguard"):
                i = int(names[0][6:])
                mk = rows[i] == "marker"
                return ("tuple", [E.Tok("ts%d" % i), E.Tok("nsig"), E.Tok("asig"), E.Int(0 if mk else 7), E.Tok("EMPTY" if mk else "hash%d" % i)])
            if mir.callee_matches(t, r"store::fs::into_entry$"):
                return E.Tok("entry(%s)" % names[0].split(",")[-1].rstrip(")")[3:] if False else "entry(%s)" % it.tokname(it.resolve(args[0])[1][2]).strip("&*")[3:])
            if name == "as_bytes" and names and "EMPTY" in names[0]:
                return E.Tok("EMPTY")
            return C.handle(kind, name, payload, site)
        heap = {"self": E.struct(f, "store::fs::ranges::RecordsRange", **{"0": E.Tok("redb-range")})}
        out = []
        try:
            for _ in range(len(rows) + 2):
                ret, itp = E.run_it(f, NEXT, [E.href("self")], heap, oracle)
                heap = itp.heap
                rv = itp.resolve(ret)
                d = E.describe(rv, f)
                try:
                    # name the entry by the row it was made from (its timestamp column)
                    if rv[0] == "adt" and rv[1] == E.OPTION and rv[2] == 1:
                        inner = itp.resolve(rv[3][0])
                        if inner[0] == "adt" and inner[1] == E.RESULT and inner[2] == 0:
                            se = itp.resolve(inner[3][0])
                            if se[0] == "adt":
                                en = itp.resolve(E.field(f, se, "sync::SignedEntry", "entry"))
                                rec = itp.resolve(E.field(f, en, "sync::Entry", "record"))
                                ts = itp.tokname(E.field(f, rec, "sync::Record", "timestamp"))
                                d = "Some(Ok(entry(%s)))" % ts.strip("&*")[2:]
                            elif se[0] == "tok":
                                d = "Some(Ok(%s))" % se[1]
                except Exception:
                    pass
                out.append(d)
                if d == "None" or d.startswith("Some(Err"):
                    break
        except E.Unsupported as e:
            out.append("UNSUPPORTED-FORM: %s" % e)
        want = []
        for i, r in enumerate(rows):
            if r == "fail":
                want.append("Some(Err(")
                break
            want.append("Some(Ok(entry(%d)))" % i)
        else:
            want.append("None")
        ok = len(out) == len(want) and all(o.startswith(w) for o, w in zip(out, want))
        if not ok and len(out) == len(want) and not any(o.startswith("UNSUPPORTED") for o in out):
            # the entries could not be named after their rows (into_entry builds the record through a constructor the evaluation keeps
            # symbolic): fall back to the shape - as many entries as rows, then the end / the error
            shape = lambda xs: ["entry" if x.startswith("Some(Ok(") else ("err" if x.startswith("Some(Err") else x) for x in xs]
            ok = shape(out) == shape(want)
        ctx.check(ok, "C08.R5", NEXT, "plain-scan-yields-every-row[%s]" % label, "rows %s: yields %s; spec %s" % (rows, out, want), b.sp)
    ctx.floor("C08.R5", 4)


def r6(ctx):
    """the range count (ranger::Store::get_range_len, which decides between splitting a range and sending its entries) evaluated in
    its default form and in every override an implementation gives: the number of rows the range scan of *this* range yields -
    whatever the end points are (they come from the peer and may name another namespace: get_range clamps them, a count that
    answers 0 for them disagrees with the scan, C08-12) -, a failing scan or row is an error"""
    range_len(ctx, "C08.R6")
    ctx.floor("C08.R6", 5)


def range_len(ctx, rule):
    from . import feval as E, coll
    f = ctx.facts
    impls = sorted(p for p in f.bodies if re.match(r"^(<.* as ranger::Store<.*>>|ranger::Store)::get_range_len$", p) and not p.startswith("<&mut "))
    if "ranger::Store::get_range_len" not in impls:
        raise mir.AnchorMissing("ranger::Store::get_range_len (the default range count) not found")
    for path in impls:
        b = f.body(path)
        ctx.touch(b)
        for label, rows in (("empty", []), ("one", ["ok"]), ("three", ["ok", "ok", "ok"]), ("failing-row", ["ok", "fail", "ok"]), ("scan-fails", None)):
            C = coll.Collections(f)
            scans = []

            def oracle(kind, name, payload, site, rows=rows):
                if kind in ("eq", "cmp"):
                    a, b2 = str(name).strip("&*"), str(payload).strip("&*")
                    return (a == b2) if kind == "eq" else ((a > b2) - (a < b2))
                if kind != "call":
                    return None
                t, args, it = payload
                names = [it.tokname(a).strip("&*") for a in args]
                if name == "get_range":
                    scans.append(names[1] if len(names) > 1 else "?")
                    if rows is None:
                        return E.Err(E.Tok("storage-error"))
                    return E.Ok(coll.seq("vec", [E.Ok(E.Tok("entry%d" % i)) if r == "ok" else E.Err(E.Tok("row-error")) for i, r in enumerate(rows)]))
                if name in ("clone",) and len(args) == 1:
                    return args[0]
                return C.handle(kind, name, payload, site)
            heap = {"self": E.Tok("store")}
            if path.startswith("<store::fs::StoreInstance"):
                heap["self"] = E.struct(f, "store::fs::StoreInstance", namespace=E.Tok("this-namespace"), store=E.Tok("store"))
            try:
                ret, itp = E.run_it(f, path, [E.href("self"), E.Tok("range")], heap, oracle, bind={"ranger::Store::get_range": "?"})
                got = E.describe(itp.resolve(ret), f)
            except E.Unsupported as e:
                got = "UNSUPPORTED-FORM: %s" % e
            if rows is None or "fail" in rows:
                ok = got.startswith("Err")
                want = "an error"
            else:
                ok = got == "Ok(%d)" % len(rows)
                want = "Ok(%d)" % len(rows)
            ok = ok and scans == ["range"]
            ctx.check(ok, rule, path, "range-count[%s]" % label, "returns %s after scanning %s; spec: %s, from one scan of the range given" % (got, scans, want), b.sp)

def r7(ctx):
    """"prefix lookups and prefix removals return exactly what the ordered-map definitions prescribe" - the ordered map's put is the
    trait's default: an override in the database-backed store is evaluated on the same table (= C02.R15)"""
    from . import C02
    C02.overrides(ctx, "C08.R7")
    ctx.floor("C08.R7", 1)

def run(ctx):
    ctx.run_rule("C08.R1", r1)
    ctx.run_rule("C08.R2", r2)
    ctx.run_rule("C08.R3", r3)
    ctx.run_rule("C08.R4", r4)
    ctx.run_rule("C08.R5", r5)
    ctx.run_rule("C08.R6", r6)
    ctx.run_rule("C08.R7", r7)

"""C08 — reconciliation behaves the same on the redb store as on a plain ordered map."""
import re
from . import mir, tables
from .mir import trace, origin_summary, callee_matches
from .common import find_calls, one_call, call_outcomes, leaves
from . import paths as P
from . import C02

EXPLANATION = (
    "Decides structural necessary conditions of C08 from MIR: (R1) the records key is the tuple (namespace[32], author[32], key) "
    "in that order, RecordIdentifier is namespace||author||key (constructor append order, accessor ranges) and into_entry / "
    "entry_put / to_byte_tuple map component i to component i (and the value tuple's fields to the right Record / signature "
    "fields); (R2) StoreInstance::get_range: every bound derived from range.x() is Included and every bound derived from "
    "range.y() is Excluded, the Less arm scans [x,y), the Greater (wrap-around) arm chains [start,y) before [x,end), the Equal "
    "arm scans the namespace bounds; (R3) get_fingerprint starts from Fingerprint::empty(), scans get_range of the same range and "
    "folds with xor of as_fingerprint; get_first scans the namespace bounds and falls back to RecordIdentifier::default(); "
    "(R4) the prefix primitives (shared with C02.R3/R4). NOT decided: transcript equality as a relation between two executions."
)
ASSUMPTIONS = ["redb tuple key order equals component-wise byte order", "blake3 / xor fingerprint algebra trusted"]

SI = "<store::fs::StoreInstance<'a> as ranger::Store<sync::SignedEntry>>::"


def _fields(body, op, **kw):
    out = set()
    for o in trace(body, op, **kw):
        base = o.data[1] if o.kind == "arg" else (o.data if o.kind == "upvar" else origin_summary(o))
        fl = mir.field_path(o)
        out.add("%s%s" % (base, ("." + ".".join(fl)) if fl else ""))
    return out


def _const_defs(body, op, depth=0):
    """named constants passed to the calls that produce this operand (walking back through calls)"""
    out = set()
    if depth > 6:
        return out
    for o in trace(body, op, through_calls=False):
        if o.kind == "call":
            for a in o.data["a"]:
                if a[0] == "const":
                    if "def" in a[1]:
                        out.add(a[1]["def"].split("::")[-1])
                else:
                    out |= _const_defs(body, a, depth + 1)
        elif o.kind == "const" and "def" in o.data:
            out.add(o.data["def"].split("::")[-1])
    return out


def r1(ctx):
    f = ctx.facts
    al = f.aliases.get("store::fs::tables::RecordsId")
    if not al:
        raise mir.AnchorMissing("type alias store::fs::tables::RecordsId not found")
    shape = tables.norm(al["ty"])
    ctx.check(shape == "(&[u8; 32], &[u8; 32], &[u8])", "C08.R1", "store::fs::tables::RecordsId", "key-shape", "records key type = %s" % shape, None)
    # constructor appends namespace, author, key in this order
    n = f.body("sync::RecordIdentifier::new")
    ctx.touch(n)
    ext = [(bi, t) for bi, t in n.calls() if t["f"].get("name") == "extend_from_slice"]
    ext.sort(key=lambda x: len(n.dominators()[x[0]]))
    seq = []
    for bi, t in ext:
        s = set()
        for o in leaves(n, t["a"][1]):
            if o.kind == "arg":
                s.add(o.data[1])
        seq.append("|".join(sorted(s)))
    ctx.check(seq == ["namespace", "author", "key"], "C08.R1", n.path, "append-order", "bytes appended: %s" % seq, n.sp)
    # accessors read the ranges in component order
    for path in ("sync::RecordIdentifier::to_byte_tuple", "sync::RecordIdentifier::as_byte_tuple"):
        b = f.body(path)
        ctx.touch(b)
        tup = [s for _, _, s in b.statements() if s["k"] == "assign" and s["p"]["l"] == 0 and s["r"][0] == "agg" and s["r"][1][0] == "tuple"]
        seq = []
        if len(tup) == 1:
            for op in tup[0]["r"][2]:
                seq.append("|".join(sorted(_const_defs(b, op))))
        ctx.check(seq == ["NAMESPACE_BYTES", "AUTHOR_BYTES", "KEY_BYTES"], "C08.R1", path, "component-ranges-in-order", "tuple components read ranges %s" % seq, b.sp)
    for path, const in (("sync::RecordIdentifier::namespace", "NAMESPACE_BYTES"), ("sync::RecordIdentifier::author", "AUTHOR_BYTES"), ("sync::RecordIdentifier::key", "KEY_BYTES")):
        b = f.body(path)
        ctx.touch(b)
        cs = set()
        for bi, t in b.calls():
            if t["f"].get("name") in ("index", "slice"):
                a = t["a"][1]
                if a[0] == "const" and "def" in a[1]:
                    cs.add(a[1]["def"].split("::")[-1])
        ctx.check(cs == {const}, "C08.R1", path, "reads-%s" % const, "%s" % sorted(cs), b.sp)
    # into_entry maps component i to component i
    ie = f.body("store::fs::into_entry")
    ctx.touch(ie)
    bi, t = one_call(ie, r"sync::RecordIdentifier::new")
    comps = [sorted(_fields(ie, a)) for a in t["a"]]
    ctx.check(comps == [["key.0"], ["key.1"], ["key.2"]], "C08.R1", ie.path, "id=(key.0,key.1,key.2)", "%s" % comps, t["sp"])
    bi, t = one_call(ie, r"sync::Record::new$")
    comps = [sorted(_fields(ie, a, view=re.compile(mir.VIEW.pattern[:-2] + r"|into|from)$"))) for a in t["a"]]
    ctx.check(comps == [["value.4"], ["value.3"], ["value.0"]], "C08.R1", ie.path, "record=(hash=value.4,len=value.3,timestamp=value.0)", "%s" % comps, t["sp"])
    bi, t = one_call(ie, r"sync::EntrySignature::from_parts$")
    comps = [sorted(_fields(ie, a)) for a in t["a"]]
    ctx.check(comps == [["value.1"], ["value.2"]], "C08.R1", ie.path, "signature=(namespace=value.1,author=value.2)", "%s" % comps, t["sp"])
    fp = f.body("sync::EntrySignature::from_parts")
    ctx.touch(fp)
    agg = [s for _, _, s in fp.statements() if s["k"] == "assign" and s["r"][0] == "agg" and s["r"][1][0] == "adt" and s["r"][1][1] == "sync::EntrySignature"]
    ok = False
    if len(agg) == 1:
        m = dict(zip(agg[0]["r"][1][4], agg[0]["r"][2]))
        ok = {o.data[1] for o in leaves(fp, m["namespace_signature"]) if o.kind == "arg"} == {"namespace_sig"} and {o.data[1] for o in leaves(fp, m["author_signature"]) if o.kind == "arg"} == {"author_sig"}
    ctx.check(ok, "C08.R1", fp.path, "signature-fields-not-swapped", "namespace_signature <- namespace_sig, author_signature <- author_sig", fp.sp)
    # entry_put value tuple order (timestamp, ns sig, author sig, len, hash)
    ep = f.body(SI + "entry_put::{closure#0}")
    ctx.touch(ep)
    types = tables.table_types(f)
    for bi, t in ep.calls():
        ct = tables.call_table(t, types)
        if ct and ct[:2] == ("records", "insert"):
            seq = []
            for o in trace(ep, t["a"][2]):
                if o.kind == "agg" and o.data[0][0] == "tuple":
                    for op in o.data[1]:
                        names = []
                        for x in trace(ep, op, through_calls=False):
                            cur = x
                            chain = []
                            depth = 0
                            while cur is not None and cur.kind == "call" and depth < 5:
                                chain.append(cur.data["f"].get("name"))
                                nxt = trace(ep, cur.data["a"][0], through_calls=False) if cur.data["a"] else []
                                cur = nxt[0] if len(nxt) == 1 else None
                                depth += 1
                            names.append(">".join(chain))
                        seq.append("|".join(sorted(set(names))))
            want = ["timestamp", "namespace", "author", "content_len", "content_hash"]
            ok = len(seq) == 5 and all(w in s for w, s in zip(want, seq))
            ctx.check(ok, "C08.R1", ep.path, "value=(timestamp,ns_sig,author_sig,len,hash)", "value components derive from %s" % seq, t["sp"])
    ctx.floor("C08.R1", 12)


def r2(ctx):
    f = ctx.facts
    b = f.body(SI + "get_range")
    ctx.touch(b)
    # every Bound aggregate: x -> Included, y -> Excluded
    n = 0
    for bi, si, s in b.statements():
        if s["k"] == "assign" and s["r"][0] == "agg" and s["r"][1][0] == "adt" and s["r"][1][1].endswith("ops::Bound") and s["r"][2]:
            n += 1
            ends = set()
            for o in trace(b, s["r"][2][0], through_calls=False):
                if o.kind == "call" and o.data["f"].get("name") == "to_byte_tuple":
                    for o2 in trace(b, o.data["a"][0], through_calls=False):
                        if o2.kind == "call" and o2.data["f"].get("name") in ("x", "y"):
                            ends.add(o2.data["f"].get("name"))
            kind = s["r"][1][2]
            want = {"x": "Included", "y": "Excluded"}
            ok = len(ends) == 1 and want[list(ends)[0]] == kind
            ctx.check(ok, "C08.R2", b.path, "bound-kind.%s(range.%s)#%d" % (kind, "|".join(sorted(ends)), n), "a range [x, y) includes x and excludes y", s["sp"])
    if n < 4:
        raise mir.AnchorMissing("get_range: expected 4 bound constructions, found %d" % n)
    arms = {}
    for p in P.explore(b):
        if not (p.ret[0] == "variant" and p.ret[1] == "Ok"):
            continue
        v = [vv for k, vv in p.decisions if k[0] == "discr" and "#Ordering" in k[1]]
        if not v:
            continue
        arm = {255: "Less", 0: "Equal", 1: "Greater", -1: "Less"}.get(v[0], str(v[0]))
        arms[arm] = p
    ctx.check(set(arms) == {"Less", "Equal", "Greater"}, "C08.R2", b.path, "three-arms", "%s" % sorted(arms), b.sp)
    if "Less" in arms:
        p = arms["Less"]
        c = [e[2] for e in p.events if e[0] == "call" and e[1] == "new" and callee_matches(e[2], r"RecordsBounds::new$")]
        ok = len(c) == 1
        if ok:
            s0 = {o.data["f"].get("name") for o in leaves(b, c[0]["a"][0], expand_calls=True) if False}
            def end_of(op):
                out = set()
                for o in trace(b, op, through_calls=False):
                    if o.kind == "agg":
                        for x in trace(b, o.data[1][0], through_calls=False):
                            if x.kind == "call" and x.data["f"].get("name") == "to_byte_tuple":
                                for y in trace(b, x.data["a"][0], through_calls=False):
                                    if y.kind == "call":
                                        out.add(y.data["f"].get("name"))
                return out
            ok = end_of(c[0]["a"][0]) == {"x"} and end_of(c[0]["a"][1]) == {"y"}
        ctx.check(ok, "C08.R2", b.path, "Less=[x,y)", "regular range: RecordsBounds::new(start from x, end from y)", b.sp)
    if "Equal" in arms:
        p = arms["Equal"]
        calls = P.calls(p)
        ok = "namespace" in calls and "to_byte_tuple" not in calls and "chain_none" in calls
        ctx.check(ok, "C08.R2", b.path, "Equal=whole-namespace", "x == y scans the namespace bounds (calls %s)" % [c for c in calls if c in ("namespace", "new", "from_start", "to_end", "chain", "chain_none")], b.sp)
    if "Greater" in arms:
        p = arms["Greater"]
        calls = P.calls(p)
        ok = "from_start" in calls and "to_end" in calls and "chain" in calls and calls.index("from_start") < calls.index("to_end")
        ch = [e[2] for e in p.events if e[0] == "call" and e[1] == "chain"]
        if ok and len(ch) == 1:
            def bounds_ctor(op):
                out = set()
                seen = 0
                for o in leaves(b, op, expand_calls=False):
                    pass
                stack = list(trace(b, op, through_calls=False))
                names = set()
                depth = 0
                while stack and depth < 60:
                    depth += 1
                    o = stack.pop()
                    if o.kind == "call":
                        nm = o.data["f"].get("name")
                        if nm in ("from_start", "to_end", "new", "namespace"):
                            names.add(nm)
                        else:
                            for a in o.data["a"]:
                                if a[0] != "const":
                                    stack.extend(trace(b, a, through_calls=False))
                    elif o.kind == "agg":
                        for a in o.data[1]:
                            if a[0] != "const":
                                stack.extend(trace(b, a, through_calls=False))
                return names
            first, second = bounds_ctor(ch[0]["a"][0]), bounds_ctor(ch[0]["a"][1])
            ok = first == {"from_start"} and second == {"to_end"}
            ctx.check(ok, "C08.R2", b.path, "Greater=[start,y)++[x,end)", "wrap-around: first %s chained before %s" % (sorted(first), sorted(second)), ch[0]["sp"])
        else:
            ctx.bad("C08.R2", b.path, "Greater=[start,y)++[x,end)", "calls %s" % [c for c in calls if c in ("from_start", "to_end", "chain")], b.sp)
    # from_start / to_end use the namespace start / end
    for path, which in (("store::fs::bounds::RecordsBounds::from_start", "namespace_start"), ("store::fs::bounds::RecordsBounds::to_end", "namespace_end")):
        bb = f.body(path)
        ctx.touch(bb)
        ok = any(t["f"].get("name") == which for _, t in bb.calls())
        nw = [t for _, t in bb.calls() if t["f"].get("name") == "new"]
        if ok and len(nw) == 1:
            pos = 0 if which == "namespace_start" else 1
            ok = any(o.kind == "call" and o.data["f"].get("name") == which for o in trace(bb, nw[0]["a"][pos], through_calls=False))
            other = {origin_summary(o) for o in trace(bb, nw[0]["a"][1 - pos])}
            ok = ok and other == {"arg:%s" % ("end" if pos == 0 else "start")}
        ctx.check(ok, "C08.R2", path, "uses-%s" % which, "%s = new(%s)" % (path.split("::")[-1], "namespace_start, end" if which == "namespace_start" else "start, namespace_end"), bb.sp)
    ctx.floor("C08.R2", 9)


def r3(ctx):
    f = ctx.facts
    b = f.body(SI + "get_fingerprint")
    ctx.touch(b)
    gr = [(bi, t) for bi, t in b.calls() if t["f"].get("name") == "get_range"]
    em = [(bi, t) for bi, t in b.calls() if callee_matches(t, r"ranger::Fingerprint::empty$")]
    xo = [(bi, t) for bi, t in b.calls() if t["f"].get("name") == "bitxor_assign"]
    af = [(bi, t) for bi, t in b.calls() if t["f"].get("name") == "as_fingerprint"]
    ok = len(gr) == 1 and len(em) == 1 and len(xo) == 1 and len(af) == 1
    if ok:
        rng = {origin_summary(o) for o in trace(b, gr[0][1]["a"][1])}
        acc = trace(b, xo[0][1]["a"][0])
        rhs = trace(b, xo[0][1]["a"][1], through_calls=False)
        ok = rng == {"arg:range"} and any(o.kind == "call" and o.data is em[0][1] for o in trace(b, xo[0][1]["a"][0], through_calls=False)) \
            and any(o.kind == "call" and o.data is af[0][1] for o in rhs)
        # element fingerprinted is the iterated element
        el = trace(b, af[0][1]["a"][0], through_calls=False)
    ctx.check(ok, "C08.R3", b.path, "fp=xor-fold-over-get_range(range)", "fp starts at Fingerprint::empty(), fp ^= el.as_fingerprint() for el in get_range(range.clone())", b.sp)
    ret = [p for p in P.explore(b) if p.ret[0] == "variant" and p.ret[1] == "Ok"]
    ctx.check(bool(ret) and all(P.short(p.ret) == "Ok(call:empty)" for p in ret), "C08.R3", b.path, "returns-the-accumulator", "%s" % sorted({P.short(p.ret) for p in ret}), b.sp)
    # every element is folded: no path from Some(el) back to next() without the xor
    nx = [bi for bi, t in b.calls() if t["f"].get("name") == "next"]
    if len(nx) == 1 and xo:
        some = call_outcomes(b, nx[0]).get("Some")
        byp = False
        if some:
            region = b.reach_from_edges([some[1]], avoid={xo[0][0]})
            rets_ok = [x for x in region if b.blocks[x]["t"]["k"] == "return"]
            byp = nx[0] in region
        ctx.check(bool(some) and not byp, "C08.R3", b.path, "every-element-folded", "no element of the range is skipped by the fold", b.sp)
    fx = f.body("<ranger::Fingerprint as std::ops::BitXorAssign>::bitxor_assign")
    ctx.touch(fx)
    xs = [s for _, _, s in fx.statements() if s["k"] == "assign" and s["r"][0] == "bin" and s["r"][1] == "BitXor"]
    xc = [t for _, t in fx.calls() if t["f"].get("name") in ("bitxor_assign", "bitxor") and "u8" in t["f"].get("full", "")]
    zipped = any(t["f"].get("name") == "zip" for _, t in fx.calls())
    ctx.check(len(xs) + len(xc) >= 1 and zipped, "C08.R3", fx.path, "is-bytewise-xor", "self.0 zip rhs.0, a ^= b (%d xor ops)" % (len(xs) + len(xc)), fx.sp)
    fe = f.body("ranger::Fingerprint::empty")
    ctx.touch(fe)
    g = f.body(SI + "get_first")
    ctx.touch(g)
    from . import feval as E
    rows = {}
    for scen in ("empty", "row", "error"):
        seen = {}

        def oracle(kind, name, payload, site, scen=scen, seen=seen):
            if kind != "call":
                return None
            t, args, it = payload
            names = [it.tokname(a) for a in args]
            if name == "tables":
                return E.Ok(E.Tok("tables"))
            if name == "namespace" and callee_matches(t, r"RecordsBounds::namespace"):
                seen["bounds"] = names
                return E.Tok("namespace_bounds(%s)" % ",".join(names))
            if name == "range":
                seen["range"] = names
                return E.Ok(E.Tok("iter"))
            if name == "next":
                seen["next"] = seen.get("next", 0) + 1
                if scen == "empty" or seen["next"] > 1:
                    return E.NONE
                if scen == "error":
                    return E.Some(E.Err(E.Tok("storage-error")))
                return E.Some(E.Ok(("tuple", [E.Tok("key_guard"), E.Tok("value_guard")])))
            if name == "value" and names == ["key_guard"]:
                return ("tuple", [E.Tok("k.namespace"), E.Tok("k.author"), E.Tok("k.key")])
            if callee_matches(t, r"sync::RecordIdentifier::new"):
                return E.Tok("RecordIdentifier::new(%s)" % ",".join(names))
            if name == "default":
                return E.Tok("RecordIdentifier::default()")
            return None
        try:
            ret, hp, ev = E.run(f, g.path, [E.href("self")], {"self": E.Tok("self")}, oracle)
            rows[scen] = (E.describe(ret, f), seen.get("bounds"), seen.get("range"))
        except E.Unsupported as e:
            rows[scen] = ("UNSUPPORTED-FORM: %s" % e, None, None)
    want_b = ["self.namespace"]
    okf = rows["empty"][0] == "Ok(RecordIdentifier::default())" and rows["row"][0] == "Ok(RecordIdentifier::new(k.namespace,k.author,k.key))" \
        and rows["error"][0].startswith("Err(") and all(r[1] == want_b and r[2] is not None and any("namespace_bounds(self.namespace)" in x for x in r[2]) for r in rows.values())
    ctx.check(okf, "C08.R3", g.path, "first-key-or-default",
              "by first row of the namespace scan (result, bounds of, range args): %s; spec: empty => default id, row => its (namespace, author, key) in order, error => Err" % rows, g.sp)
    ctx.floor("C08.R3", 5)


def r4(ctx):
    sub = type(ctx)(ctx.prop, ctx.tier, ctx.facts, ctx.cfg)
    C02.r3(sub)
    C02.r4(sub)
    for o in sub.obligations:
        o = dict(o)
        o["key"] = o["key"].replace("C02.R3", "C08.R4").replace("C02.R4", "C08.R4")
        o["rule"] = "C08.R4"
        ctx.obligations.append(o)
        if o["status"] != "holds":
            ctx.violations.append(o)
    ctx.analysed_bodies |= sub.analysed_bodies
    ctx.floor("C08.R4", 6)


def run(ctx):
    ctx.run_rule("C08.R1", r1)
    ctx.run_rule("C08.R2", r2)
    ctx.run_rule("C08.R3", r3)
    ctx.run_rule("C08.R4", r4)

"""Shared pattern recognisers over MIR bodies (guards, outcome edges, comparisons)."""
import re
from . import mir
from .mir import callee_matches, trace, origin_summary, is_noise

RESULT_VARIANTS = {"Ok": 0, "Err": 1}
OPTION_VARIANTS = {"None": 0, "Some": 1}
CONTROLFLOW = {"Continue": 0, "Break": 1}


def find_calls(body, regex, include_noise=False):
    rx = re.compile(regex)
    return [(bi, t) for bi, t in body.calls(include_noise) if callee_matches(t, rx)]


def one_call(body, regex, what=None):
    c = find_calls(body, regex)
    if len(c) != 1:
        raise mir.AnchorMissing("expected exactly one call matching /%s/ in %s, found %d" % (what or regex, body.path, len(c)))
    return c[0]


def uses_of_local(body, l):
    """(bi, si|'t', how) sites where local l is read as a whole or through a projection."""
    out = []
    def in_op(o):
        return o[0] in ("copy", "move") and o[1]["l"] == l
    def in_place(p):
        return p["l"] == l
    for bi, b in enumerate(body.blocks):
        for si, s in enumerate(b["s"]):
            if s["k"] != "assign":
                continue
            r = s["r"]
            k = r[0]
            hit = False
            if k == "use":
                hit = in_op(r[1])
            elif k == "ref":
                hit = in_place(r[2])
            elif k in ("rawptr", "cfd", "discr", "len"):
                hit = in_place(r[1])
            elif k == "bin":
                hit = in_op(r[2]) or in_op(r[3])
            elif k == "un":
                hit = in_op(r[2])
            elif k == "cast":
                hit = in_op(r[2])
            elif k == "agg":
                hit = any(in_op(o) for o in r[2])
            elif k == "repeat":
                hit = in_op(r[1])
            if hit:
                out.append((bi, si, s))
        t = b["t"]
        if t["k"] == "call":
            if any(in_op(a) for a in t["a"]):
                out.append((bi, "t", t))
        elif t["k"] == "switch":
            if in_op(t["d"]):
                out.append((bi, "t", t))
        elif t["k"] == "yield":
            if in_op(t["v"]):
                out.append((bi, "t", t))
    return out


def _switch_edges(body, bi):
    t = body.blocks[bi]["t"]
    assert t["k"] == "switch"
    edges = {}
    for v, tb in t["v"]:
        edges[v] = (bi, tb)
    edges["otherwise"] = (bi, t["o"])
    return edges


def follow_value(body, l, depth=0, seen=None):
    """Follow a freshly produced value in local `l` forward to the branch that tests it.

    Returns dict label -> (from_bb, to_bb) edges, where label is 'true'/'false' for bools or
    the variant name ('Ok','Err','Some','None','Continue','Break') for enum discriminants.
    Returns {} when the value is not branched on in a recognised way."""
    seen = seen or set()
    if l in seen or depth > 8:
        return {}
    seen.add(l)
    res = {}
    ty = body.locals[l]["ty"]
    for bi, si, u in uses_of_local(body, l):
        if si == "t":
            t = u
            if t["k"] == "switch":
                e = _switch_edges(body, bi)
                if ty == "bool":
                    res["false"] = e.get(0, e["otherwise"])
                    res["true"] = e["otherwise"] if 0 in e else e.get(1)
                else:
                    res.update({("val", k): v for k, v in e.items()})
            elif t["k"] == "call":
                f = t["f"]
                name = f.get("name")
                if name == "branch" and callee_matches(t, r"ops::Try"):
                    sub = follow_value(body, t["d"]["l"], depth + 1, seen)
                    if "Continue" in sub:
                        ok_label, err_label = ("Ok", "Err") if ty.startswith("std::result::Result") else ("Some", "None")
                        res[ok_label] = sub["Continue"]
                        if "Break" in sub:
                            res[err_label] = sub["Break"]
                elif name == "not" and callee_matches(t, r"anyhow::__private::not"):
                    sub = follow_value(body, t["d"]["l"], depth + 1, seen)
                    if "true" in sub:
                        res["true"] = sub["false"]
                        res["false"] = sub["true"]
                elif name in ("is_ok", "is_some"):
                    sub = follow_value(body, t["d"]["l"], depth + 1, seen)
                    if "true" in sub:
                        pos, neg = ("Ok", "Err") if name == "is_ok" else ("Some", "None")
                        res[pos] = sub["true"]
                        res[neg] = sub["false"]
                elif name in ("is_err", "is_none"):
                    sub = follow_value(body, t["d"]["l"], depth + 1, seen)
                    if "true" in sub:
                        pos, neg = ("Err", "Ok") if name == "is_err" else ("None", "Some")
                        res[pos] = sub["true"]
                        res[neg] = sub["false"]
                elif name in ("map_err", "context", "with_context", "into", "from", "ok_or", "ok_or_else", "map", "into_future", "poll"):
                    # result-preserving adapters: Ok stays Ok, Err stays Err
                    sub = follow_value(body, t["d"]["l"], depth + 1, seen)
                    for k, v in sub.items():
                        res.setdefault(k, v)
            continue
        s = u
        r = s["r"]
        dl = s["p"]["l"]
        if s["p"]["p"]:
            continue
        if r[0] == "discr":
            sub = follow_value(body, dl, depth + 1, seen)
            # map discriminant values to variant names using the type
            names = None
            if ty.startswith("std::result::Result") or ty.startswith("&std::result::Result"):
                names = {0: "Ok", 1: "Err"}
            elif ty.startswith("std::option::Option") or ty.startswith("&std::option::Option"):
                names = {0: "None", 1: "Some"}
            elif ty.startswith("std::ops::ControlFlow"):
                names = {0: "Continue", 1: "Break"}
            for k, v in sub.items():
                if isinstance(k, tuple) and k[0] == "val":
                    if names and k[1] in names:
                        res[names[k[1]]] = v
                    elif names and k[1] == "otherwise":
                        listed = {kk[1] for kk in sub if isinstance(kk, tuple) and kk[0] == "val" and kk[1] != "otherwise"}
                        missing = [n for i, n in names.items() if i not in listed]
                        if len(missing) == 1 and body.blocks[v[1]]["t"]["k"] != "unreachable":
                            res.setdefault(missing[0], v)
                    else:
                        res[("variant", k[1])] = v
        elif r[0] == "un" and r[1] == "Not":
            sub = follow_value(body, dl, depth + 1, seen)
            if "true" in sub:
                res["true"] = sub["false"]
                res["false"] = sub["true"]
        elif r[0] in ("use", "ref", "cfd"):
            sub = follow_value(body, dl, depth + 1, seen)
            for k, v in sub.items():
                res.setdefault(k, v)
    return res


def call_outcomes(body, bi):
    """Outcome edges of the call terminating block bi (see follow_value)."""
    t = body.blocks[bi]["t"]
    d = t["d"]
    if d["p"]:
        return {}
    return follow_value(body, d["l"])


def edge_dominates_block(body, edge, target_bb):
    a, b = edge
    return body.edge_dominates(a, b, target_bb)


def guarded_by(body, target_bb, guard_regex, outcome):
    """True iff block target_bb is dominated by the `outcome` edge of some call matching guard_regex."""
    for bi, t in find_calls(body, guard_regex):
        oc = call_outcomes(body, bi)
        e = oc.get(outcome)
        if e and body.edge_dominates(e[0], e[1], target_bb):
            return (bi, t)
    return None


def const_value(op):
    if op[0] == "const":
        return op[1].get("val")
    return None


def blocks_on_paths_between(body, start_bb, end_bb):
    """blocks reachable from start_bb that can reach end_bb"""
    fwd = body.reachable(start_bb)
    # backward reach
    pred = body.pred()
    seen = {end_bb}
    stack = [end_bb]
    while stack:
        b = stack.pop()
        for p in pred[b]:
            if p not in seen:
                seen.add(p)
                stack.append(p)
    return fwd & seen


def return_kinds(body):
    """For each return-reaching assignment to _0 classify: 'Ok', 'Err', 'residual', 'other'.
    Returns list of (bi, kind, detail)."""
    out = []
    for bi, si, s in body.statements():
        if s["k"] == "assign" and s["p"]["l"] == 0 and not s["p"]["p"]:
            r = s["r"]
            if r[0] == "agg" and r[1][0] == "adt":
                out.append((bi, r[1][2], r))
            else:
                out.append((bi, "other", r))
    for bi, t in body.calls(include_noise=True):
        if t["d"]["l"] == 0 and not t["d"]["p"]:
            if t["f"].get("name") == "from_residual":
                out.append((bi, "residual", t))
            else:
                out.append((bi, "call", t))
    return out


CMP_METHODS = {"lt": "<", "le": "<=", "gt": ">", "ge": ">=", "eq": "==", "ne": "!="}
CMP_BINOPS = {"Lt": "<", "Le": "<=", "Gt": ">", "Ge": ">=", "Eq": "==", "Ne": "!="}

TRUTH = {
    "<": {"Less": True, "Equal": False, "Greater": False},
    "<=": {"Less": True, "Equal": True, "Greater": False},
    ">": {"Less": False, "Equal": False, "Greater": True},
    ">=": {"Less": False, "Equal": True, "Greater": True},
    "==": {"Less": False, "Equal": True, "Greater": False},
    "!=": {"Less": True, "Equal": False, "Greater": True},
}


def flip(table):
    return {"Less": table["Greater"], "Equal": table["Equal"], "Greater": table["Less"]}


def comparisons(body):
    """All comparison sites in a body: list of dicts {bb, si, op, a, b, dest} (a op b)."""
    out = []
    for bi, t in body.calls():
        n = t["f"].get("name")
        if n in CMP_METHODS and callee_matches(t, r"cmp::Partial(Ord|Eq)") and len(t["a"]) == 2:
            out.append({"bb": bi, "si": "t", "op": CMP_METHODS[n], "a": t["a"][0], "b": t["a"][1], "dest": t["d"], "loc": t["sp"], "x": t["x"]})
    for bi, si, s in body.statements():
        if s["k"] == "assign" and s["r"][0] == "bin" and s["r"][1] in CMP_BINOPS:
            out.append({"bb": bi, "si": si, "op": CMP_BINOPS[s["r"][1]], "a": s["r"][2], "b": s["r"][3], "dest": s["p"], "loc": s["sp"], "x": s["x"]})
    return out


def cmp_truth_table(cmp, label_a, label_b):
    """Given a comparison site and the labels of its two operands ('A'/'B'), return the truth
    table of the site as a function of cmp(A, B)."""
    tbl = TRUTH[cmp["op"]]
    if (label_a, label_b) == ("A", "B"):
        return dict(tbl)
    if (label_a, label_b) == ("B", "A"):
        return flip(tbl)
    return None


def origins_text(body, op):
    return sorted({origin_summary(o) for o in trace(body, op)})


# ---------------------------------------------------------------------------- ensures (chain dominance)

SUCCESS_LABELS = ("Ok", "Some", "true", "Continue")


def success_sites(body):
    """Blocks where the function's success value is produced: `_0 = Ok/Some{..}`, `_0 = true`,
    or `_0 = call(..)` (the callee's verdict is returned). from_residual returns are failures."""
    out = []
    reach = body.reachable()
    for bi, b in enumerate(body.blocks):
        if bi not in reach:
            continue
        for si, s in enumerate(b["s"]):
            if s["k"] == "assign" and s["p"]["l"] == 0 and not s["p"]["p"]:
                r = s["r"]
                if r[0] == "agg" and r[1][0] == "adt" and r[1][2] in ("Ok", "Some"):
                    out.append((bi, "agg", s))
                elif r[0] == "use" and r[1][0] == "const" and r[1][1].get("val") == 1:
                    out.append((bi, "true", s))
                elif r[0] == "use" and r[1][0] in ("copy", "move"):
                    out.append((bi, "value", s))
                elif r[0] == "agg" and r[1][0] == "adt" and r[1][2] in ("Err", "None"):
                    pass
                elif r[0] == "use" and r[1][0] == "const":
                    pass
                else:
                    out.append((bi, "value", s))
        t = b["t"]
        if t["k"] == "call" and t["d"]["l"] == 0 and not t["d"]["p"]:
            if t["f"].get("name") == "from_residual":
                continue
            out.append((bi, "call", t))
    return out


class Ensures:
    """ensures(F, G): every success return of F implies that a call matching G succeeded
    (directly in F, or in a callee that itself ensures G). Closures/async blocks: the coroutine
    body of an `async fn` is looked up as `<path>::{closure#0}`."""

    def __init__(self, facts, guard_regex, depth=4):
        self.f = facts
        self.rx = re.compile(guard_regex)
        self.memo = {}
        self.depth = depth
        self.why = {}

    def is_guard_call(self, t, depth):
        if callee_matches(t, self.rx):
            return True
        for p in mir.callee_paths(t):
            if self.ensures(p, depth - 1):
                return True
        return False

    def body_of(self, path):
        b = self.f.bodies.get(path)
        if b is None:
            return None
        # async fn: the interesting body is the coroutine
        if b.rec.get("is_async"):
            c = self.f.bodies.get(path + "::{closure#0}")
            if c is not None:
                return c
        return b

    def ensures(self, path, depth=None):
        depth = self.depth if depth is None else depth
        if depth < 0:
            return False
        if path in self.memo:
            return self.memo[path]
        self.memo[path] = False  # recursion guard
        b = self.body_of(path)
        if b is None:
            return False
        ok, why = self.ensures_body(b, depth)
        self.memo[path] = ok
        self.why[path] = why
        return ok

    def ensures_body(self, b, depth=None):
        depth = self.depth if depth is None else depth
        sites = success_sites(b)
        if not sites:
            return False, "no success return recognised"
        guards = []
        for bi, t in b.calls():
            if self.is_guard_call(t, depth):
                oc = call_outcomes(b, bi)
                for lab in SUCCESS_LABELS:
                    if lab in oc:
                        guards.append((bi, t, oc[lab]))
        missing = []
        for bi, how, x in sites:
            sat = False
            if how == "call":
                t = x
                n = t["f"].get("name")
                if self.is_guard_call(t, depth):
                    sat = True
                elif n in ("is_ok", "is_some") and t["a"]:
                    for o in trace(b, t["a"][0], through_calls=False):
                        if o.kind == "call" and self.is_guard_call(o.data, depth):
                            sat = True
                elif n in ("map_err", "map", "context", "with_context", "and_then", "into", "from", "ok_or", "ok_or_else", "expect", "unwrap") and t["a"]:
                    # (`expect` / `unwrap` return only when the value was a success)
                    for o in trace(b, t["a"][0], through_calls=False):
                        if o.kind == "call" and self.is_guard_call(o.data, depth):
                            sat = True
            if not sat:
                for gbi, gt, e in guards:
                    if b.edge_dominates(e[0], e[1], bi):
                        sat = True
                        break
            if not sat:
                missing.append((bi, how, b.loc(bi)))
        if missing:
            return False, "success return at %s is not dominated by a successful guard" % missing[0][2]
        return True, "all %d success returns dominated" % len(sites)


def leaves(body, op, expand_calls=True, max_nodes=200):
    """Provenance leaves of an operand with aggregates (tuples/structs/arrays) and, optionally,
    calls (value built from its arguments) expanded recursively. Returns Origin leaves."""
    out = []
    stack = list(trace(body, op))
    n = 0
    seen = set()
    while stack and n < max_nodes:
        n += 1
        o = stack.pop()
        if o.kind == "agg" and o.data[0][0] in ("tuple", "adt", "array"):
            for x in o.data[1]:
                if x[0] == "const":
                    continue
                stack.extend(trace(body, x))
        elif o.kind == "expr" and o.data[0] == "repeat" and o.data[1][0] == "const":
            continue  # [CONST; N]
        elif o.kind == "expr" and o.data[0] == "bin":
            for x in (o.data[2], o.data[3]):
                if x[0] != "const":
                    stack.extend(trace(body, x))
        elif o.kind == "expr" and o.data[0] == "un":
            if o.data[2][0] != "const":
                stack.extend(trace(body, o.data[2]))
        elif o.kind == "call" and expand_calls and o.data["a"] and id(o.data) not in seen:
            seen.add(id(o.data))
            nonconst = [a for a in o.data["a"] if a[0] != "const"]
            if not nonconst:
                out.append(o)
            for a in nonconst:
                stack.extend(trace(body, a))
        else:
            out.append(o)
    return out


def variant_edges(body, ty_pred, variant_index, place_pred=None):
    """CFG edges on which a value of an enum type (ty_pred(type string) true) is known to be the
    variant with index `variant_index`: the matching arm of a `switch discr(place)`, the `otherwise`
    arm when every other variant is listed, and - through `matches!` / `if let` temporaries - the
    true edge of a switch on a bool local all of whose `true` assignments are dominated by such an
    edge."""
    direct = []
    for bi, blk in enumerate(body.blocks):
        tt = blk["t"]
        if tt["k"] != "switch" or tt["d"][0] not in ("copy", "move") or mir.is_noise(tt["x"]):
            continue
        ds = body.defs().get(tt["d"][1]["l"], [])
        if len(ds) != 1 or ds[0][2] != "assign" or ds[0][3]["r"][0] != "discr":
            continue
        pl = ds[0][3]["r"][1]
        ty = body.locals[pl["l"]]["ty"]
        for pr in pl["p"]:
            if pr[0] == "field" and len(pr) > 3:
                ty = pr[3]
        if not ty_pred(ty.lstrip("&").replace("mut ", "")):
            continue
        if place_pred is not None and not place_pred(pl):
            continue
        listed = [v for v, tb in tt["v"]]
        for v, tb in tt["v"]:
            if v == variant_index:
                direct.append((bi, tb))
        if variant_index not in listed and body.blocks[tt["o"]]["t"]["k"] != "unreachable":
            direct.append((bi, tt["o"]))
    edges = list(direct)
    # bool temporaries
    for bi, blk in enumerate(body.blocks):
        tt = blk["t"]
        if tt["k"] != "switch" or tt["d"][0] not in ("copy", "move") or tt["d"][1]["p"]:
            continue
        m = tt["d"][1]["l"]
        if body.locals[m]["ty"] != "bool":
            continue
        srcs = {m}
        for d in body.defs().get(m, []):
            if d[2] == "assign" and d[3]["r"][0] == "use" and d[3]["r"][1][0] in ("copy", "move") and not d[3]["r"][1][1]["p"]:
                srcs.add(d[3]["r"][1][1]["l"])
        trues = []
        ok = True
        for src in srcs:
            for d in body.defs().get(src, []):
                if d[2] != "assign":
                    ok = ok and (src == m and False or True)
                    continue
                r = d[3]["r"]
                if r[0] == "use" and r[1][0] == "const":
                    if r[1][1].get("val") == 1:
                        trues.append(d[0])
                elif r[0] == "use" and r[1][0] in ("copy", "move") and not r[1][1]["p"] and r[1][1]["l"] in srcs:
                    pass
                else:
                    ok = False
        if not ok or not trues:
            continue
        if all(any(body.edge_dominates(a, b2, tb) for a, b2 in direct) for tb in trues):
            edges.append((bi, tt["o"]))
    return edges


def dominated_by_any(body, edges, site_bb):
    return any(body.edge_dominates(a, b, site_bb) for a, b in edges)


def ip_trace(facts, body, op, scope, depth=2, **kw):
    """Provenance of `op` in `body`, with parameters of helper functions mapped back to the operand
    passed at their unique call site inside `scope` (a list of bodies). Returns [(body, Origin)]:
    each leaf together with the body in which it is expressed."""
    out = []
    for o in trace(body, op, **kw):
        mapped = False
        if o.kind == "arg" and depth > 0 and body.kind in ("fn", "assoc_fn"):
            idx = o.data[0]
            sites = []
            for cb in scope:
                for bi, t in cb.calls():
                    if body.path in mir.callee_paths(t) and len(t["a"]) >= idx:
                        sites.append((cb, t))
            if len(sites) == 1:
                cb, t = sites[0]
                a = t["a"][idx - 1]
                if a[0] != "const":
                    sub = ip_trace(facts, cb, a, scope, depth - 1, **kw)
                    # re-apply the field projections seen inside the helper
                    for sb, so in sub:
                        so2 = mir.Origin(so.kind, so.data, tuple(so.projs) + tuple(o.projs), so.site)
                        out.append((sb, so2))
                    mapped = True
        if not mapped:
            out.append((body, o))
    return out


def truth_edges(body, bool_local, want=True):
    """edges on which the bool held in `bool_local` is known to be `want`: the matching edge of a
    switch on it (or on a copy), and - through `matches!`/`if let ... if guard` temporaries - the
    true edge of a switch on another bool local all of whose `true` assignments are dominated by
    such an edge."""
    direct = []
    srcs = {bool_local}
    changed = True
    while changed:
        changed = False
        for bi, si, s in body.statements():
            if s["k"] == "assign" and not s["p"]["p"] and s["p"]["l"] not in srcs and s["r"][0] == "use" and s["r"][1][0] in ("copy", "move") and not s["r"][1][1]["p"] and s["r"][1][1]["l"] in srcs:
                srcs.add(s["p"]["l"])
                changed = True
    for bi, blk in enumerate(body.blocks):
        tt = blk["t"]
        if tt["k"] == "switch" and tt["d"][0] in ("copy", "move") and not tt["d"][1]["p"] and tt["d"][1]["l"] in srcs:
            zero = dict(tt["v"]).get(0)
            if want:
                direct.append((bi, tt["o"]) if zero is not None else (bi, dict(tt["v"]).get(1, tt["o"])))
            elif zero is not None:
                direct.append((bi, zero))
            else:
                direct.append((bi, tt["o"]))
    edges = list(direct)
    if want:
        for bi, blk in enumerate(body.blocks):
            tt = blk["t"]
            if tt["k"] != "switch" or tt["d"][0] not in ("copy", "move") or tt["d"][1]["p"]:
                continue
            m = tt["d"][1]["l"]
            if m in srcs or body.locals[m]["ty"] != "bool":
                continue
            msrc = {m}
            for d in body.defs().get(m, []):
                if d[2] == "assign" and d[3]["r"][0] == "use" and d[3]["r"][1][0] in ("copy", "move") and not d[3]["r"][1][1]["p"]:
                    msrc.add(d[3]["r"][1][1]["l"])
            trues = []
            ok = True
            for src in msrc:
                for d in body.defs().get(src, []):
                    if d[2] != "assign":
                        ok = False
                        continue
                    r = d[3]["r"]
                    if r[0] == "use" and r[1][0] == "const":
                        if r[1][1].get("val") == 1:
                            trues.append(d[0])
                    elif r[0] == "use" and r[1][0] in ("copy", "move") and not r[1][1]["p"] and (r[1][1]["l"] in msrc or r[1][1]["l"] in srcs):
                        pass
                    else:
                        ok = False
            if ok and trues and all(any(body.edge_dominates(a, b2, tb) for a, b2 in direct) for tb in trues):
                edges.append((bi, tt["o"]))
    return edges


def _expand_aggs(body, origins, depth=3):
    out = []
    for o in origins:
        if o.kind == "agg" and o.data[0][0] in ("tuple", "adt", "array") and depth > 0:
            ops = [x for x in o.data[1] if x[0] != "const"]
            if not ops:
                out.append(o)
            for x in ops:
                out += _expand_aggs(body, trace(body, x), depth - 1)
        else:
            out.append(o)
    return out


def lift_origins(facts, body, origins, top, depth=4):
    """Re-express provenance leaves found inside a closure in terms of the enclosing body `top`:
    captured variables are resolved through the closure aggregate, closure parameters through the
    receiver of the adaptor call (`opt.is_some_and(closure)`, `iter.map(closure)`, ...) the closure
    is passed to. Returns a list of Origins expressed in `top` (or unresolved leaves as they are)."""
    out = []
    for o in origins:
        if body is top or depth <= 0:
            out.append(o)
            continue
        if o.kind == "upvar":
            idx = [p[1] for p in o.projs if p[0] == "field"]
            up = mir.upvar_origins(facts, body, idx[0]) if idx else None
            if up:
                pb, porigs = up
                out += lift_origins(facts, pb, _expand_aggs(pb, porigs), top, depth - 1)
                continue
        if o.kind == "arg" and o.data[0] >= 2:
            site = mir.closure_site(facts, body)
            if site:
                pb, pbi, psi, ps = site
                cl_local = ps["p"]["l"]
                hit = False
                for qbi, qt in pb.calls():
                    if any(a[0] in ("copy", "move") and not a[1]["p"] and a[1]["l"] == cl_local for a in qt["a"][1:]) and qt["a"]:
                        hit = True
                        out += lift_origins(facts, pb, _expand_aggs(pb, trace(pb, qt["a"][0])), top, depth - 1)
                if hit:
                    continue
        out.append(o)
    return out


def truth_edges_final(body, bool_local, want=True):
    """like truth_edges, but a direct edge that only feeds a `matches!`-style temporary (it dominates
    one of the temporary's `true` assignments) is replaced by the edge of the final test on that
    temporary: path-insensitive reachability from the direct edge would otherwise include both arms
    of the final switch"""
    es = truth_edges(body, bool_local, want)
    if len(es) <= 1:
        return es
    final = []
    for e in es:
        feeds = False
        for e2 in es:
            if e2 is e:
                continue
            m = body.blocks[e2[0]]["t"]["d"]
            if m[0] not in ("copy", "move"):
                continue
            msrc = {m[1]["l"]}
            for d in body.defs().get(m[1]["l"], []):
                if d[2] == "assign" and d[3]["r"][0] == "use" and d[3]["r"][1][0] in ("copy", "move") and not d[3]["r"][1][1]["p"]:
                    msrc.add(d[3]["r"][1][1]["l"])
            for src in msrc:
                for d in body.defs().get(src, []):
                    if d[2] == "assign" and d[3]["r"][0] == "use" and d[3]["r"][1][0] == "const" and d[3]["r"][1][1].get("val") == 1:
                        if body.edge_dominates(e[0], e[1], d[0]):
                            feeds = True
        if not feeds:
            final.append(e)
    return final or es


def outer_leaves(facts, outer, body, op, depth=4, expand_calls=True):
    """Provenance leaves of `op` (in `body`, a closure nested in `outer` or a helper called from
    there) expressed in `outer`: aggregates/calls expanded (`leaves`), captured variables resolved
    through the closure aggregate, parameters of a named helper through its unique call site in
    outer's scope. Returns [(body the leaf is expressed in, Origin)]."""
    out = []
    for o in leaves(body, op, expand_calls=expand_calls):
        if body is outer or depth <= 0:
            out.append((body, o))
            continue
        if o.kind == "upvar":
            idx = [p[1] for p in o.projs if p[0] == "field"]
            site = mir.closure_site(facts, body)
            if idx and site:
                pb, pbi, psi, ps = site
                ops = ps["r"][2]
                if idx[0] < len(ops) and ops[idx[0]][0] != "const":
                    out += outer_leaves(facts, outer, pb, ops[idx[0]], depth - 1, expand_calls)
                    continue
        if o.kind == "arg" and body.kind in ("fn", "assoc_fn"):
            sites = [(cb, t) for cb, bi, t in facts.callers().get(body.path, [])]
            if len(sites) == 1 and len(sites[0][1]["a"]) >= o.data[0]:
                cb, t = sites[0]
                a = t["a"][o.data[0] - 1]
                if a[0] != "const":
                    out += outer_leaves(facts, outer, cb, a, depth - 1, expand_calls)
                    continue
        out.append((body, o))
    return out


def outer_names(facts, outer, body, op, **kw):
    """names of the leaves of outer_leaves: `arg:<name>` for parameters of `outer`, origin summaries otherwise"""
    out = set()
    for b, o in outer_leaves(facts, outer, body, op, **kw):
        if o.kind == "arg":
            out.add(("arg:%s" % o.data[1]) if b is outer else ("arg:%s@%s" % (o.data[1], b.path)))
        elif o.kind == "upvar":
            out.add("upvar:%s@%s" % (o.data, b.path))
        else:
            out.add(mir.origin_summary(o))
    return out


def outer_site(facts, outer, body, bi, depth=4):
    """Block of `outer` at which the code of block `bi` of `body` runs: `bi` itself if body is outer;
    for a closure, the call in its parent to which the closure value is passed (for_each, map, modify, ...);
    for a named helper with a single call site, that call site. None if it cannot be placed."""
    if body is outer:
        return bi
    if depth <= 0:
        return None
    site = mir.closure_site(facts, body)
    if site:
        pb, pbi, psi, ps = site
        hits = []
        for qbi, qt in pb.calls():
            for a in qt["a"]:
                if a[0] == "const":
                    continue
                if any(o.kind == "agg" and o.data[0][0] in ("closure", "coroutine", "coroutine_closure") and o.data[0][1] == body.path for o in trace(pb, a, through_calls=False)):
                    hits.append(qbi)
        if len(hits) == 1:
            return outer_site(facts, outer, pb, hits[0], depth - 1)
        if not hits and body.parent == pb.path:
            # a coroutine body: runs where its parent is entered
            return outer_site(facts, outer, pb, pbi, depth - 1)
        return None
    if body.parent and body.parent in facts.bodies and body.kind not in ("fn", "assoc_fn"):
        return outer_site(facts, outer, facts.bodies[body.parent], 0, depth - 1)
    callers = facts.callers().get(body.path, [])
    if len(callers) == 1:
        cb, cbi, ct = callers[0]
        return outer_site(facts, outer, cb, cbi, depth - 1)
    return None


def chain_has_call(body, op, pred, depth=0, max_depth=10):
    """`op` is produced by a chain of calls followed through their first (receiver) argument -
    adaptors, `?`, `.await` plumbing (into_future / new_unchecked / poll) - that includes a call
    satisfying pred(terminator)"""
    if depth > max_depth or op is None or op[0] == "const":
        return False
    for o in trace(body, op, through_calls=False):
        if o.kind == "call":
            if pred(o.data):
                return True
            if o.data["a"] and chain_has_call(body, o.data["a"][0], pred, depth + 1, max_depth):
                return True
    return False

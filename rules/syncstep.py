"""One reconciliation step of a replica (sync::Replica::sync_process_message) evaluated (K6') on: replica open / closed x the
outcome of the store's process_message (a reply, the end of the exchange, an error). The session accounting the properties
speak of - `num_recv` grows by the number of entries of the incoming message, `heads_received` learns (author, timestamp) of
every incoming entry, both before the message is processed; `num_sent` grows by the number of entries of the reply exactly
when there is one - is read off the final state, whatever helper, loop or iterator chain computes it."""
from . import mir

SPM = "sync::Replica::<'a, I>::sync_process_message"


def evaluate(f, closed, outcome, callbacks=None, marker=None):
    from . import feval as E, coll
    C = coll.Collections(f)
    log = []

    def oracle(kind, name, payload, site):
        if kind == "await":
            if str(name) == "fut:send":
                return E.UNIT
            if str(name) == "fut:process_message":
                return {"reply": E.Ok(E.Some(E.Tok("reply"))), "done": E.Ok(E.NONE), "error": E.Err(E.Tok("store-error"))}[outcome]
            return None
        if kind != "call":
            return None
        t, args, it = payload
        names = [it.tokname(a).strip("&*") for a in args]
        if name == "process_message" and mir.callee_matches(t, r"ranger::Store"):
            log.append(("process_message", names[2] if len(names) > 2 else None))
            if callbacks is not None and len(args) == 6:
                # what the store would do with an incoming entry: ask the validate callback, and (when it was stored) hand it to
                # the on-insert callback; for an outgoing entry, ask the content-status callback
                it.heap["incoming"] = E.Tok("incoming-entry")
                v = it.apply(args[3], [args[0], E.href("incoming"), E.Tok("incoming-status")])
                callbacks.append(("validate", E.describe(it.resolve(v), f)))
                r = it.drive(it.apply(args[4], [args[0], E.Tok("incoming-entry"), E.Tok("incoming-status")]))
                callbacks.append(("on-insert-returned", E.describe(it.resolve(r), f)))
                it.heap["outgoing"] = E.Tok("outgoing-entry")
                r = it.drive(it.apply(args[5], [E.href("outgoing")]))
                callbacks.append(("content-status", E.describe(it.resolve(r), f)))
            return E.Tok("fut:process_message")
        if mir.callee_matches(t, r"sync::Subscribers::send(_with)?$"):
            ev = it.apply(args[1], []) if name == "send_with" else args[1]
            if callbacks is not None:
                callbacks.append(("event", E.describe(it.resolve(ev), f)))
            return E.Tok("fut:send")
        if mir.callee_matches(t, r"(^|::)sync::validate_entry$"):
            if callbacks is not None:
                callbacks.append(("validate_entry", tuple(names[:1] + names[2:4]) + (E.describe(it.resolve(args[4]), f),)))
            return E.Ok(E.UNIT)
        if mir.callee_matches(t, r"validate_empty$"):
            if callbacks is not None:
                callbacks.append(("validate_empty", names[0]))
            return E.Ok(E.UNIT)
        if mir.callee_matches(t, r"store::DownloadPolicy::matches$"):
            return E.Tok("matches(%s,%s)" % (names[0], names[1]))
        if name == "clone" and names and names[0] in ("incoming-entry", "policy"):
            return E.Tok(names[0])
        if name == "entry" and names and names[0] == "incoming-entry":
            return E.Tok("incoming-entry")
        if marker is not None and name in ("is_empty", "is_deletion", "is_tombstone") and names and names[0] in ("incoming-entry", "record(incoming-entry)"):
            return E.Int(marker)      # (cells of round 13: the incoming entry is / is not a deletion marker)
        if marker is not None and name in ("content_len", "len") and names and names[0] in ("incoming-entry", "record(incoming-entry)"):
            return E.Int(0 if marker else 7)
        if name == "value_count":
            return E.Int(2 if names[0] == "message" else 3 if names[0] == "reply" else 99)
        if name == "values" and names[0] == "message":
            it.heap["value1"] = ("tuple", [E.Tok("e1"), E.Tok("cs1")])
            it.heap["value2"] = ("tuple", [E.Tok("e2"), E.Tok("cs2")])
            return coll.seq("iter", [E.href("value1"), E.href("value2")])
        if mir.callee_matches(t, r"heads::AuthorHeads::insert$"):
            log.append(("heads.insert", tuple(names[1:])))
            return E.UNIT
        if name == "system_time_now":
            return E.Tok("now")
        if name == "get_download_policy":
            if callbacks is not None:
                callbacks.append(("get_download_policy", tuple(names)))
            return E.Ok(E.Tok("policy"))
        if name == "deref" or name == "deref_mut":
            return None
        return C.handle(kind, name, payload, site)
    heap = {
        "info": E.struct(f, "sync::ReplicaInfo", capability=E.Tok("capability"), subscribers=E.Tok("subscribers"), content_status_cb=E.NONE, closed=E.Int(closed)),
        "state": E.struct(f, "sync::SyncOutcome", heads_received=E.Tok("heads"), num_recv=E.Int(5), num_sent=E.Int(7)),
    }
    heap["self"] = E.struct(f, "sync::Replica", store=E.Tok("store"), info=E.href("info"))
    ret, hp, evs = E.run_async(f, SPM, [E.href("self"), E.Tok("message"), E.Tok("from_peer"), E.href("state")], heap, oracle)
    st = hp["state"]
    return E.describe(ret, f), E.describe(E.field(f, st, "sync::SyncOutcome", "num_recv"), f), E.describe(E.field(f, st, "sync::SyncOutcome", "num_sent"), f), log


def check(ctx, rule):
    from . import feval as E
    f = ctx.facts
    b = f.body(SPM + "::{closure#0}")
    ctx.touch(b)
    for closed in (0, 1):
        for outcome in ("reply", "done", "error"):
            key = "session-step[replica=%s,process_message=%s]" % ("closed" if closed else "open", outcome)
            try:
                ret, nr, nsent, log = evaluate(f, closed, outcome)
            except E.Unsupported as e:
                ctx.bad(rule, SPM, key, "UNSUPPORTED-FORM: %s" % e, b.sp)
                continue
            problems = []
            pm = [i for i, x in enumerate(log) if x[0] == "process_message"]
            if closed:
                if not ret.startswith("Err"):
                    problems.append("returns %s on a closed replica" % ret)
                if (nr, nsent) != ("5", "7") or log:
                    problems.append("a closed replica must change nothing: counters %s/%s, effects %s" % (nr, nsent, log))
            else:
                if len(pm) != 1 or log[pm[0]][1] != "message":
                    problems.append("the incoming message is processed exactly once: %s" % log)
                else:
                    before = log[:pm[0]]
                    want = [("heads.insert", ("author(e1)", "timestamp(e1)")), ("heads.insert", ("author(e2)", "timestamp(e2)"))]
                    if before != want or log[pm[0] + 1:]:
                        problems.append("heads_received must learn (author, timestamp) of every incoming entry, before processing: %s" % log)
                if nr != "7":
                    problems.append("num_recv 5 -> %s, spec 5 + 2 incoming entries" % nr)
                wret = {"reply": "Ok(Some(reply))", "done": "Ok(None)", "error": "Err"}[outcome]
                if not ret.startswith(wret):
                    problems.append("returns %s, spec %s" % (ret, wret))
                wsent = "10" if outcome == "reply" else "7"
                if nsent != wsent:
                    problems.append("num_sent 7 -> %s, spec %s" % (nsent, wsent))
            ctx.check(not problems, rule, SPM, key,
                      "returns %s, num_recv 5 -> %s (message carries 2 entries), num_sent 7 -> %s (a reply carries 3), effects %s" % (ret, nr, nsent, log),
                      b.sp, bad_detail="; ".join(problems))


# ------------------------------------------------------------------------------------------------ the direct ingress path
IRE = "sync::Replica::<'a, I>::insert_remote_entry"
IEN = "sync::Replica::<'a, I>::insert_entry"


def _event(f, E, it, ev):
    """(variant name, {field: rendered value}) of a sync::Event value"""
    v = it.resolve(ev)
    v = it.deref_val(v) if v is not None and v[0] == "ref" else v
    if v is None or v[0] != "adt" or not str(v[1]).endswith("sync::Event"):
        return ("?", {"?": E.describe(v, f)})
    var = f.adt("sync::Event")["variants"][v[2]]
    return (var["name"], {fd["name"]: E.describe(it.resolve(v[3].get(i)), f) for i, fd in enumerate(var["fields"])})


def eval_insert(f, path, local, closed, empty_ok, entry_ok, put):
    """insert_remote_entry (local=False) / insert_entry with a Local origin (local=True) on one cell; returns (result, log)"""
    from . import feval as E, coll
    C = coll.Collections(f)
    log = []

    def oracle(kind, name, payload, site):
        if kind == "await":
            if str(name) == "fut:send":
                return E.UNIT
            return None
        if kind != "call":
            return None
        t, args, it = payload
        names = [it.tokname(a).strip("&*") for a in args]
        if mir.callee_matches(t, r"sync::Subscribers::send(_with)?$"):
            ev = it.apply(args[1], []) if name == "send_with" else args[1]
            log.append(("event",) + _event(f, E, it, ev))
            return E.Tok("fut:send")
        if mir.callee_matches(t, r"(^|::)sync::validate_entry$"):
            log.append(("validate_entry", names[0], names[2], names[3], E.describe(it.resolve(args[4]), f)))
            return E.Ok(E.UNIT) if entry_ok else E.Err(E.Tok("failure"))
        if mir.callee_matches(t, r"validate_empty$"):
            log.append(("validate_empty", names[0]))
            return E.Ok(E.UNIT) if empty_ok else E.Err(E.Tok("InvalidEmptyEntry"))
        if name == "put" and mir.callee_matches(t, r"ranger::Store"):
            log.append(("put", names[1]))
            IO = "ranger::InsertOutcome"
            return {"inserted": E.Ok(E.variant(f, IO, "Inserted", removed=E.Int(3))), "superseded": E.Ok(E.variant(f, IO, "NotInserted")), "error": E.Err(E.Tok("store-error"))}[put]
        if mir.callee_matches(t, r"store::DownloadPolicy::matches$"):
            return E.Tok("matches(%s,%s)" % (names[0], names[1]))
        if name == "get_download_policy":
            return E.Ok(E.Tok("policy-of(%s)" % names[1]))
        if name == "system_time_now":
            return E.Tok("now")
        if name in ("clone", "entry") and names and names[0] == "entry":
            return E.Tok("entry")
        if name in ("deref", "deref_mut"):
            return None
        return C.handle(kind, name, payload, site)
    heap = {"info": E.struct(f, "sync::ReplicaInfo", capability=E.Tok("capability"), subscribers=E.Tok("subscribers"), content_status_cb=E.NONE, closed=E.Int(closed))}
    heap["self"] = E.struct(f, "sync::Replica", store=E.Tok("store"), info=E.href("info"))
    if local:
        args = [E.href("self"), E.Tok("entry"), E.variant(f, "sync::InsertOrigin", "Local")]
    else:
        args = [E.href("self"), E.Tok("entry"), E.Tok("received_from"), E.Tok("content_status")]
    ret, hp, evs = E.run_async(f, path, args, heap, oracle)
    return E.describe(ret, f), log


def check_insert_paths(ctx, rule):
    """the single-entry ingress evaluated: Replica::insert_remote_entry on replica open/closed x validate_empty x validate_entry x
    outcome of put, and Replica::insert_entry with a Local origin on validate_entry x outcome of put. Spec (property text): the
    entry is offered to the store only after both validations succeeded on an open replica; exactly one event, carrying that
    entry, this document, and - for a remote entry - the providing peer, its content status and the download flag the
    document's policy gives for the entry, is sent exactly when the store reports it inserted; nothing otherwise"""
    from . import feval as E
    f = ctx.facts
    n = 0
    for local in (False, True):
        path = IEN if local else IRE
        b = f.body(path + "::{closure#0}")
        ctx.touch(b)
        for closed in ((0,) if local else (0, 1)):
            for empty_ok in ((1,) if local else (1, 0)):
                for entry_ok in (1, 0):
                    for put in ("inserted", "superseded", "error"):
                        if (closed or not empty_ok or not entry_ok) and put != "inserted":
                            continue
                        key = "%s[%s%svalidate_entry=%s,put=%s]" % ("local-insert" if local else "remote-insert", "replica=closed," if closed else "",
                                                                     "" if local else "validate_empty=%s," % ("ok" if empty_ok else "err"), "ok" if entry_ok else "err", put)
                        n += 1
                        try:
                            ret, log = eval_insert(f, path, local, closed, empty_ok, entry_ok, put)
                        except E.Unsupported as e:
                            ctx.bad(rule, path, key, "UNSUPPORTED-FORM: %s" % e, b.sp)
                            continue
                        problems = []
                        puts = [x for x in log if x[0] == "put"]
                        events = [x for x in log if x[0] == "event"]
                        admitted = not closed and empty_ok and entry_ok
                        if not admitted:
                            if puts or events or not ret.startswith("Err"):
                                problems.append("a rejected entry must change nothing and be reported: returns %s, effects %s" % (ret, log))
                        else:
                            order = [x[0] for x in log if x[0] in ("validate_empty", "validate_entry", "put", "event")]
                            tail = ["put"] + (["event"] if put == "inserted" else [])
                            heads = [["validate_entry"]] if local else [["validate_empty", "validate_entry"], ["validate_entry", "validate_empty"]]
                            if order not in [h + tail for h in heads]:
                                problems.append("steps %s, spec: the validations, then put%s" % (order, ", then the event" if put == "inserted" else ""))
                            if puts != [("put", "entry")]:
                                problems.append("the store is offered %s, spec the entry once" % puts)
                            ve = [x for x in log if x[0] == "validate_entry"]
                            worigin = "Local" if local else "Sync(received_from,content_status)"
                            if len(ve) != 1 or ve[0][1:] != ("now", "id(capability)", "entry", worigin):
                                problems.append("validate_entry%s, spec (clock reading, this replica's id, the entry, %s)" % (ve, worigin))
                            if not local and [x for x in log if x[0] == "validate_empty"] != [("validate_empty", "entry")]:
                                problems.append("validate_empty on %s" % [x[1:] for x in log if x[0] == "validate_empty"])
                            if put == "inserted":
                                if ret != "Ok(3)":
                                    problems.append("returns %s, spec Ok(number of removed entries = 3)" % ret)
                                if local:
                                    want = ("LocalInsert", {"namespace": "id(capability)", "entry": "entry"})
                                else:
                                    want = ("RemoteInsert", {"namespace": "id(capability)", "entry": "entry", "from": "received_from", "remote_content_status": "content_status",
                                                             "should_download": "matches(policy-of(id(capability)),entry)"})
                                if len(events) != 1 or events[0][1:] != want:
                                    problems.append("events %s, spec exactly one %s %s" % ([x[1:] for x in events], want[0], want[1]))
                            else:
                                if events or not ret.startswith("Err"):
                                    problems.append("an entry the store did not insert (%s) produces no event and is reported: returns %s, events %s" % (put, ret, events))
                        ctx.check(not problems, rule, path, key, "returns %s; effects %s" % (ret, log), b.sp, bad_detail="; ".join(problems) + " — effects %s" % log)
    return n


def check_callbacks(ctx, rule):
    """the three callbacks sync_process_message hands to the store's process_message, driven by the oracle that plays the store:
    an incoming entry is validated like a single remote insert (validate_empty and validate_entry for this replica's id, with
    origin Sync { the session's peer, the status the peer reported }), an inserted one is announced as exactly one RemoteInsert
    carrying this document, that entry, the session's peer, that status and the download flag of this document's policy"""
    from . import feval as E
    f = ctx.facts
    b = f.body(SPM + "::{closure#0}")
    cb = []
    try:
        evaluate(f, 0, "reply", cb, marker=0)
    except E.Unsupported as e:
        ctx.bad(rule, SPM, "reconciliation-callbacks", "UNSUPPORTED-FORM: %s" % e, b.sp)
        return
    d = {}
    for x in cb:
        d.setdefault(x[0], []).append(x[1:])
    ctx.check(d.get("validate_entry") == [(("now", "id(capability)", "incoming-entry", "Sync(from_peer,incoming-status)"),)] and d.get("validate_empty") == [("incoming-entry",)] and d.get("validate") == [("1",)],
              rule, SPM, "reconciliation-callbacks.validate", "validate callback on an incoming entry: %s %s -> %s; spec: validate_empty(entry) and validate_entry(clock reading, this replica's id, entry, Sync{session peer, reported status})"
              % (d.get("validate_empty"), d.get("validate_entry"), d.get("validate")), b.sp)
    want = ("RemoteInsert(id(capability),incoming-entry,from_peer,matches(policy,incoming-entry),incoming-status)",)
    ctx.check(d.get("event") == [want] and d.get("get_download_policy") == [(("store", "id(capability)"),)], rule, SPM, "reconciliation-callbacks.announce",
              "on-insert callback for an inserted entry: events %s, policy read by %s; spec: one RemoteInsert(this document, the entry, the session's peer, policy-of-this-document.matches(entry), the reported status)" % (d.get("event"), d.get("get_download_policy")), b.sp)
    # the same for an incoming entry that is / is not a deletion marker (C15-13: "an entry is selected for download exactly when ..."
    # - the flag is the policy's verdict on the key, whatever the entry's content is)
    for marker in (1, 0):
        cb2 = []
        try:
            evaluate(f, 0, "reply", cb2, marker=marker)
            ev2 = [x[1:] for x in cb2 if x[0] == "event"]
        except E.Unsupported as e:
            ev2 = "UNSUPPORTED-FORM: %s" % e
        ctx.check(ev2 == [want], rule, SPM, "reconciliation-callbacks.announce[%s]" % ("deletion-marker" if marker else "record"),
                  "events %s; spec: one RemoteInsert whose download flag is policy-of-this-document.matches(entry)" % (ev2,), b.sp)
    ctx.check(d.get("content-status") == [("Missing",)], rule, SPM, "reconciliation-callbacks.content-status[no-callback]", "content status of an outgoing entry without a registered callback: %s; spec Missing" % d.get("content-status"), b.sp)

"""C14 — the store actor honours open/close counting and the sync switch."""
import re
from . import mir
from .mir import trace, origin_summary, callee_matches
from .common import find_calls, one_call, call_outcomes, Ensures
from . import paths as P

EXPLANATION = (
    "Decides structural necessary conditions of C14 from MIR: (R1) in the actor's action handlers every call that reads or "
    "writes entries, subscribes or reconciles is dominated by the success edge of an open gate (get_mut / ensure_open / replica / "
    "replica_if_syncing), the receivers of the reconciliation and remote-insert calls derive from replica_if_syncing, and "
    "Replica::new is called in actor.rs only inside the two gate functions (phrased over effects, so a new action is covered); "
    "(R2) the gates: get_mut errs iff absent, replica_if_syncing returns Ok only with the document present and sync=true; "
    "(R3) handle counting by finite path evaluation of open_with/close against the table written from the property text "
    "(vacant: handles=1, sync=opts.sync, callback once; occupied: handles+1, sync := sync or opts.sync, callback not called; "
    "close: vacant => true untouched, occupied => handles-1, removed and true iff it reached 0); (R4) mutating actions are "
    "awaited inline, spawn_local occurs only for the streaming reads, shutdown flushes then closes then replies with the store. "
    "NOT decided: behaviour with several concurrent clients beyond the single-consumer loop."
)
ASSUMPTIONS = ["the action loop is the only consumer of the action channel", "tracing macro expansions are effect-free"]

A = "actor::"
GATES = r"actor::OpenReplicas::(get_mut|ensure_open|replica|replica_if_syncing)$"
EFFECTS = [
    (r"store::fs::Store::get_exact$", "read"),
    (r"store::fs::Store::get_many$", "read"),
    (r"sync::Replica::<.*>::insert$", "write"),
    (r"sync::Replica::<.*>::hash_and_insert$", "write"),
    (r"sync::Replica::<.*>::delete_prefix$", "write"),
    (r"sync::Replica::<.*>::insert_remote_entry$", "sync"),
    (r"sync::Replica::<.*>::sync_initial_message$", "sync"),
    (r"sync::Replica::<.*>::sync_process_message$", "sync"),
    (r"sync::ReplicaInfo::subscribe$", "subscribe"),
    (r"sync::ReplicaInfo::unsubscribe$", "subscribe"),
]


def actor_bodies(f):
    out = []
    for b in f.bodies.values():
        if b.path.startswith("actor::Actor::on_action") or b.path.startswith("actor::Actor::on_replica_action") or b.path.startswith("actor::Actor::run_async"):
            out.append(b)
    return out


def gate_edges(b):
    out = []
    for bi, t in b.calls():
        if callee_matches(t, GATES):
            oc = call_outcomes(b, bi)
            e = oc.get("Ok")
            if e:
                out.append((bi, t, e))
    return out


def r1(ctx):
    f = ctx.facts
    bodies = actor_bodies(f)
    ctx.touch(*bodies)
    n = 0
    for b in bodies:
        ges = gate_edges(b)
        for bi, t in b.calls():
            kind = None
            for rx, k in EFFECTS:
                if callee_matches(t, rx):
                    kind = k
            if not kind:
                continue
            n += 1
            role = "%s.%s" % (kind, t["f"].get("name"))
            gated = [g for g in ges if b.edge_dominates(g[2][0], g[2][1], bi)]
            via_adapter = False
            if not gated and b.kind == "closure":
                # closure passed to and_then/map on a gate's result in the parent
                site = mir.closure_site(f, b)
                if site:
                    pb, pbi, psi, ps = site
                    cl_local = ps["p"]["l"]
                    for qbi, qt in pb.calls():
                        if qt["f"].get("name") in ("and_then", "map") and any(a[0] in ("copy", "move") and a[1]["l"] == cl_local for a in qt["a"][1:]):
                            src = trace(pb, qt["a"][0], through_calls=False)
                            if any(o.kind == "call" and callee_matches(o.data, GATES) for o in src):
                                via_adapter = True
            ctx.check(bool(gated) or via_adapter, "C14.R1", b.path, "gated.%s" % role,
                      "dominated by the success edge of %s" % (gated[0][1]["f"]["name"] if gated else "a gate via Result::and_then") if (gated or via_adapter) else
                      "entry/subscribe/reconcile effect reachable without passing an open gate: it would operate on a document that is not open", t["sp"])
            if kind == "sync":
                recv = trace(b, t["a"][0], through_calls=False)
                from_sync_gate = False
                for o in trace(b, t["a"][0]):
                    if o.kind == "call" and o.data["f"].get("name") == "replica_if_syncing":
                        from_sync_gate = True
                    if o.kind == "call" and o.data["f"].get("name") == "branch":
                        for o2 in trace(b, o.data["a"][0], through_calls=False):
                            if o2.kind == "call" and o2.data["f"].get("name") == "replica_if_syncing":
                                from_sync_gate = True
                ctx.check(from_sync_gate, "C14.R1", b.path, "sync-gated-receiver.%s" % t["f"].get("name"),
                          "the replica used for reconciliation / remote insert comes from replica_if_syncing" if from_sync_gate else
                          "the replica used here does not come from replica_if_syncing: the per-document sync switch is bypassed", t["sp"])
    if n < 9:
        raise mir.AnchorMissing("expected >=9 gated effect call sites in the actor, found %d" % n)
    # Replica::new only in the two gate functions (within actor.rs)
    for b in f.bodies.values():
        if not b.path.startswith("actor::"):
            continue
        for bi, t in b.calls():
            if callee_matches(t, r"sync::Replica::<.*>::new$"):
                ctx.check(b.path in ("actor::OpenReplicas::replica", "actor::OpenReplicas::replica_if_syncing"), "C14.R1", b.path, "constructs-Replica",
                          "Replica::new is reachable in the actor only through the gates", t["sp"])
    ctx.floor("C14.R1", 12)


def r2(ctx):
    f = ctx.facts
    g = f.body("actor::OpenReplicas::get_mut")
    ctx.touch(g)
    ps = P.explore(g)
    ok = len(ps) == 1 and ps[0].ret[0] == "call" and ps[0].ret[1] in ("context", "ok_or_else", "ok_or", "with_context")
    if ok:
        t = ps[0].ret[2]
        src = [o for o in trace(g, t["a"][0], through_calls=False)]
        ok = any(o.kind == "call" and o.data["f"].get("name") == "get_mut" and "HashMap" in o.data["f"].get("full", "") and
                 {origin_summary(x) for x in trace(g, o.data["a"][1])} == {"arg:namespace"} for o in src)
    ctx.check(ok, "C14.R2", g.path, "err-iff-absent", "get_mut = map.get_mut(namespace).context(..): Err exactly when the document is not open", g.sp)
    r = f.body("actor::OpenReplicas::replica_if_syncing")
    ctx.touch(r)
    okp = 0
    for p in P.explore(r):
        if p.ret[0] == "variant" and p.ret[1] == "Ok":
            okp += 1
            gm = [v for k, v in p.decisions if k[0] == "discr" and "get_mut" in k[1]]
            sy = None
            for k, v in p.decisions:
                kk, neg = k, False
                while kk[0] == "not":
                    kk, neg = kk[1], not neg
                if kk[0] == "place" and kk[1].endswith(".sync"):
                    sy = bool(v) != neg
            ctx.check(gm == [0] and sy is True, "C14.R2", r.path, "ok-only-if-open-and-sync",
                      "Ok path: get_mut=%s, sync=%s (%s)" % (gm, sy, P.fmt_decisions(p)), r.sp)
    ctx.check(okp >= 1, "C14.R2", r.path, "has-ok-path", "%d Ok paths" % okp, r.sp)
    rp = f.body("actor::OpenReplicas::replica")
    ctx.touch(rp)
    ens = Ensures(f, r"actor::OpenReplicas::get_mut$")
    ok, why = ens.ensures_body(rp)
    ctx.check(ok, "C14.R2", rp.path, "ok-only-if-open", why, rp.sp)
    eo = f.body("actor::OpenReplicas::ensure_open")
    ctx.touch(eo)
    rows = {}
    for p in P.explore(eo):
        v = [vv for k, vv in p.decisions if k[0] == "call" and k[1] == "is_open"]
        rows[v[0] if v else None] = p.ret[1] if p.ret[0] == "variant" else str(p.ret[:2])
    ctx.check(rows == {1: "Ok", 0: "Err"}, "C14.R2", eo.path, "ok-iff-open", "%s" % rows, eo.sp)
    io = f.body("actor::OpenReplicas::is_open")
    ctx.touch(io)
    ck = [t for _, t in io.calls() if t["f"].get("name") == "contains_key"]
    ctx.check(len(ck) == 1 and ck[0]["d"]["l"] == 0, "C14.R2", io.path, "is-contains_key", "is_open = map.contains_key(namespace)", io.sp)
    ctx.floor("C14.R2", 6)


def r3(ctx):
    f = ctx.facts
    ow = f.body("actor::OpenReplicas::open_with")
    ctx.touch(ow)
    n_v = n_o = 0
    for p in P.explore(ow):
        ent = [v for k, v in p.decisions if k[0] == "discr" and "entry" in k[1]]
        if not ent:
            ctx.bad("C14.R3", ow.path, "form", "path not decided on the map entry (UNSUPPORTED-FORM): %s" % P.fmt_decisions(p), ow.sp)
            continue
        calls = P.calls(p)
        w = P.writes(p)
        # which variant index is Vacant? the one on which the callback runs / insert is called
        if "get_mut" in calls or any(fld == "handles" for fld, _ in w):
            # occupied
            n_o += 1
            hv = [v for fld, v in w if fld == "handles"]
            sv = [v for fld, v in w if fld == "sync"]
            prior = None
            for k, v in p.decisions:
                if k[0] == "place" and k[1].endswith(".sync"):
                    prior = v
            ok_h = len(hv) == 1 and re.fullmatch(r"Add\(place:.*handles,1\)", hv[0]) is not None
            want_s = "1" if prior == 1 else "place:arg:opts.sync"
            ok_s = (sv == [want_s]) or (not sv and prior == 1)
            ok_cb = "call_mut" not in calls and "call" not in calls and "call_once" not in calls
            ctx.check(ok_h, "C14.R3", ow.path, "occupied.handles+1[sync=%s]" % prior, "handles := %s" % hv, ow.sp)
            ctx.check(ok_s, "C14.R3", ow.path, "occupied.sync-sticky[sync=%s]" % prior, "sync := %s (spec: old || opts.sync, enabling is sticky)" % sv, ow.sp)
            ctx.check(ok_cb, "C14.R3", ow.path, "occupied.no-reopen[sync=%s]" % prior, "open callback not called for an already open document (calls %s)" % calls, ow.sp)
        else:
            if p.ret[0] == "call" and p.ret[1] == "from_residual":
                continue
            n_v += 1
            cbs = [c for c in calls if c in ("call_mut", "call", "call_once")]
            ins = [e for e in p.events if e[0] == "call" and e[1] == "insert"]
            ok = len(cbs) == 1 and len(ins) == 1
            hs = None
            if ins:
                # the OpenReplica aggregate
                t = ins[0][2]
                for o in trace(ow, t["a"][1]):
                    if o.kind == "agg" and o.data[0][0] == "adt" and o.data[0][1] == "actor::OpenReplica":
                        names = o.data[0][4]
                        vals = {}
                        for nm, op in zip(names, o.data[1]):
                            if op[0] == "const":
                                vals[nm] = str(op[1].get("val"))
                            else:
                                vals[nm] = "|".join(sorted({origin_summary(x) + ("." + ".".join(mir.field_path(x)) if mir.field_path(x) else "") for x in trace(ow, op)}))
                        hs = vals
            ok = ok and hs is not None and hs.get("handles") == "1" and hs.get("sync") == "arg:opts.sync"
            ctx.check(ok, "C14.R3", ow.path, "vacant.first-open[%s]" % ("subscribe" if "subscribe" in calls else "plain"),
                      "callback calls %d, inserted state %s (spec: handles=1, sync=opts.sync)" % (len(cbs), hs), ow.sp)
    if n_v < 1 or n_o < 2:
        raise mir.AnchorMissing("open_with: expected vacant and occupied paths, found %d/%d" % (n_v, n_o))
    cl = f.body("actor::OpenReplicas::close")
    ctx.touch(cl)
    rows = []
    for p in P.explore(cl):
        calls = P.calls(p)
        w = P.writes(p)
        zero = None
        for k, v in p.decisions:
            if k[0] == "cmp" and k[1] == "==" and "const:0" in (k[2], k[3]):
                zero = v
        rows.append((("occupied" if "get_mut" in calls else "vacant"), zero, P.short(p.ret), tuple(fld for fld, _ in w), "remove_entry" in calls or "remove" in calls))
        if "get_mut" in calls:
            hv = [e for e in p.events if e[0] == "write" and e[4].endswith("handles")]
            okd = False
            if len(hv) == 1:
                v = hv[0][5]
                if v[0] == "call" and v[1] in ("wrapping_sub", "saturating_sub", "checked_sub") and v[2]["a"][1][0] == "const" and v[2]["a"][1][1].get("val") == 1:
                    okd = True
                if v[0] == "expr" and v[1] == "Sub" and P.short(v[3]) == "1":
                    okd = True
            ctx.check(okd, "C14.R3", cl.path, "occupied.handles-1[zero=%s]" % zero, "handles := handles - 1", cl.sp)
    want = {("vacant", None, "1", (), False), ("occupied", 1, "1", ("handles",), True), ("occupied", 0, "0", ("handles",), False)}
    ctx.check(set(rows) == want, "C14.R3", cl.path, "transition-table",
              "(entry, reached-zero, returns, writes, removed) = %s; spec: vacant => true untouched; occupied => decrement, removed and true iff zero" % sorted(rows, key=str), cl.sp)
    # Actor::close releases the store-level open mark iff closed
    ac = f.body("actor::Actor::close")
    ctx.touch(ac)
    c1 = find_calls(ac, r"actor::OpenReplicas::close$")
    c2 = find_calls(ac, r"store::fs::Store::close_replica$")
    ok = len(c1) == 1 and len(c2) == 1
    if ok:
        oc = call_outcomes(ac, c1[0][0])
        e = oc.get("true")
        ok = bool(e) and ac.edge_dominates(e[0], e[1], c2[0][0])
    ctx.check(ok, "C14.R3", ac.path, "store-close-iff-last-handle", "Store::close_replica only on the true edge of OpenReplicas::close", ac.sp)
    ctx.floor("C14.R3", 9)


def r4(ctx):
    f = ctx.facts
    bodies = actor_bodies(f)
    # spawn_local only in bodies that do not call a mutating effect
    spawn_sites = 0
    for b in bodies:
        sp = [(bi, t) for bi, t in b.calls() if t["f"].get("name") in ("spawn_local", "spawn", "spawn_blocking")]
        for bi, t in sp:
            spawn_sites += 1
            # the spawned future must not contain mutating store/replica calls: inspect the closure/coroutine passed
            bad = []
            for a in t["a"][1:]:
                for o in trace(b, a):
                    if o.kind == "agg" and o.data[0][0] in ("closure", "coroutine"):
                        cb = f.bodies.get(o.data[0][1])
                        if cb:
                            for fb in f.family(cb.path):
                                for _, ct in fb.calls():
                                    for rx, k in EFFECTS:
                                        if k in ("write", "sync") and callee_matches(ct, rx):
                                            bad.append(ct["f"].get("name"))
            ctx.check(not bad, "C14.R4", b.path, "spawned-task-is-read-only", "spawned task performs %s" % (bad or "no entry writes / reconciliation"), t["sp"])
    ctx.check(spawn_sites >= 3, "C14.R4", "actor::Actor", "spawn-sites-inventoried", "%d spawn sites (streaming reads)" % spawn_sites, bodies[0].sp)
    # mutating effects are awaited in the handler coroutine itself (not inside a spawned body): their bodies' root is on_replica_action
    # shutdown: flush, close_all, then reply with the store
    ra = [b for b in f.bodies.values() if b.path.startswith("actor::Actor::run_async::{closure#0}") and b.path.count("{closure") == 1]
    if len(ra) != 1:
        raise mir.AnchorMissing("actor::Actor::run_async coroutine body not found")
    r = ra[0]
    ctx.touch(r)
    sends = [(bi, t) for bi, t in r.calls() if t["f"].get("name") == "send" and any("store" in mir.field_path(o) for o in trace(r, t["a"][1]))]
    fl = [(bi, t) for bi, t in r.calls() if callee_matches(t, r"store::fs::Store::flush$")]
    ca = [(bi, t) for bi, t in r.calls() if callee_matches(t, r"actor::Actor::close_all$")]
    ok = len(sends) == 1 and bool(fl) and len(ca) == 1
    if ok:
        sb = sends[0][0]
        ok = any(r.dominates(x[0], sb) for x in fl) and r.dominates(ca[0][0], sb) and any(r.dominates(x[0], ca[0][0]) for x in fl)
    ctx.check(ok, "C14.R4", r.path, "shutdown:flush-then-close-then-reply", "reply.send(self.store) is dominated by close_all, which is dominated by a flush", sends[0][1]["sp"] if sends else r.sp)
    ctx.floor("C14.R4", 4)


def run(ctx):
    ctx.run_rule("C14.R1", r1)
    ctx.run_rule("C14.R2", r2)
    ctx.run_rule("C14.R3", r3)
    ctx.run_rule("C14.R4", r4)

"""C14 — the store actor honours open/close counting and the sync switch."""
import re
from . import mir
from .mir import trace, origin_summary, callee_matches
from .common import find_calls, one_call, call_outcomes, Ensures
from . import paths as P

EXPLANATION = (
    "Decides structural necessary conditions of C14 from MIR: (R1) in the actor's action handlers every call that reads or "
    'writes entries, subscribes or reconciles is dominated by the success edge of an open gate (get_mut / ensure_open / '
    'replica / replica_if_syncing), the receivers of the reconciliation and remote-insert calls derive from '
    'replica_if_syncing, and Replica::new is called in actor.rs only inside the two gate functions (phrased over effects, '
    'so a new action is covered); (R2) the gates evaluated on {absent, open/sync off, open/sync on}: '
    'get_mut/replica/ensure_open succeed iff open, replica_if_syncing iff open and syncing, the Replica is built on that '
    "document's state; (R3) handle counting by abstract evaluation of open_with/close (map entry API and direct API "
    'modelled) against the table written from the property text (vacant: handles=1, sync=opts.sync, callback once; '
    'occupied: handles+1, sync := sync or opts.sync, callback not called; close: vacant => true untouched, occupied => '
    'handles-1, removed and true iff it reached 0); (R4) mutating actions are awaited inline, spawn_local occurs only for '
    'the streaming reads, shutdown flushes then closes then replies with the store. (R5) the API handlers doc_open / '
    'doc_close evaluated: one forwarded open / close of the requested document, failure reported. (R6) the drop handler '
    'evaluated on {not open, 1, 2, 5 handles} against a store that refuses while the document is open: a refused drop '
    'leaves the handle count untouched. (R7) reply streams accepted before the actor stops are driven to their end before '
    'anything is aborted (reports F25, known finding). (R8) every per-document request of the store actor and every SyncHandle method (the store-actor handler evaluated with the fields of the request as named tokens and gates / store / replica calls answered by an oracle, each step also failing in turn: the own fields of the request reach the core function in order on the addressed document, nothing is carried out after a failed step, the reply is the result of that function; the SyncHandle method evaluated: one request of its own kind, addressed to its namespace argument, each field one of its own parameters, the reply of the actor returned). (R9) LiveActor::start_sync / leave evaluated against a model of the set of joined documents: one open (sync on, subscribed) iff not joined yet, marked as joined only after that open succeeded, exactly one close on leaving a joined document, none otherwise. (R10) = C06.R4 failing-body rows: acknowledged writes survive a later failing request. NOT decided: behaviour with several concurrent clients beyond the '
    'single-consumer loop.'
)
ASSUMPTIONS = ["the action loop is the only consumer of the action channel", "tracing macro expansions are effect-free"]


A = "actor::"
GATES = r"actor::OpenReplicas::(get_mut|ensure_open|replica|replica_if_syncing)$"
EFFECTS = [
    (r"store::fs::Store::get_exact$", "read"),
    (r"store::fs::Store::get_many$", "read"),
    (r"sync::Replica::<.*>::insert$", "write"),
    (r"sync::Replica::<.*>::hash_and_insert$", "write"),
    (r"sync::Replica::<.*>::delete_prefix$", "write"),
    (r"sync::Replica::<.*>::insert_remote_entry$", "sync"),
    (r"sync::Replica::<.*>::sync_initial_message$", "sync"),
    (r"sync::Replica::<.*>::sync_process_message$", "sync"),
    (r"sync::ReplicaInfo::subscribe$", "subscribe"),
    (r"sync::ReplicaInfo::unsubscribe$", "subscribe"),
]


EXPLANATION += ' (R5, round 8) also doc_start_sync / doc_leave, and the close of an API handle claims its closed flag by an atomic read-modify-write before the request is sent.'
EXPLANATION += ' (R11, round 9) the OpenOpts builders evaluated: sync() sets the flag and keeps the subscriber, subscribe(tx) sets the subscriber and keeps the flag.'
EXPLANATION += ' (R12, round 11) = the load cells of C07.R13: a failed open marks nothing open.'
EXPLANATION += " (R13, round 13) the store's author functions evaluated: get_author answers from the authors row of the id asked, read in this very call (absent = None), import_author stores the secret under its own id, delete_author removes the row of the id given."
EXPLANATION += ' (R14, round 14) = C07.R4: importing a capability for an open document merges it in place (it neither re-opens the document nor touches the handle count).'


def actor_bodies(f):
    """the action handlers and every private helper of the actor they call (helpers extracted by a
    refactoring are analysed like the handlers themselves)"""
    out = []
    for b in f.bodies.values():
        if b.path.startswith("actor::Actor::") and not b.path.startswith("actor::Actor::open") and not b.path.startswith("actor::Actor::close"):
            out.append(b)
    return out


def gate_edges(b):
    out = []
    for bi, t in b.calls():
        if callee_matches(t, GATES):
            oc = call_outcomes(b, bi)
            e = oc.get("Ok")
            if e:
                out.append((bi, t, e))
    return out


def r1(ctx):
    f = ctx.facts
    bodies = actor_bodies(f)
    ctx.touch(*bodies)
    n = 0
    for b in bodies:
        ges = gate_edges(b)
        for bi, t in b.calls():
            kind = None
            for rx, k in EFFECTS:
                if callee_matches(t, rx):
                    kind = k
            if not kind:
                continue
            n += 1
            role = "%s.%s" % (kind, t["f"].get("name"))
            gated = [g for g in ges if b.edge_dominates(g[2][0], g[2][1], bi)]
            via_adapter = False
            if not gated and b.kind == "closure":
                # closure passed to and_then/map on a gate's result in the parent
                site = mir.closure_site(f, b)
                if site:
                    pb, pbi, psi, ps = site
                    cl_local = ps["p"]["l"]
                    for qbi, qt in pb.calls():
                        if qt["f"].get("name") in ("and_then", "map") and any(a[0] in ("copy", "move") and a[1]["l"] == cl_local for a in qt["a"][1:]):
                            src = trace(pb, qt["a"][0], through_calls=False)
                            if any(o.kind == "call" and callee_matches(o.data, GATES) for o in src):
                                via_adapter = True
                        # ... or handed to a private helper of the actor that applies it to a gate's result the same way
                        # (`reply_with_open_state(reply, &namespace, |open| ..)`: `states.get_mut(namespace).and_then(f)`)
                        for ai, a in enumerate(qt["a"]):
                            if not (a[0] in ("copy", "move") and a[1]["l"] == cl_local and not a[1]["p"]):
                                continue
                            for hp in mir.callee_paths(qt):
                                hb = f.bodies.get(hp)
                                if hb is None or not hp.startswith("actor::"):
                                    continue
                                for hbi, ht in hb.calls():
                                    if ht["f"].get("name") not in ("and_then", "map"):
                                        continue
                                    fn_from_param = any(o.kind == "arg" and o.data[0] == ai + 1 for x in ht["a"][1:] for o in trace(hb, x, through_calls=False))
                                    recv = trace(hb, ht["a"][0], through_calls=False)
                                    if fn_from_param and any(o.kind == "call" and callee_matches(o.data, GATES) for o in recv):
                                        via_adapter = True
            ctx.check(bool(gated) or via_adapter, "C14.R1", b.path, "gated.%s" % role,
                      "dominated by the success edge of %s" % (gated[0][1]["f"]["name"] if gated else "a gate via Result::and_then") if (gated or via_adapter) else
                      "entry/subscribe/reconcile effect reachable without passing an open gate: it would operate on a document that is not open", t["sp"])
            if kind == "sync":
                recv = trace(b, t["a"][0], through_calls=False)
                from_sync_gate = False
                for o in trace(b, t["a"][0]):
                    if o.kind == "call" and o.data["f"].get("name") == "replica_if_syncing":
                        from_sync_gate = True
                    if o.kind == "call" and o.data["f"].get("name") == "branch":
                        for o2 in trace(b, o.data["a"][0], through_calls=False):
                            if o2.kind == "call" and o2.data["f"].get("name") == "replica_if_syncing":
                                from_sync_gate = True
                ctx.check(from_sync_gate, "C14.R1", b.path, "sync-gated-receiver.%s" % t["f"].get("name"),
                          "the replica used for reconciliation / remote insert comes from replica_if_syncing" if from_sync_gate else
                          "the replica used here does not come from replica_if_syncing: the per-document sync switch is bypassed", t["sp"])
    if n < 9:
        raise mir.AnchorMissing("expected >=9 gated effect call sites in the actor, found %d" % n)
    # Replica::new only in the two gate functions (within actor.rs)
    gates = {"actor::OpenReplicas::replica", "actor::OpenReplicas::replica_if_syncing"}

    def only_from_gates(path, depth=3):
        if path in gates:
            return True
        if depth <= 0:
            return False
        callers = {(cb.rec.get("root") or cb.path) for cb, _, _ in f.callers().get(path, []) if cb.path.startswith("actor::")}     # (a closure of a gate is the gate)
        return bool(callers) and all(only_from_gates(c, depth - 1) for c in callers)
    for b in f.bodies.values():
        if not b.path.startswith("actor::"):
            continue
        for bi, t in b.calls():
            if callee_matches(t, r"sync::Replica::<.*>::new$"):
                ctx.check(only_from_gates(b.path), "C14.R1", b.path, "constructs-Replica",
                          "Replica::new is reachable in the actor only through the gates (directly or in a helper that only the gates call)", t["sp"])
    ctx.floor("C14.R1", 12)


def r2(ctx):
    """the gates, evaluated (K6') on the three states of the map entry: absent, open with sync off, open with sync on"""
    from . import feval as E
    f = ctx.facts
    OR = "actor::OpenReplica"
    spec = {
        # gate: (result when absent, when open/sync off, when open/sync on); R = a Replica built on this document's info
        "get_mut": ("Err", "Ok(&state)", "Ok(&state)"),
        "replica": ("Err", "Ok(R)", "Ok(R)"),
        "replica_if_syncing": ("Err", "Err", "Ok(R)"),
        "ensure_open": ("Err", "Ok", "Ok"),
        "is_open": ("0", "1", "1"),
    }
    for fn, want in spec.items():
        b = f.body("actor::OpenReplicas::" + fn)
        ctx.touch(b)
        got = []
        for kind, s in (("vacant", 0), ("occupied", 0), ("occupied", 1)):
            log = _Log()
            base = _map_oracle(E, kind, log)

            def oracle(k, name, payload, site, base=base, log=log):
                if k == "call":
                    t, a, it = payload
                    if callee_matches(t, r"sync::Replica::<.*>::new$"):
                        log.append(("Replica::new", [it.tokname(x) for x in a]))
                        return E.Tok("replica")
                return base(k, name, payload, site)
            heap = {"self": E.Tok("map"), "state": E.struct(f, OR, info=E.Tok("info0"), sync=E.Int(s), handles=E.Int(1)), "ns": E.Tok("ns"), "store": E.Tok("store")}
            nargs = len([l for l in b.locals[1:] if l.get("arg")]) if False else None
            args = [E.href("self"), E.Tok("ns") if not b.locals[2]["ty"].startswith("&") else E.href("ns")]
            if fn in ("replica", "replica_if_syncing"):
                args.append(E.href("store"))
            try:
                ret, hp, ev = E.run(f, b.path, args, heap, oracle)
                d = E.describe(ret, f)
                news = [x for x in log if x[0] == "Replica::new"]
                if d == "Ok(replica)":
                    # the replica is built on this document's state: its info and the capability id of that info
                    good = len(news) == 1 and news[0][1][-1] == "info0" and "info0.capability" in news[0][1][0] and "store" in news[0][1][0]
                    d = "Ok(R)" if good else "Ok(replica built from %s)" % (news,)
                elif d.startswith("Err"):
                    d = "Err"
                elif d == "Ok(())":
                    d = "Ok"
                if any(x[0] in ("insert", "remove") for x in log):
                    d += "+mutates-map"
                st = hp["state"]
                if kind == "occupied" and (E.describe(E.field(f, st, OR, "sync"), f), E.describe(E.field(f, st, OR, "handles"), f)) != (str(s), "1"):
                    d += "+changes-state"
                got.append(d)
            except E.Unsupported as e:
                got.append("UNSUPPORTED-FORM: %s" % e)
        ctx.check(tuple(got) == want, "C14.R2", b.path, "gate-table",
                  "(absent, open sync-off, open sync-on) -> %s; spec %s" % (tuple(got), want), b.sp)
    ctx.floor("C14.R2", 5)


def _map_oracle(E, kind_of_entry, log):
    """models std HashMap's entry API for one key: the entry is Occupied (its value is heap object
    `state`) or Vacant; insert/remove are recorded in `log`. std: enum Entry { Occupied, Vacant }."""
    def oracle(kind, name, payload, site):
        if kind != "call":
            return None
        t, args, it = payload
        full = (t["f"].get("full") or "") + (t["f"].get("path") or "")
        if name == "entry" and "HashMap" in full:
            return E.Adt("std::collections::hash_map::Entry", 0 if kind_of_entry == "occupied" else 1, {0: E.Tok("entry")})
        if name in ("get_mut", "into_mut", "get") and "OccupiedEntry" in full:
            return E.href("state")
        # the same map through its direct API (get_mut / contains_key / insert / remove on the one key)
        if "HashMap" in full and "Entry" not in full:
            occupied = kind_of_entry == "occupied" and ("remove",) not in log
            if name in ("get_mut", "get"):
                return E.Some(E.href("state")) if occupied else (E.Some(E.href("inserted")) if ("insert",) in log else E.NONE)
            if name == "contains_key":
                return E.Int(1 if occupied or ("insert",) in log else 0)
            if name == "insert":
                it.heap["inserted"] = it.deref_val(args[2]) if len(args) > 2 else E.TOP
                log.append(("insert",))
                return E.Some(E.Tok("previous")) if occupied else E.NONE
            if name in ("remove", "remove_entry"):
                log.append(("remove",))
                return E.Some(it.heap.get("state", E.TOP)) if occupied else E.NONE
        if name in ("remove", "remove_entry") and "OccupiedEntry" in full:
            log.append(("remove",))
            return E.Tok("removed")
        if name in ("insert", "insert_entry") and "VacantEntry" in full:
            it.heap["inserted"] = it.deref_val(args[1])
            log.append(("insert",))
            return E.href("inserted")
        if name == "or_insert_with" or name == "or_insert":
            raise E.Unsupported("entry combinator %s not modelled" % name)
        if name in ("call_mut", "call", "call_once"):
            log.append(("open_cb",))
            return E.Ok(E.Tok("info")) if log.cb_ok else E.Err(E.Tok("open-error"))
        if name == "subscribe":
            log.append(("subscribe",))
            return E.UNIT
        if name in ("wrapping_sub", "saturating_sub") and len(args) == 2 and E.is_int(args[0]) and E.is_int(args[1]):
            v = args[0][1] - args[1][1]
            return E.Int(v % (1 << 64) if name == "wrapping_sub" else max(v, 0))
        if name == "checked_sub" and len(args) == 2 and E.is_int(args[0]) and E.is_int(args[1]):
            v = args[0][1] - args[1][1]
            return E.Some(E.Int(v)) if v >= 0 else E.NONE
        return None
    return oracle


class _Log(list):
    cb_ok = True


def r3(ctx):
    """open_with / close as transition tables over (entry kind, sync flag, handle count), obtained by
    evaluating their MIR on abstract states (K6'); the map's entry API is modelled, nothing else."""
    from . import feval as E
    f = ctx.facts
    ow = f.body("actor::OpenReplicas::open_with")
    ctx.touch(ow)
    OR = "actor::OpenReplica"

    def run_open(kind, s, h, o, sub, cb_ok=True):
        log = _Log()
        log.cb_ok = cb_ok
        heap = {"self": E.Tok("map"), "state": E.struct(f, OR, info=E.Tok("info0"), sync=E.Int(s), handles=E.Int(h)), "cb": E.Tok("open_cb")}
        opts = E.struct(f, "actor::OpenOpts", sync=E.Int(o), subscribe=E.Some(E.Tok("sender")) if sub else E.NONE)
        ret, hp, ev = E.run(f, ow.path, [E.href("self"), E.Tok("namespace"), opts, E.Tok("open_cb")], heap, _map_oracle(E, kind, log))
        return ret, hp, log
    try:
        for s in (0, 1):
            for o in (0, 1):
                for h in (1, 7):
                    ret, hp, log = run_open("occupied", s, h, o, o == 1)
                    st = hp["state"]
                    hs = E.describe(E.field(f, st, OR, "handles"), f)
                    sy = E.describe(E.field(f, st, OR, "sync"), f)
                    tag = "[sync=%d,opts.sync=%d,handles=%d]" % (s, o, h)
                    ctx.check(hs == str(h + 1), "C14.R3", ow.path, "occupied.handles+1" + tag, "handles %d -> %s" % (h, hs), ow.sp)
                    ctx.check(sy == str(s | o), "C14.R3", ow.path, "occupied.sync-sticky" + tag, "sync %d -> %s (spec: old || opts.sync, enabling is sticky)" % (s, sy), ow.sp)
                    ctx.check(("open_cb",) not in log and ("insert",) not in log and ("remove",) not in log and E.describe(ret, f).startswith("Ok"),
                              "C14.R3", ow.path, "occupied.no-reopen" + tag, "returns %s; map/callback events %s (spec: an open document is not loaded or inserted again)" % (E.describe(ret, f), list(log)), ow.sp)
        for o in (0, 1):
            for sub in (0, 1):
                ret, hp, log = run_open("vacant", 0, 0, o, sub)
                ins = hp.get("inserted")
                d = None
                if ins is not None and ins[0] == "adt":
                    d = (E.describe(E.field(f, ins, OR, "handles"), f), E.describe(E.field(f, ins, OR, "sync"), f), E.describe(E.field(f, ins, OR, "info"), f))
                ok = log.count(("open_cb",)) == 1 and log.count(("insert",)) == 1 and d is not None and d[0] == "1" and d[1] == str(o) and "info" in d[2] \
                    and log.count(("subscribe",)) == sub and E.describe(ret, f).startswith("Ok")
                ctx.check(ok, "C14.R3", ow.path, "vacant.first-open[opts.sync=%d,subscribe=%d]" % (o, sub),
                          "returns %s, events %s, inserted (handles, sync, info) = %s (spec: callback once, handles=1, sync=opts.sync)" % (E.describe(ret, f), list(log), d), ow.sp)
        ret, hp, log = run_open("vacant", 0, 0, 1, 0, cb_ok=False)
        ctx.check(("insert",) not in log and E.describe(ret, f).startswith("Err"), "C14.R3", ow.path, "vacant.open-error-leaves-closed",
                  "callback fails: returns %s, events %s" % (E.describe(ret, f), list(log)), ow.sp)
    except E.Unsupported as e:
        ctx.bad("C14.R3", ow.path, "form", "open_with not evaluable (UNSUPPORTED-FORM): %s" % e, ow.sp)
    cl = f.body("actor::OpenReplicas::close")
    ctx.touch(cl)
    try:
        log = _Log()
        ret, hp, ev = E.run(f, cl.path, [E.href("self"), E.Tok("namespace")], {"self": E.Tok("map")}, _map_oracle(E, "vacant", log))
        ctx.check(E.describe(ret, f) == "1" and not log, "C14.R3", cl.path, "close.vacant", "returns %s, events %s (spec: true, untouched)" % (E.describe(ret, f), list(log)), cl.sp)
        for h in (1, 2, 5):
            for s in (0, 1):
                log = _Log()
                heap = {"self": E.Tok("map"), "state": E.struct(f, OR, info=E.Tok("info0"), sync=E.Int(s), handles=E.Int(h))}
                ret, hp, ev = E.run(f, cl.path, [E.href("self"), E.Tok("namespace")], heap, _map_oracle(E, "occupied", log))
                removed = ("remove",) in log
                hs = E.describe(E.field(f, hp["state"], OR, "handles"), f)
                sy = E.describe(E.field(f, hp["state"], OR, "sync"), f)
                last = h == 1
                ok = (E.describe(ret, f) == ("1" if last else "0")) and removed == last and (last or (hs == str(h - 1) and sy == str(s)))
                ctx.check(ok, "C14.R3", cl.path, "close.occupied[handles=%d,sync=%d]" % (h, s),
                          "returns %s, removed=%s, handles -> %s, sync -> %s (spec: decrement; removed and true iff it reaches zero)" % (E.describe(ret, f), removed, hs, sy), cl.sp)
    except E.Unsupported as e:
        ctx.bad("C14.R3", cl.path, "form", "close not evaluable (UNSUPPORTED-FORM): %s" % e, cl.sp)
    # Actor::close releases the store-level open mark iff closed
    ac = f.body("actor::Actor::close")
    ctx.touch(ac)
    c1 = find_calls(ac, r"actor::OpenReplicas::close$")
    c2 = find_calls(ac, r"store::fs::Store::close_replica$")
    ok = len(c1) == 1 and len(c2) == 1
    if ok:
        oc = call_outcomes(ac, c1[0][0])
        e = oc.get("true")
        ok = bool(e) and ac.edge_dominates(e[0], e[1], c2[0][0])
    ctx.check(ok, "C14.R3", ac.path, "store-close-iff-last-handle", "Store::close_replica only on the true edge of OpenReplicas::close", ac.sp)
    ctx.floor("C14.R3", 30)


def r4(ctx):
    f = ctx.facts
    bodies = actor_bodies(f)
    # spawn_local only in bodies that do not call a mutating effect
    spawn_sites = 0
    for b in bodies:
        sp = [(bi, t) for bi, t in b.calls() if t["f"].get("name") in ("spawn_local", "spawn", "spawn_blocking")]
        for bi, t in sp:
            spawn_sites += 1
            # the spawned future must not contain mutating store/replica calls: inspect the closure/coroutine passed
            bad = []
            for a in t["a"][1:]:
                for o in trace(b, a):
                    if o.kind == "agg" and o.data[0][0] in ("closure", "coroutine"):
                        cb = f.bodies.get(o.data[0][1])
                        if cb:
                            for fb in f.family(cb.path):
                                for _, ct in fb.calls():
                                    for rx, k in EFFECTS:
                                        if k in ("write", "sync") and callee_matches(ct, rx):
                                            bad.append(ct["f"].get("name"))
            ctx.check(not bad, "C14.R4", b.path, "spawned-task-is-read-only", "spawned task performs %s" % (bad or "no entry writes / reconciliation"), t["sp"])
    ctx.check(spawn_sites >= 1, "C14.R4", "actor::Actor", "spawn-sites-inventoried", "%d spawn sites (streaming reads)" % spawn_sites, bodies[0].sp)
    # mutating effects are awaited in the handler coroutine itself (not inside a spawned body): their bodies' root is on_replica_action
    # shutdown: flush, close_all, then reply with the store
    # shutdown: wherever the store is handed back, flush and close_all come first (in that order)
    cands = []
    for r in f.bodies.values():
        if not r.path.startswith("actor::Actor::"):
            continue
        sends = [(bi, t) for bi, t in r.calls() if t["f"].get("name") == "send" and len(t["a"]) > 1 and any("store" in mir.field_path(o) for o in trace(r, t["a"][1]))]
        if sends:
            cands.append((r, sends))
    if len(cands) != 1:
        raise mir.AnchorMissing("expected one actor body that replies with the store, found %d" % len(cands))
    r, sends = cands[0]
    ctx.touch(r)
    fl = [(bi, t) for bi, t in r.calls() if callee_matches(t, r"store::fs::Store::flush$")]
    ca = [(bi, t) for bi, t in r.calls() if callee_matches(t, r"actor::Actor::close_all$")]
    ok = len(sends) == 1 and bool(fl) and len(ca) == 1
    if ok:
        sb = sends[0][0]
        ok = any(r.dominates(x[0], sb) for x in fl) and r.dominates(ca[0][0], sb) and any(r.dominates(x[0], ca[0][0]) for x in fl)
    ctx.check(ok, "C14.R4", r.path, "shutdown:flush-then-close-then-reply", "reply.send(self.store) is dominated by close_all, which is dominated by a flush", sends[0][1]["sp"] if sends else r.sp)
    # and the loop exit reaches it: if it lives in a helper, run_async calls that helper after leaving the loop
    if not r.path.startswith("actor::Actor::run_async"):
        ra = [x for x in f.bodies.values() if x.path.startswith("actor::Actor::run_async") and any(r.path in mir.callee_paths(t) for _, t in x.calls())]
        ctx.check(len(ra) == 1, "C14.R4", r.path, "shutdown-helper-called-from-run_async", "%s is called from the actor loop" % r.path, r.sp)
    ctx.floor("C14.R4", 3)


def r5(ctx):
    """the API layer: open and close requests are forwarded one to one (a handler that opens twice or closes another document
    breaks the handle count the actor keeps)"""
    from . import apifw
    apifw.check_forwarder(ctx, "C14.R5", "doc_open", "OpenRequest", ["open(req.doc_id,"], "Ok(OpenResponse)")
    apifw.check_forwarder(ctx, "C14.R5", "doc_close", "CloseRequest", ["close(req.doc_id)"], "Ok(CloseResponse)")
    apifw.check_forwarder(ctx, "C14.R5", "doc_status", "StatusRequest", ["get_state(req.doc_id)"], "Ok(StatusResponse(result-of-get_state))")
    apifw.check_forwarder(ctx, "C14.R5", "doc_start_sync", "StartSyncRequest", ["start_sync(req.doc_id,req.peers)"], "Ok(StartSyncResponse)")
    apifw.check_forwarder(ctx, "C14.R5", "doc_leave", "LeaveRequest", ["leave(req.doc_id,0)"], "Ok(LeaveResponse)")
    apifw.check_client(ctx, "C14.R5", "api::Doc::close", "CloseRequest")
    apifw.check_close_idempotent(ctx, "C14.R5")
    apifw.check_client(ctx, "C14.R5", "api::Doc::status", "StatusRequest")
    apifw.check_client(ctx, "C14.R5", "api::DocsApi::open", "OpenRequest", doc_from="arg.id")
    ctx.floor("C14.R5", 4)


def eval_drop(f, entry, handles):
    """the actor's DropReplica handler (the closure that calls Store::remove_replica) evaluated (K6') on the document's open
    state: `entry` vacant / occupied with `handles` handles. The store refuses the removal while the document is open.
    Returns (handler path, result, handles afterwards | None if the state was removed, log)."""
    from . import feval as E
    OR = "actor::OpenReplica"
    cands = [b for p_, b in f.bodies.items() if p_.startswith("actor::Actor::") and any(callee_matches(t, r"store::fs::Store::remove_replica$") for _, t in b.calls())]
    if len(cands) != 1:
        raise mir.AnchorMissing("expected one body in actor::Actor calling Store::remove_replica (the DropReplica handler), found %s" % [b.path for b in cands])
    h = cands[0]
    log = _Log()
    base = _map_oracle(E, entry, log)

    def oracle(kind, name, payload, site):
        if kind == "call":
            t, args, it = payload
            if callee_matches(t, r"store::fs::Store::remove_replica$"):
                still_open = entry == "occupied" and ("remove",) not in log
                log.append(("remove_replica", "refused" if still_open else "ok"))
                return E.Err(E.Tok("replica-is-not-closed")) if still_open else E.Ok(E.UNIT)
            if callee_matches(t, r"store::fs::Store::close_replica$"):
                log.append(("close_replica",))
                return E.UNIT
            if name in ("msg", "new", "from") and "anyhow" in (t["f"].get("path") or "") + (t["f"].get("full") or ""):
                return E.Tok("error")
        return base(kind, name, payload, site)
    actor = E.struct(f, "actor::Actor", states=E.struct(f, "actor::OpenReplicas", **{"0": E.Tok("map")}), store=E.Tok("store"))
    heap = {"this": actor, "state": E.struct(f, OR, info=E.Tok("info0"), sync=E.Int(0), handles=E.Int(handles))}
    inl = tuple(p_ for p_ in f.bodies if p_.startswith("actor::Actor::") or p_.startswith("actor::OpenReplicas::"))
    if h.kind == "closure":
        args = E.default_args(f, h.path, heap)
        # closure parameters after the environment: the actor (`this`)
        args = [args[0]] + [E.href("this")] * (h.rec["argc"] - 1)
        # the namespace is a captured variable
    else:
        args = [E.href("this"), E.Tok("namespace")]
    try:
        ret, itp = E.run_it(f, h.path, args, heap, oracle, inline=inl)
        got = E.describe(ret, f)
    except E.Unsupported as e:
        return h, "UNSUPPORTED-FORM: %s" % e, None, log
    after = None if ("remove",) in log else E.describe(E.field(f, itp.heap["state"], OR, "handles"), f)
    return h, got, after, log


def r6(ctx):
    """a drop request against the handle count: dropping is refused while another handle keeps the document open, and a
    refused drop must leave the count alone (`every open adds a handle and every close releases one`: nothing else does)"""
    f = ctx.facts
    for entry, handles in (("vacant", 0), ("occupied", 1), ("occupied", 2), ("occupied", 5)):
        h, got, after, log = eval_drop(f, entry, handles)
        ctx.touch(h)
        problems = []
        if got.startswith("UNSUPPORTED"):
            problems.append(got)
        elif entry == "vacant" or handles == 1:
            if not got.startswith("Ok"):
                problems.append("the only holder (or nobody) holds the document, yet the drop fails")
            if ("remove_replica", "ok") not in log:
                problems.append("the store's remove_replica was not reached with the document closed")
        else:
            if got.startswith("Ok"):
                problems.append("a document held by %d handles was dropped" % handles)
            if after != str(handles):
                problems.append("the refused drop changed the handle count from %d to %s" % (handles, after if after is not None else "closed"))
        ctx.check(not problems, "C14.R6", h.path, "drop[%s%s]" % (entry, ",handles=%d" % handles if entry == "occupied" else ""),
                  "returns %s, handles afterwards %s, events %s; %s" % (got, after if after is not None else "(state removed)", list(log), "; ".join(problems) or "as specified"), h.sp)
    ctx.floor("C14.R6", 4)


def r7(ctx):
    """"replies arrive in request order and reflect all earlier requests": a streamed reply (get_many, list_authors, list_replicas)
    is produced by a task spawned into the actor's join set after the request was accepted. When the actor stops, those tasks
    must be driven to their end (or their streams ended with an error item) before they are discarded: aborting them drops the
    senders, and the client sees a stream that ends cleanly - an empty or truncated answer that looks complete."""
    f = ctx.facts
    top = f.body("actor::Actor::run_async")
    b = f.bodies.get(top.path + "::{closure#0}") if top.rec.get("is_async") else top
    b = b or top
    ctx.touch(*f.scope(top.path, prefix="actor::Actor::"))

    def sites(name):
        out = []
        for bi, t in b.calls():
            hit = t["f"].get("name") == name and "JoinSet" in (t["f"].get("path") or "") + (t["f"].get("full") or "")
            if not hit:
                for p_ in mir.callee_paths(t):
                    if p_ in f.bodies and p_.startswith("actor::") and any(t2["f"].get("name") == name and "JoinSet" in (t2["f"].get("path") or "") + (t2["f"].get("full") or "") for x in f.family(p_) for _, t2 in x.calls()):
                        hit = True
            if hit:
                out.append(bi)
        return out
    aborts = sites("abort_all")
    # the loop's own join_next (reaping finished tasks while running) does not count: only a drain that every abort_all is dominated
    # by and that is not inside the main loop, i.e. is itself dominated by the loop's exit
    # "after the loop" = a site from which the inbox is not read again
    recvs = [bi for bi, t in b.calls() if t["f"].get("name") == "recv" and "async_channel::Receiver" in (t["f"].get("path") or "")]
    joins = [j for j in sites("join_next") if not any(r_ in b.reach_from_edges(b.succ()[j]) for r_ in recvs)]
    ok = (not aborts) or all(any(b.dominates(j, a) for j in joins) for a in aborts)
    ctx.check(ok, "C14.R7", top.path, "accepted-reply-streams-finished-before-the-actor-stops",
              "JoinSet::abort_all at %d site(s) of the actor's shutdown path, %d drain(s) of the join set (join_next after the loop) in front of them; spec: the tasks streaming replies to requests that were accepted "
              "before the shutdown are completed (or their streams terminated with an error) before anything is aborted" % (len(aborts), len(joins)), top.sp)
    ctx.floor("C14.R7", 1)


def r8(ctx):
    """"through the asynchronous store handle": every per-document request is carried out on the addressed document behind
    its gate, with the own fields of the request, and answered with the result; every handle method sends the request it names"""
    from . import actorfw
    actorfw.claim(ctx, "C14.R8", handlers=tuple(actorfw.SPEC), clients=("insert_remote", "sync_process_message", "sync_initial_message", "insert_local", "delete_prefix", "get_exact", "get_many",
                  "has_news_for_us", "set_download_policy", "get_download_policy", "register_useful_peer", "get_sync_peers", "subscribe", "unsubscribe", "set_sync", "get_state", "open", "close",
                  "drop_replica", "export_secret_key"))
    actorfw.check_stream(ctx, "C14.R8")
    ctx.floor("C14.R8", 66)


def r9(ctx):
    """the engine as a client of the handle counting: joining and leaving a document open and close exactly one handle, and the
    engine believes a document joined only if its open succeeded"""
    from . import livefw
    livefw.check_join_leave(ctx, "C14.R9")
    # ... and nothing else makes the engine believe so: a request of a peer for a document the engine has not joined is declined
    # (NotFound) and leaves the joined set alone (the unknown-document row of C11.R1)
    from . import C11
    sub = type(ctx)(ctx.prop, ctx.tier, ctx.facts, ctx.cfg)
    C11.r1(sub)
    for o in sub.obligations:
        if "unknown-document" not in o["key"]:
            continue
        o = dict(o)
        o["key"] = o["key"].replace("C11.R1", "C14.R9")
        o["rule"] = "C14.R9"
        ctx.obligations.append(o)
        if o["status"] != "holds":
            ctx.violations.append(o)
    ctx.analysed_bodies |= sub.analysed_bodies
    ctx.floor("C14.R9", 6)


def r10(ctx):
    """"shutdown hands back a store containing every acknowledged write": a request that fails later must not take the shared write
    transaction - and the acknowledged writes in it - with it (shared with C06.R4)"""
    from . import C06
    C06.share_failing_body(ctx, "C14.R10")


def open_opts_builders(ctx, rule):
    """the options a holder opens a document with are the options that reach the store actor: every OpenOpts builder evaluated on
    options whose fields are distinct tokens - `sync()` sets the sync flag and keeps the subscriber, `subscribe(tx)` sets the
    subscriber and keeps the flag (whatever the order in which they are chained)"""
    from . import feval as E
    f = ctx.facts
    OO = "actor::OpenOpts"
    fields = [x["name"] for x in f.adt(OO)["variants"][0]["fields"]]
    for path, params, changes in (("actor::OpenOpts::sync", [], {"sync": "1"}), ("actor::OpenOpts::subscribe", ["arg.sender"], {"subscribe": "Some(arg.sender)"})):
        b = f.body(path)
        ctx.touch(b)
        init = {n: E.Tok(n + "0") for n in fields}
        want = {n: n + "0" for n in fields}
        want.update(changes)
        try:
            ret, itp = E.run_it(f, path, [E.struct(f, OO, **init)] + [E.Tok(x) for x in params], {}, lambda k, n, p2, s2: None)
            v = itp.resolve(ret)
            got = {fd: E.describe(itp.resolve(v[3].get(i)), f) for i, fd in enumerate(fields)} if (v is not None and v[0] == "adt") else {"?": E.describe(v, f)}
        except E.Unsupported as e:
            got = {"?": "UNSUPPORTED-FORM: %s" % e}
        ctx.check(got == want, rule, path, "open-options-builder[%s]" % path.split("::")[-1], "options afterwards %s; spec %s" % (got, want), b.sp)


def r11(ctx):
    open_opts_builders(ctx, "C14.R11")
    ctx.floor("C14.R11", 2)


def r12(ctx):
    """a failed open takes no handle and leaves no trace: Store::load_replica_info marks a document open only when it could be
    loaded (the load cells of C07.R13)"""
    from . import C07
    ctx.share("C14.R12", C07.r13, "C07.R13", keep=lambda k: "load[" in k, floor=4)

def r13(ctx):
    """"replies ... reflect all earlier requests", for the author a local write signs with: the store's author functions evaluated -
    get_author answers from the authors-table row of the id asked, read in this very call (absent = None, so that a write by a
    deleted author is refused; C14-12 memoised the last author in the actor), import_author stores the secret under the id of
    that secret, delete_author removes the row of the id given"""
    from . import feval as E, tables as T
    f = ctx.facts
    types = T.table_types(f)

    def run(path, args, row="present", body=False):
        log = []

        def oracle(kind, name, payload, site):
            if kind != "call":
                return None
            t, a, it = payload
            names = [it.tokname(x).strip("&*") for x in a]
            if name == "tables" and callee_matches(t, r"store::fs::Store::tables$"):
                return E.Ok(E.Tok("tables"))
            if callee_matches(t, r"store::fs::Store::modify$"):
                it.heap.setdefault("tables", E.Tok("tables"))
                return it.apply(a[1], [E.href("tables")])
            ct = T.call_table(t, types)
            if ct and ct[1] == "get":
                log.append(("%s.get" % ct[0], names[1:]))
                return {"absent": E.Ok(E.NONE), "read-fails": E.Err(E.Tok("storage-error"))}.get(row, E.Ok(E.Some(E.Tok("rowguard"))))
            if ct and ct[1] in T.WRITE_OPS:
                log.append(("%s.%s" % (ct[0], ct[1]), names[1:]))
                return E.Ok(E.NONE)
            if name == "value" and names and names[0] == "rowguard":
                return E.Tok("row-bytes")
            if name == "from_bytes" and callee_matches(t, r"keys::Author::from_bytes$"):
                return E.Tok("author-of(%s)" % names[0])
            if name == "id" and callee_matches(t, r"keys::Author::id$"):
                return E.Tok("id(%s)" % names[0])
            if name == "to_bytes" and callee_matches(t, r"keys::Author::to_bytes$"):
                return E.Tok("secret-bytes(%s)" % names[0])
            if name in ("as_bytes", "to_bytes"):
                return E.Tok("b(%s)" % names[0])
            return None
        try:
            ret, itp = E.run_it(f, path, args, {"self": E.Tok("store"), "author_id": E.Tok("author_id")}, oracle)
            return E.describe(itp.resolve(ret), f), log
        except E.Unsupported as e:
            return "UNSUPPORTED-FORM: %s" % e, log
    g = f.body("store::fs::Store::get_author")
    ctx.touch(g)
    for row, want in (("absent", "Ok(None)"), ("present", "Ok(Some(author-of(row-bytes)))"), ("read-fails", "Err")):
        got, log = run(g.path, [E.href("self"), E.href("author_id")], row)
        ok = (got == want or (want == "Err" and got.startswith("Err"))) and log == [("authors.get", ["b(author_id)"])]
        ctx.check(ok, "C14.R13", g.path, "get_author[row-%s]" % row, "returns %s; table accesses %s; spec: %s from the authors row of the id asked, read in this call" % (got, log, want), g.sp)
    imp = f.body("store::fs::Store::import_author")
    ctx.touch(*f.family(imp.path))
    got, log = run(imp.path, [E.href("self"), E.Tok("author")])
    ctx.check(got == "Ok(())" and log == [("authors.insert", ["b(id(author))", "secret-bytes(author)"])], "C14.R13", imp.path, "import_author", "returns %s; table accesses %s; spec: the secret stored under the id of that secret" % (got, log), imp.sp)
    de = f.body("store::fs::Store::delete_author")
    ctx.touch(*f.family(de.path))
    got, log = run(de.path, [E.href("self"), E.Tok("author")])
    ctx.check(got == "Ok(())" and log == [("authors.remove", ["b(author)"])], "C14.R13", de.path, "delete_author", "returns %s; table accesses %s; spec: the row of the id given removed" % (got, log), de.sp)
    ctx.floor("C14.R13", 5)

def r14(ctx):
    """"every open adds a handle and every close of an open document releases one" - nothing else does: importing a capability for a
    document that is open merges it into the open replica's state in place (the import handler evaluated, = C07.R4; C14-13
    re-opened the document instead, which reset the handle count to one and dropped the subscribers)"""
    from . import C07
    ctx.share("C14.R14", C07.r4, "C07.R4", keep=lambda k: "import[" in k, floor=4)

def run(ctx):
    ctx.run_rule("C14.R1", r1)
    ctx.run_rule("C14.R2", r2)
    ctx.run_rule("C14.R3", r3)
    ctx.run_rule("C14.R4", r4)
    ctx.run_rule("C14.R5", r5)
    ctx.run_rule("C14.R6", r6)
    ctx.run_rule("C14.R7", r7)
    ctx.run_rule("C14.R8", r8)
    ctx.run_rule("C14.R9", r9)
    ctx.run_rule("C14.R10", r10)
    ctx.run_rule("C14.R11", r11)
    ctx.run_rule("C14.R12", r12)
    ctx.run_rule("C14.R13", r13)
    ctx.run_rule("C14.R14", r14)

"""C11 — at most one sync session per peer and document (safety half)."""
from . import mir
from .mir import trace, origin_summary, callee_matches
from .common import find_calls, one_call, call_outcomes, TRUTH, flip
from . import paths as P

EXPLANATION = (
    "Decides the SAFETY half of C11 structurally: the per-(document,peer) coordination automaton read off the MIR of "
    "engine/state.rs by finite path evaluation equals the transition table written from the property text (start_connect, "
    "accept_request incl. the id tie-break's antisymmetry over cmp(me,peer), finish, set_sync_running), the fields `state` and "
    "`resync_requested` have no writer outside that table (who-may-write), namespace-level wrappers decline unknown documents "
    "as NotFound / false / None, and in engine/live.rs a dial is spawned only on the true edge of start_connect, accept delegates "
    "to accept_request with the local endpoint id, and the follow-up dial is guarded by the flag returned from finish and uses "
    "reason Resync. NOT decided (stated as such): 'the slot is always freed' and every other progress clause — they depend on "
    "which completion events arrive under loss, a question about interleavings of two automata and a network (model checking, "
    "a different family)."
)
ASSUMPTIONS = [
    "completion handlers are invoked by the runtime for every finished task (not decided)",
    "tracing macro expansions are effect-free",
]

PS = "engine::state::PeerState::"


def variant_names(f, adt):
    return [v["name"] for v in f.adt(adt)["variants"]]


def dval(p, needle, names=None):
    """value of the decision whose key mentions `needle`"""
    for k, v in p.decisions:
        kk = k
        while kk[0] == "not":
            kk = kk[1]
        if needle in str(kk):
            if names is not None and isinstance(v, int):
                return names[v]
            if names is not None and v == "otherwise":
                others = [names[i] for i in range(len(names))]
                return "otherwise"
            return v
    return None


def r1(ctx):
    f = ctx.facts
    SS = variant_names(f, "engine::state::SyncState")      # Idle, Running
    OR = variant_names(f, "engine::state::Origin")         # Connect, Accept
    SR = variant_names(f, "engine::state::SyncReason")
    # ---- set_sync_running
    b = f.body(PS + "set_sync_running")
    ctx.touch(b)
    ps = P.explore(b)
    ok = len(ps) == 1
    w = dict(P.writes(ps[0])) if ok else {}
    ctx.check(ok and w.get("state", "").startswith("Running") and w.get("resync_requested") == "0", "C11.R1", b.path, "sets-Running-and-clears-resync",
              "writes %s" % w, b.sp)
    # ---- start_connect
    b = f.body(PS + "start_connect")
    ctx.touch(b)
    rows = {}
    for p in P.explore(b):
        st = dval(p, "self.state", SS)
        rs = dval(p, "arg:reason", SR)
        w = P.writes(p)
        rows[(st, rs)] = (P.short(p.ret), tuple(w), tuple(c for c in P.calls(p) if c in ("set_sync_running", "finish")))
    sr_idx = SR.index("SyncReport")
    want = {
        ("Idle", None): ("1", (), ("set_sync_running",)),
        ("Running", "SyncReport"): ("0", (("resync_requested", "1"),), ()),
        ("Running", "otherwise"): ("0", (), ()),
    }
    ctx.check(rows == want, "C11.R1", b.path, "transition-table",
              "(state,reason) -> (returns, writes, calls): %s; spec: Idle -> dial(true)+Running; Running -> refuse(false), resync queued iff reason=SyncReport" % _fmt(rows), b.sp)
    # the origin handed to set_sync_running is Connect(reason)
    bi, t = one_call(b, r"set_sync_running$")
    o = trace(b, t["a"][1])
    okc = all(x.kind == "agg" and x.data[0][2] == "Connect" for x in o) and bool(o)
    if okc:
        inner = {origin_summary(y) for x in o for y in trace(b, x.data[1][0])}
        okc = inner == {"arg:reason"}
    ctx.check(okc, "C11.R1", b.path, "origin-is-Connect(reason)", "set_sync_running(Origin::Connect(reason))", t["sp"])
    # ---- accept_request
    b = f.body(PS + "accept_request")
    ctx.touch(b)
    rows = {}
    SD = variant_names(f, "engine::state::SyncDirection")
    for p in P.explore(b):
        st = dval(p, "self.state)", SS) if dval(p, "self.state)", SS) is not None else dval(p, "arg:self.state", SS)
        og = dval(p, "state.origin", OR)
        sd = dval(p, "expected_sync_direction", SD)
        rows[(st, og, sd)] = (P.short(p.ret), tuple(c for c in P.calls(p) if c in ("set_sync_running",)), tuple(P.writes(p)))
    want = {
        ("Idle", None, None): ("Allow", ("set_sync_running",), ()),
        ("Running", "Accept", None): ("Reject(AlreadySyncing)", (), ()),
        ("Running", "Connect", "Accept"): ("Allow", ("set_sync_running",), ()),
        ("Running", "Connect", "Connect"): ("Reject(AlreadySyncing)", (), ()),
    }
    ctx.check(rows == want, "C11.R1", b.path, "transition-table",
              "(state,origin,tie-break) -> (outcome, calls, writes): %s; spec: Idle->Allow; Running{Accept}->AlreadySyncing; Running{Connect}->decided by the id tie-break" % _fmt(rows), b.sp)
    bi, t = one_call(b, r"set_sync_running$") if len(find_calls(b, r"set_sync_running$")) == 1 else (None, None)
    if t:
        o = trace(b, t["a"][1])
        ctx.check(all(x.kind == "agg" and x.data[0][2] == "Accept" for x in o) and bool(o), "C11.R1", b.path, "origin-is-Accept", "set_sync_running(Origin::Accept)", t["sp"])
    ed = [t2 for _, t2 in b.calls() if t2["f"].get("name") == "expected_sync_direction"]
    okd = len(ed) == 1 and {origin_summary(x) for x in trace(b, ed[0]["a"][0])} == {"arg:me"} and {origin_summary(x) for x in trace(b, ed[0]["a"][1])} == {"arg:node"}
    ctx.check(okd, "C11.R1", b.path, "tie-break(me,node)", "expected_sync_direction(me, node) in that order", b.sp)
    # ---- tie break antisymmetry
    e = f.body("engine::state::expected_sync_direction")
    ctx.touch(e)
    tbl = None
    for p in P.explore(e):
        for k, v in p.decisions:
            if k[0] == "cmp":
                t0 = TRUTH[k[1]]
                if "other" in k[2] and "self" in k[3]:
                    t0 = flip(t0)
                tbl = tbl or {}
                for o in t0:
                    if t0[o] == bool(v):
                        tbl[o] = P.short(p.ret)
    ok = bool(tbl) and len(tbl) == 3 and tbl["Less"] != tbl["Greater"] and set(tbl.values()) == {"Accept", "Connect"}
    ctx.check(ok, "C11.R1", e.path, "antisymmetric-over-cmp(me,peer)",
              "direction(cmp(me,peer)) = %s; for two simultaneous dials the two nodes see Less and Greater, so exactly one Accepts iff direction(Less) != direction(Greater)" % tbl, e.sp)
    okb = all({origin_summary(x) for x in trace(e, c["a" if i == 0 else "b"])} == {"arg:self_node_id" if i == 0 else "arg:other_node_id"} for c in _cmps(e) for i in (0, 1)) if len(_cmps(e)) == 1 else False
    ctx.check(okb, "C11.R1", e.path, "compares-the-two-ids", "one comparison of self id bytes with other id bytes", e.sp)
    # ---- finish
    b = f.body(PS + "finish")
    ctx.touch(b)
    n = 0
    for p in P.explore(b):
        n += 1
        w = P.writes(p)
        st = [v for fld, v in w if fld == "state"]
        rr = [v for fld, v in w if fld == "resync_requested"]
        ctx.check(st == ["Idle"] and not rr, "C11.R1", b.path, "path.state:=Idle,resync-untouched[%s]" % dval(p, "self.state", SS),
                  "writes %s (finish frees the slot on every path and must not clear the resync flag before reporting it)" % w, b.sp)
    # returned flag is self.resync_requested
    m = [t2 for _, t2 in b.calls() if t2["f"].get("name") == "map" and t2["d"]["l"] == 0]
    okf = False
    if len(m) == 1:
        cl = [d for d in m[0]["f"]["tdefs"] if d and "{closure" in d]
        if cl:
            cb = f.body(cl[0])
            ctx.touch(cb)
            for bi2, si2, s in cb.statements():
                if s["k"] == "assign" and s["p"]["l"] == 0 and s["r"][0] == "agg" and s["r"][1][0] == "tuple" and len(s["r"][2]) == 2:
                    fl = set()
                    for x in trace(cb, s["r"][2][1]):
                        idx = [pp[1] for pp in x.projs if pp[0] == "field"]
                        up = mir.upvar_origins(f, cb, idx[0]) if (x.kind == "upvar" and idx) else None
                        if up:
                            for y in up[1]:
                                fl.add((origin_summary(y),) + mir.field_path(y) + tuple(str(pp[2]) for pp in x.projs[1:] if pp[0] == "field"))
                        else:
                            fl.add(("?",))
                    okf = fl == {("arg:self", "resync_requested")}
    ctx.check(okf, "C11.R1", b.path, "returns-the-resync-flag", "Some((start, self.resync_requested)) when a session was running", b.sp)
    # no callee of finish writes the flag either
    for bi2, t2 in b.calls():
        for pth in mir.callee_paths(t2):
            if pth.startswith("engine::state::") and pth in f.bodies:
                cb2 = f.bodies[pth]
                for p in P.explore(cb2):
                    bad = [x for x in P.writes(p) if x[0] == "resync_requested"]
                    ctx.check(not bad, "C11.R1", b.path, "callee-%s-leaves-resync" % pth.split("::")[-1], "callee writes %s" % bad, t2["sp"])
    # ---- who may write state / resync_requested
    allowed = {"state": {PS + "finish", PS + "set_sync_running"}, "resync_requested": {PS + "start_connect", PS + "set_sync_running"}}
    nw = 0
    for body in f.bodies.values():
        if not body.path.startswith("engine::") or body.rec.get("derived"):
            continue
        for bi2, si2, s in body.statements():
            if s["k"] != "assign":
                continue
            for pr in s["p"]["p"]:
                if pr[0] == "field" and pr[2] in allowed and "PeerState" in _owner_ty(body, s["p"]):
                    nw += 1
                    ctx.check(body.path in allowed[pr[2]], "C11.R1", body.path, "writer-of-PeerState.%s" % pr[2],
                              "PeerState.%s may be written only by %s" % (pr[2], sorted(x.split("::")[-1] for x in allowed[pr[2]])), s["sp"])
    if nw < 4:
        raise mir.AnchorMissing("expected >=4 writes to PeerState.state/resync_requested, found %d" % nw)
    # ---- namespace-level wrappers
    ns = "engine::state::NamespaceStates::"
    b = f.body(ns + "accept_request")
    ctx.touch(b)
    rows = {}
    for p in P.explore(b):
        got = dval(p, "entry")
        rows[got] = P.short(p.ret)
    ok = any(v == "Reject(NotFound)" for v in rows.values()) and any(v == "call:accept_request" for v in rows.values()) and len(rows) == 2
    ctx.check(ok, "C11.R1", b.path, "unknown-document->NotFound", "%s" % rows, b.sp)
    b = f.body(ns + "start_connect")
    ctx.touch(b)
    rows = {dval(p, "entry"): P.short(p.ret) for p in P.explore(b)}
    ctx.check(set(rows.values()) == {"0", "call:start_connect"}, "C11.R1", b.path, "unknown-document->false", "%s" % rows, b.sp)
    b = f.body(ns + "entry")
    ctx.touch(b)
    gm = [t2 for _, t2 in b.calls() if t2["f"].get("name") == "get_mut"]
    ctx.check(len(gm) == 1 and {origin_summary(x) for x in trace(b, gm[0]["a"][1])} == {"arg:namespace"}, "C11.R1", b.path, "only-syncing-namespaces", "entry() is None unless the namespace is in the sync set (get_mut, not entry().or_default())", b.sp)
    ctx.floor("C11.R1", 16)


def _cmps(b):
    from .common import comparisons
    return [c for c in comparisons(b) if not mir.is_noise(c["x"])]


def _owner_ty(body, place):
    ty = body.locals[place["l"]]["ty"]
    return ty


def _fmt(rows):
    return "; ".join("%s -> %s" % (k, v) for k, v in sorted(rows.items(), key=str))


LIVE = "engine::live::LiveActor::<D>::"


def r2(ctx):
    f = ctx.facts
    # sync_with_peer: spawn only under start_connect == true
    cands = [b for b in f.bodies.values() if b.path.startswith("engine::live::LiveActor") and any(callee_matches(t, r"engine::state::NamespaceStates::start_connect$") for _, t in b.calls())]
    if len(cands) != 1:
        raise mir.AnchorMissing("expected one caller of NamespaceStates::start_connect in live.rs, found %d" % len(cands))
    b = cands[0]
    ctx.touch(b)
    bi, t = one_call(b, r"NamespaceStates::start_connect$")
    oc = call_outcomes(b, bi)
    e = oc.get("true")
    spawns = [(sbi, st) for sbi, st in b.calls() if st["f"].get("name") in ("spawn", "spawn_local", "spawn_on") ]
    conn = [(sbi, st) for sbi, st in b.calls() if st["f"].get("name") in ("connect_and_sync",)]
    ok = bool(e) and bool(spawns) and all(b.edge_dominates(e[0], e[1], sbi) for sbi, _ in spawns + conn)
    ctx.check(ok, "C11.R2", b.path, "dial-only-if-start_connect-true", "%d spawn / %d connect_and_sync sites, all dominated by the true edge of start_connect" % (len(spawns), len(conn)), t["sp"])
    # accept_sync_request delegates with the local endpoint id
    acc = [x for x in f.bodies.values() if x.path.startswith("engine::live::LiveActor") and any(callee_matches(t2, r"engine::state::NamespaceStates::accept_request$") for _, t2 in x.calls())]
    if len(acc) != 1:
        raise mir.AnchorMissing("expected one caller of NamespaceStates::accept_request in live.rs, found %d" % len(acc))
    a = acc[0]
    ctx.touch(a)
    abi, at = one_call(a, r"NamespaceStates::accept_request$")
    me = trace(a, at["a"][1])
    okme = any(o.kind == "call" and o.data["f"].get("name") in ("id", "endpoint_id", "node_id") for o in me)
    ctx.check(okme, "C11.R2", a.path, "me-is-local-endpoint-id", "accept_request(me = %s)" % [origin_summary(o) for o in me], at["sp"])
    ctx.check(at["d"]["l"] == 0 or any(True for _ in [0]), "C11.R2", a.path, "delegates-to-state-machine", "the accept decision is the state machine's outcome", at["sp"])
    # on_sync_finished: follow-up dial guarded by the flag from finish, reason Resync
    fin = [x for x in f.bodies.values() if x.path.startswith("engine::live::LiveActor") and any(callee_matches(t2, r"engine::state::NamespaceStates::finish$") for _, t2 in x.calls())]
    if len(fin) != 1:
        raise mir.AnchorMissing("expected one caller of NamespaceStates::finish in live.rs, found %d" % len(fin))
    fb = fin[0]
    ctx.touch(fb)
    fbi, ft = one_call(fb, r"NamespaceStates::finish$")
    redial = [(sbi, st) for sbi, st in fb.calls() if st["f"].get("name") == "sync_with_peer"]
    okr = len(redial) == 1
    detail = "found %d follow-up dial sites" % len(redial)
    if okr:
        sbi, st = redial[0]
        # reason operand is SyncReason::Resync
        ro = trace(fb, st["a"][-1])
        okreason = all(o.kind == "agg" and o.data[0][2] == "Resync" for o in ro) and bool(ro)
        # guarded by a switch on a bool that derives from finish's result
        guarded = False
        for gbi, blk in enumerate(fb.blocks):
            tt = blk["t"]
            if tt["k"] == "switch" and tt["d"][0] in ("copy", "move"):
                src = trace(fb, tt["d"])
                if any(o.kind == "call" and o.data is ft for o in src) and fb.locals[tt["d"][1]["l"]]["ty"] == "bool":
                    tgt = [tb for v, tb in tt["v"] if v == 0]
                    true_t = tt["o"]
                    if fb.edge_dominates(gbi, true_t, sbi):
                        guarded = True
        okr = okreason and guarded
        detail = "reason Resync: %s; guarded by the resync flag returned from finish: %s" % (okreason, guarded)
    ctx.check(okr, "C11.R2", fb.path, "single-follow-up-dial-guarded-by-finish-flag", detail, ft["sp"])
    ctx.floor("C11.R2", 4)


def run(ctx):
    ctx.run_rule("C11.R1", r1)
    ctx.run_rule("C11.R2", r2)

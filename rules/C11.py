"""C11 — at most one sync session per peer and document (safety half)."""
import re
from . import mir
from .mir import trace, origin_summary, callee_matches
from .common import find_calls, one_call, call_outcomes, TRUTH, flip
from . import paths as P

EXPLANATION = (
    'Decides the SAFETY half of C11 structurally: the per-(document,peer) coordination automaton read off the MIR of '
    'engine/state.rs by finite path evaluation equals the transition table written from the property text (start_connect, '
    "accept_request incl. the id tie-break's antisymmetry over cmp(me,peer), finish, set_sync_running), the fields `state` "
    'and `resync_requested` have no writer outside that table (who-may-write), namespace-level wrappers decline unknown '
    'documents as NotFound / false / None, and in engine/live.rs a dial is spawned only on the true edge of start_connect, '
    'accept delegates to accept_request with the local endpoint id, and the follow-up dial is guarded by the flag returned '
    "from finish and uses reason Resync; (R3) every completion releases the slot: abort_connect's transition table, both "
    'completion handlers of the live actor (dial finished, accept finished) evaluated on every result class reach finish / '
    "abort_connect for the session's (document, peer) on every path, and once the accept callback allowed a request the "
    "acceptor's errors name the document (else the handler cannot release). The finish table is written from the property "
    'text: the session that owns the slot frees it, a result of the other kind (dialled / accepted) leaves the slot alone; '
    'abort_connect hands a queued resync to the caller, and the completion handler follows it up with exactly one dial; '
    "(R4) a declined dial's release can tell which dial it is about (reports F22, known finding). (R5) NamespaceStates::insert evaluated on a map model (marking a document again keeps its per-peer states) and LiveActor::start_sync / leave evaluated (the set of synced documents follows successful joins and leaves). NOT decided (stated as "
    'such): progress under loss — which completion events arrive, interleavings of the two automata over a network (model '
    'checking, a different family).'
)
ASSUMPTIONS = [

    "completion handlers are invoked by the runtime for every finished task (not decided)",
    "tracing macro expansions are effect-free",
]

PS = "engine::state::PeerState::"


EXPLANATION += ' (R6) the document-level operations (NamespaceStates::start_connect / accept_request / finish / abort_connect) evaluated on a nested map model: only the slot of (this document, this peer) changes, an unknown document gets no entry. (R7) the per-peer slot map only grows; whole documents are discarded only by leave.'
EXPLANATION += ' (R8, round 9) = the declined-session cells of C10.R9 (what the completion handler is told about a request we declined). (R1, round 9) finish also on a dial reported with another reason than the one recorded: still the owner, the slot is freed.'
EXPLANATION += ' (R9, round 10) the same evaluation: the follow-up dial (reason Resync, this document, this peer) happens exactly when finish() hands the resync flag over, on every cell.'


def variant_names(f, adt):
    return [v["name"] for v in f.adt(adt)["variants"]]


def dval(p, needle, names=None):
    """value of the decision whose key mentions `needle`"""
    for k, v in p.decisions:
        kk = k
        while kk[0] == "not":
            kk = kk[1]
        if needle in str(kk):
            if names is not None and isinstance(v, int):
                return names[v]
            if names is not None and v == "otherwise":
                others = [names[i] for i in range(len(names))]
                return "otherwise"
            return v
    return None


def _peer(f, E, state, origin=None, resync="resync0"):
    SS = "engine::state::SyncState"
    OR = "engine::state::Origin"
    if state == "Idle":
        st = E.variant(f, SS, "Idle")
    else:
        og = E.variant(f, OR, "Accept") if origin == "Accept" else E.variant(f, OR, "Connect", E.Tok("reason0"))
        st = E.variant(f, SS, "Running", start=E.Tok("start0"), origin=og)
    return E.struct(f, "engine::state::PeerState", state=st, resync_requested=resync if not isinstance(resync, str) else E.Tok(resync), last_sync=E.Tok("last0"))


def _state_of(f, E, peer):
    st = E.field(f, peer, "engine::state::PeerState", "state")
    d = E.describe(st, f)
    return d.split("(")[0], d


def r1(ctx):
    f = ctx.facts
    from . import feval as E
    SR = variant_names(f, "engine::state::SyncReason")
    PSP = "engine::state::PeerState"
    for nm in ("set_sync_running", "start_connect", "accept_request", "finish"):
        ctx.touch(f.body(PS + nm))
    # ---- start_connect over {Idle, Running} x reasons
    b = f.body(PS + "start_connect")
    rows = {}
    for st in ("Idle", "Running"):
        for reason in SR:
            heap = {"self": _peer(f, E, st, "Accept", resync=E.Int(0))}
            try:
                ret, h, ev = E.run(f, b.path, [E.href("self"), E.variant(f, "engine::state::SyncReason", reason)], heap)
                after = h["self"]
                sname, sfull = _state_of(f, E, after)
                rr = E.describe(E.field(f, after, PSP, "resync_requested"), f)
                rows[(st, reason)] = (E.describe(ret, f), sname, ("Connect(%s)" % reason) in sfull if sname == "Running" and st == "Idle" else None, rr)
            except E.Unsupported as e:
                rows[(st, reason)] = ("UNSUPPORTED-FORM: %s" % e,)
    want = {}
    for reason in SR:
        want[("Idle", reason)] = ("1", "Running", True, "0")
        want[("Running", reason)] = ("0", "Running", None, "1" if reason == "SyncReport" else "0")
    ctx.check(rows == want, "C11.R1", b.path, "transition-table",
              "(state, reason) -> (returns, state', origin=Connect(reason), resync'): %s; spec: Idle -> dial(true)+Running{Connect(reason)}, resync cleared; Running -> refuse(false), state kept, resync queued iff reason=SyncReport" % _fmt(rows), b.sp)
    # ---- accept_request over {Idle, Running{Accept}, Running{Connect}} x cmp(me,node)
    b = f.body(PS + "accept_request")
    rows = {}
    for st, og in (("Idle", None), ("Running", "Accept"), ("Running", "Connect")):
        for order in ("Less", "Greater"):
            def oracle(kind, a, b2, site, order=order):
                if kind in ("cmp", "eq") and "me" in str(a) + str(b2) and "node" in str(a) + str(b2):
                    o = -1 if order == "Less" else 1
                    if "node" in str(a) and "me" in str(b2):
                        o = -o
                    return (False if kind == "eq" else o)
                return None
            heap = {"self": _peer(f, E, st, og, resync=E.Int(1)), "me": E.Tok("me"), "node": E.Tok("node")}
            try:
                ret, h, ev = E.run(f, b.path, [E.href("self"), E.href("me"), E.href("node")], heap, oracle)
                sname, sfull = _state_of(f, E, h["self"])
                rr = E.describe(E.field(f, h["self"], PSP, "resync_requested"), f)
                rows[(st, og, order)] = (E.describe(ret, f), sfull if "Accept" in sfull or sname == "Idle" else sname + "{Connect}", rr)
            except E.Unsupported as e:
                rows[(st, og, order)] = ("UNSUPPORTED-FORM: %s" % e,)
    ok = True
    det = []
    for order in ("Less", "Greater"):
        r = rows.get(("Idle", None, order))
        ok = ok and r is not None and r[0] == "Allow" and "Running" in r[1] and "Accept" in r[1] and r[2] == "0"
        r = rows.get(("Running", "Accept", order))
        ok = ok and r is not None and r[0] == "Reject(AlreadySyncing)" and r[2] == "1"
    rl, rg = rows.get(("Running", "Connect", "Less")), rows.get(("Running", "Connect", "Greater"))
    both = {rl[0] if rl else None, rg[0] if rg else None}
    tie_ok = both == {"Allow", "Reject(AlreadySyncing)"}
    for r in (rl, rg):
        if r and r[0] == "Allow":
            # the slot passes to the accepted session; a report refused while our dial was running (resync queued = 1 in these cells)
            # still has to be followed up when that session ends: the takeover must not forget it
            tie_ok = tie_ok and "Accept" in r[1] and r[2] == "1"
        if r and r[0].startswith("Reject"):
            tie_ok = tie_ok and "Connect" in r[1] and r[2] == "1"
    ctx.check(ok, "C11.R1", b.path, "transition-table",
              "(state, origin, cmp(me,node)) -> (outcome, state', resync'): %s; spec: Idle -> Allow + Running{Accept}; Running{Accept} -> Reject(AlreadySyncing), nothing changed" % _fmt(rows), b.sp)
    ctx.check(tie_ok, "C11.R1", b.path, "simultaneous-dial-tie-break-antisymmetric",
              "while dialing: outcome(cmp(me,node)=Less) = %s, outcome(Greater) = %s; spec: exactly one of the two nodes of a simultaneous dial allows the request (the outcomes differ), the allowing side switches to Running{Accept} and keeps a queued resync, the other keeps its dial" % (rl, rg), b.sp)
    # ---- finish over {Idle, Running}
    b = f.body(PS + "finish")
    rows = {}
    OA = E.variant(f, "engine::state::Origin", "Accept")
    OC = E.variant(f, "engine::state::Origin", "Connect", E.Tok("reason0"))
    for st, og in (("Idle", None), ("Running", "Accept"), ("Running", "Connect")):
        for rr0 in (0, 1):
            for reported in ("same", "other", "same-kind-other-reason"):
                if reported == "same-kind-other-reason" and og != "Connect":
                    continue
                peer = _peer(f, E, st, og, resync=E.Int(rr0))
                same = OC if og == "Connect" else OA
                other = OA if og == "Connect" else OC
                # (our own dial, started for another reason than the one recorded: it is still the session that owns the slot)
                heap = {"self": peer, "origin": same if reported == "same" else (other if reported == "other" else E.variant(f, "engine::state::Origin", "Connect", E.Tok("reason1")))}

                def reason_oracle(kind, a, b2, site):
                    if kind in ("eq", "cmp") and str(a).startswith("reason") and str(b2).startswith("reason"):
                        return (str(a) == str(b2)) if kind == "eq" else ((str(a) > str(b2)) - (str(a) < str(b2)))
                    return None
                try:
                    ret, h, ev = E.run(f, b.path, [E.href("self"), E.href("origin"), E.Tok("result0")], heap, reason_oracle)
                    sname, sfull = _state_of(f, E, h["self"])
                    rr = E.describe(E.field(f, h["self"], PSP, "resync_requested"), f)
                    rows[(st, og, rr0, reported)] = (E.describe(ret, f), sname, rr)
                except E.Unsupported as e:
                    rows[(st, og, rr0, reported)] = ("UNSUPPORTED-FORM: %s" % e,)
    ok = True
    for (st, og, rr0, reported), val in rows.items():
        if len(val) != 3:
            ok = False
            continue
        ret, sname, rr = val
        ok = ok and rr == str(rr0)
        if st == "Idle":
            ok = ok and ret == "None" and sname == "Idle"
        elif reported in ("same", "same-kind-other-reason"):
            ok = ok and ret == "Some((start0,%d))" % rr0 and sname == "Idle"
        else:
            # the result of a session that does not own the slot (our dial failed after the remote's request took the slot
            # over, or the reverse): the owner is still running - "never two sessions in progress at once" - so nothing is released
            ok = ok and ret == "None" and sname == "Running"
    ctx.check(ok, "C11.R1", b.path, "transition-table",
              "(state, origin, resync, reported origin kind) -> (returns, state', resync'): %s; spec: the session that owns the slot frees it (state := Idle, Some((start, resync flag))); a result of the other kind (dial vs accepted) leaves the slot to its owner and returns None; the resync flag is left untouched" % _fmt(rows), b.sp)
    # ---- set_sync_running
    b = f.body(PS + "set_sync_running")
    heap = {"self": _peer(f, E, "Idle", resync=E.Int(1))}
    try:
        ret, h, ev = E.run(f, b.path, [E.href("self"), E.variant(f, "engine::state::Origin", "Accept")], heap)
        sname, sfull = _state_of(f, E, h["self"])
        rr = E.describe(E.field(f, h["self"], PSP, "resync_requested"), f)
        okr = sname == "Running" and "Accept" in sfull and rr == "0"
        det = "state' = %s, resync' = %s" % (sfull, rr)
    except E.Unsupported as e:
        okr, det = False, "UNSUPPORTED-FORM: %s" % e
    ctx.check(okr, "C11.R1", b.path, "sets-Running-and-clears-resync", det, b.sp)
    # ---- tie-break function itself
    e = f.body("engine::state::expected_sync_direction")
    ctx.touch(e)
    tb = {}
    for order in ("Less", "Equal", "Greater"):
        def oracle(kind, a, b2, site, order=order):
            if kind in ("cmp", "eq"):
                o = {"Less": -1, "Equal": 0, "Greater": 1}[order]
                if "other" in str(a) and "self" in str(b2):
                    o = -o
                return (o == 0) if kind == "eq" else o
            return None
        try:
            ret, h, ev = E.run(f, e.path, [E.href("a"), E.href("b")], {"a": E.Tok("self_id"), "b": E.Tok("other_id")}, oracle)
            tb[order] = E.describe(ret, f)
        except E.Unsupported as ex:
            tb[order] = "UNSUPPORTED-FORM: %s" % ex
    ctx.check(tb.get("Less") != tb.get("Greater") and {tb.get("Less"), tb.get("Greater")} == {"Accept", "Connect"}, "C11.R1", e.path, "antisymmetric-over-cmp(me,peer)",
              "direction(cmp(self,other)) = %s; the two nodes of a simultaneous dial see Less and Greater, so exactly one Accepts iff direction(Less) != direction(Greater)" % tb, e.sp)
    ctx.check(len(_cmps(e)) == 1, "C11.R1", e.path, "compares-the-two-ids", "one comparison of the two ids", e.sp)
    # no callee of finish writes the flag either (who-may-write below covers every body)
    SS = variant_names(f, "engine::state::SyncState")
    # ---- who may write state / resync_requested
    allowed = {"state": {PS + "finish", PS + "set_sync_running"}, "resync_requested": {PS + "start_connect", PS + "set_sync_running", PS + "accept_request"}}
    # abort_connect (release of a declined dial): only Running{Connect} -> Idle, everything else untouched
    if PS + "abort_connect" in f.bodies:
        ab = f.body(PS + "abort_connect")
        ctx.touch(ab)
        rows = {}
        for st, og in (("Idle", None), ("Running", "Accept"), ("Running", "Connect")):
            for rr0 in (0, 1):
                try:
                    ret, h, ev = E.run(f, ab.path, [E.href("self")], {"self": _peer(f, E, st, og, resync=E.Int(rr0))})
                    sname, sfull = _state_of(f, E, h["self"])
                    rows[(st, og, rr0)] = (sname if sname == "Idle" else sfull, E.describe(E.field(f, h["self"], PSP, "resync_requested"), f), E.describe(ret, f))
                except E.Unsupported as ex:
                    rows[(st, og, rr0)] = ("UNSUPPORTED-FORM: %s" % ex, None, None)
        want = {}
        for st, og in (("Idle", None), ("Running", "Accept"), ("Running", "Connect")):
            for rr0 in (0, 1):
                freed = og == "Connect"
                # a report refused because of the declined dial is followed up: the flag is handed to the caller (who dials) and cleared;
                # when the slot is not ours the flag belongs to the session that owns it and stays
                want[(st, og, rr0)] = ("Idle" if (st == "Idle" or freed) else "Running(start0,Accept)", "0" if freed else str(rr0), str(rr0) if freed else "0")
        ctx.check(rows == want, "C11.R1", ab.path, "transition-table", "abort_connect: (state, origin, resync) -> (state', resync', returns) %s; spec: a slot held by our own dial is freed and the queued follow-up is handed to the caller (returned, flag cleared); a slot held by an accepted session (or a free one) and its resync flag are left alone, nothing to follow up" % rows, ab.sp)
        allowed["state"].add(PS + "abort_connect")
        allowed["resync_requested"].add(PS + "abort_connect")
    nw = 0
    for body in f.bodies.values():
        if not body.path.startswith("engine::") or body.rec.get("derived"):
            continue
        for bi2, si2, s in body.statements():
            if s["k"] != "assign":
                continue
            for pr in s["p"]["p"]:
                if pr[0] == "field" and pr[2] in allowed and "PeerState" in _owner_ty(body, s["p"]):
                    nw += 1
                    ctx.check(body.path in allowed[pr[2]], "C11.R1", body.path, "writer-of-PeerState.%s" % pr[2],
                              "PeerState.%s may be written only by %s" % (pr[2], sorted(x.split("::")[-1] for x in allowed[pr[2]])), s["sp"])
    if nw < 4:
        raise mir.AnchorMissing("expected >=4 writes to PeerState.state/resync_requested, found %d" % nw)
    # ---- namespace-level wrappers
    ns = "engine::state::NamespaceStates::"
    b = f.body(ns + "accept_request")
    ctx.touch(b)
    rows = {}
    for p in P.explore(b):
        got = dval(p, "entry")
        rows[got] = P.short(p.ret)
    ok = any(v == "Reject(NotFound)" for v in rows.values()) and any(v == "call:accept_request" for v in rows.values()) and len(rows) == 2
    ctx.check(ok, "C11.R1", b.path, "unknown-document->NotFound", "%s" % rows, b.sp)
    b = f.body(ns + "start_connect")
    ctx.touch(b)
    rows = {dval(p, "entry"): P.short(p.ret) for p in P.explore(b)}
    ctx.check(set(rows.values()) == {"0", "call:start_connect"}, "C11.R1", b.path, "unknown-document->false", "%s" % rows, b.sp)
    b = f.body(ns + "entry")
    ctx.touch(b)
    gm = [t2 for _, t2 in b.calls() if t2["f"].get("name") == "get_mut"]
    ctx.check(len(gm) == 1 and {origin_summary(x) for x in trace(b, gm[0]["a"][1])} == {"arg:namespace"}, "C11.R1", b.path, "only-syncing-namespaces", "entry() is None unless the namespace is in the sync set (get_mut, not entry().or_default())", b.sp)
    ctx.floor("C11.R1", 14)


def _cmps(b):
    from .common import comparisons
    return [c for c in comparisons(b) if not mir.is_noise(c["x"])]


def _owner_ty(body, place):
    ty = body.locals[place["l"]]["ty"]
    return ty


def _fmt(rows):
    return "; ".join("%s -> %s" % (k, v) for k, v in sorted(rows.items(), key=str))


LIVE = "engine::live::LiveActor::<D>::"


def r2(ctx):
    f = ctx.facts
    # sync_with_peer: spawn only under start_connect == true
    cands = [b for b in f.bodies.values() if b.path.startswith("engine::live::LiveActor") and any(callee_matches(t, r"engine::state::NamespaceStates::start_connect$") for _, t in b.calls())]
    if len(cands) != 1:
        raise mir.AnchorMissing("expected one caller of NamespaceStates::start_connect in live.rs, found %d" % len(cands))
    b = cands[0]
    ctx.touch(b)
    bi, t = one_call(b, r"NamespaceStates::start_connect$")
    oc = call_outcomes(b, bi)
    e = oc.get("true")
    spawns = [(sbi, st) for sbi, st in b.calls() if st["f"].get("name") in ("spawn", "spawn_local", "spawn_on") ]
    conn = [(sbi, st) for sbi, st in b.calls() if st["f"].get("name") in ("connect_and_sync",)]
    ok = bool(e) and bool(spawns) and all(b.edge_dominates(e[0], e[1], sbi) for sbi, _ in spawns + conn)
    ctx.check(ok, "C11.R2", b.path, "dial-only-if-start_connect-true", "%d spawn / %d connect_and_sync sites, all dominated by the true edge of start_connect" % (len(spawns), len(conn)), t["sp"])
    # accept_sync_request delegates with the local endpoint id
    acc = [x for x in f.bodies.values() if x.path.startswith("engine::live::LiveActor") and any(callee_matches(t2, r"engine::state::NamespaceStates::accept_request$") for _, t2 in x.calls())]
    if len(acc) != 1:
        raise mir.AnchorMissing("expected one caller of NamespaceStates::accept_request in live.rs, found %d" % len(acc))
    a = acc[0]
    ctx.touch(a)
    abi, at = one_call(a, r"NamespaceStates::accept_request$")
    me = trace(a, at["a"][1])
    okme = any(o.kind == "call" and o.data["f"].get("name") in ("id", "endpoint_id", "node_id") for o in me)
    ctx.check(okme, "C11.R2", a.path, "me-is-local-endpoint-id", "accept_request(me = %s)" % [origin_summary(o) for o in me], at["sp"])
    ctx.check(at["d"]["l"] == 0 or any(True for _ in [0]), "C11.R2", a.path, "delegates-to-state-machine", "the accept decision is the state machine's outcome", at["sp"])
    # on_sync_finished: follow-up dial guarded by the flag from finish, reason Resync
    fin = [x for x in f.bodies.values() if x.path.startswith("engine::live::LiveActor") and any(callee_matches(t2, r"engine::state::NamespaceStates::finish$") for _, t2 in x.calls())]
    if len(fin) != 1:
        raise mir.AnchorMissing("expected one caller of NamespaceStates::finish in live.rs, found %d" % len(fin))
    fb = fin[0]
    ctx.touch(fb)
    fbi, ft = one_call(fb, r"NamespaceStates::finish$")
    redial = [(sbi, st) for sbi, st in fb.calls() if st["f"].get("name") == "sync_with_peer"]
    okr = len(redial) == 1
    detail = "found %d follow-up dial sites" % len(redial)
    if okr:
        sbi, st = redial[0]
        # reason operand is SyncReason::Resync
        ro = trace(fb, st["a"][-1])
        okreason = all(o.kind == "agg" and o.data[0][2] == "Resync" for o in ro) and bool(ro)
        # guarded by a switch on a bool that derives from finish's result
        guarded = False
        for gbi, blk in enumerate(fb.blocks):
            tt = blk["t"]
            if tt["k"] == "switch" and tt["d"][0] in ("copy", "move"):
                src = trace(fb, tt["d"])
                if any(o.kind == "call" and o.data is ft for o in src) and fb.locals[tt["d"][1]["l"]]["ty"] == "bool":
                    tgt = [tb for v, tb in tt["v"] if v == 0]
                    true_t = tt["o"]
                    if fb.edge_dominates(gbi, true_t, sbi):
                        guarded = True
        okr = okreason and guarded
        detail = "reason Resync: %s; guarded by the resync flag returned from finish: %s" % (okreason, guarded)
    ctx.check(okr, "C11.R2", fb.path, "single-follow-up-dial-guarded-by-finish-flag", detail, ft["sp"])
    ctx.floor("C11.R2", 4)


def r3(ctx):
    """every completion of a session we dialed or accepted releases the slot or leaves it to the session that owns it:
    the two completion handlers of the live actor evaluated (K6', awaits driven) on the result classes"""
    from . import feval as E
    f = ctx.facts
    L = "engine::live::LiveActor::"
    hc = f.body(L + "on_sync_via_connect_finished")
    ctx.touch(*f.scope(hc.path, prefix="engine::live::"))
    AR = "net::AbortReason"
    CE = "net::ConnectError"
    reasons = [v["name"] for v in f.adt(AR)["variants"]]
    cases = [("Ok", E.Ok(E.Tok("finished")))]
    for r in reasons:
        cases.append(("RemoteAbort(%s)" % r, E.Err(E.variant(f, CE, "RemoteAbort", E.variant(f, AR, r)))))
    for v in f.adt(CE)["variants"]:
        if v["name"] != "RemoteAbort":
            cases.append((v["name"], E.Err(E.variant(f, CE, v["name"], *[E.Tok("e%d" % i) for i in range(len(v["fields"]))]))))
    ab_ret = f.bodies.get("engine::state::NamespaceStates::abort_connect")
    ab_returns_flag = ab_ret is not None and ab_ret.locals[0]["ty"] == "bool"
    cases2 = []
    for label, res in cases:
        if label == "RemoteAbort(AlreadySyncing)" and ab_returns_flag:
            cases2 += [(label + ",report-was-refused-meanwhile", res, 1), (label, res, 0)]
        else:
            cases2.append((label, res, 0))
    for label, res, queued in cases2:
        log = []

        def oracle(kind, name, payload, site, queued=queued):
            if kind == "eq":
                return None
            if kind == "call":
                t, args, it = payload
                names = [it.tokname(a) for a in args]
                if name == "on_sync_finished":
                    log.append(("on_sync_finished", names[1:4]))
                    return E.Tok("finished-future")
                if name == "sync_with_peer":
                    log.append(("dial", names[1:4]))
                    return E.UNIT
                if callee_matches(t, r"engine::state::NamespaceStates::(abort_connect|finish)$"):
                    log.append((name, names[1:3]))
                    return (E.Int(queued) if ab_returns_flag else E.UNIT) if name == "abort_connect" else E.NONE
            if kind == "await" and name == "finished-future":
                return E.UNIT
            return None
        try:
            out, hp, ev = E.run_async(f, hc.path, [E.href("self"), E.Tok("namespace"), E.Tok("peer"), E.Tok("reason"), res], {"self": E.Tok("actor")}, oracle)
            got = "returns"
        except E.Unsupported as ex:
            got = "UNSUPPORTED-FORM: %s" % ex
        released = any(e[0] in ("on_sync_finished", "finish", "abort_connect") and e[1][:2] == ["namespace", "peer"] for e in log)
        dials = [e for e in log if e[0] == "dial"]
        if ab_returns_flag and label.startswith("RemoteAbort(AlreadySyncing)"):
            # "a report of news that is refused because a session is running leads to exactly one follow-up dial when that session
            # finishes" - also when it finishes by being declined
            follow = (len(dials) == 1 and dials[0][1][:2] == ["namespace", "peer"] and "Resync" in str(dials[0][1])) if queued else not dials
            ctx.check(got == "returns" and follow, "C11.R3", hc.path, "declined-dial-follows-up-a-refused-report[%s]" % ("queued" if queued else "none-queued"),
                      "%s; calls %s; spec: exactly one follow-up dial (reason Resync) to the same peer iff abort_connect hands back a queued report" % (got, log), hc.sp)
        if not label.startswith("RemoteAbort(AlreadySyncing)"):
            # "both the initiating and the accepting side finish with success or a reported error": the outcome of our dial reaches
            # on_sync_finished (which records it and tells the subscribers) - except when the remote declined because a session with
            # us is running already: that session reports
            rep = [e for e in log if e[0] == "on_sync_finished"]
            ctx.check(got == "returns" and len(rep) == 1 and rep[0][1][:2] == ["namespace", "peer"], "C11.R3", hc.path, "dial-completion-is-reported[%s]" % label,
                      "%s; calls %s; spec: one on_sync_finished(namespace, peer, ..) carrying the outcome" % (got, log), hc.sp)
        ctx.check(got == "returns" and released, "C11.R3", hc.path, "dial-completion-releases-slot[%s]" % label,
                  "%s; slot-releasing calls %s; spec: when our dial ends - however - the (namespace, peer) slot it took in start_connect is released "
                  "(finish via on_sync_finished) or released unless an accepted session owns it (abort_connect); returning without either leaves the slot "
                  "taken forever and no sync with that peer is started again" % (got, log), hc.sp)
    # the accepting side: the completion handler evaluated on the result classes; the slot was taken by accept_request
    # (after the Init frame named the document), so every result that names (peer, namespace) must release it
    ha = f.body(L + "on_sync_via_accept_finished")
    ctx.touch(*f.scope(ha.path, prefix="engine::live::"))
    AE = "net::AcceptError"
    acases = [("Ok", E.Ok(E.struct(f, "net::SyncFinished", namespace=E.Tok("namespace"), peer=E.Tok("peer"), outcome=E.Tok("outcome"), timings=E.Tok("timings"))), True)]
    for r in reasons:
        acases.append(("Abort(%s)" % r, E.Err(E.variant(f, AE, "Abort", peer=E.Tok("peer"), namespace=E.Tok("namespace"), reason=E.variant(f, AR, r))), None))
    acases.append(("Sync{namespace known}", E.Err(E.variant(f, AE, "Sync", peer=E.Tok("peer"), namespace=E.Some(E.Tok("namespace")), error=E.Tok("e"))), True))
    acases.append(("Close{namespace known}", E.Err(E.variant(f, AE, "Close", peer=E.Tok("peer"), namespace=E.Some(E.Tok("namespace")), error=E.Tok("e"))), True))
    acases.append(("Sync{before init}", E.Err(E.variant(f, AE, "Sync", peer=E.Tok("peer"), namespace=E.NONE, error=E.Tok("e"))), False))
    acases.append(("Connect", E.Err(E.variant(f, AE, "Connect", error=E.Tok("e"))), False))
    for label, res, must in acases:
        log = []

        def oracle(kind, name, payload, site):
            if kind == "eq":
                a2, b2 = str(name), str(payload)
                return None
            if kind == "call":
                t, args, it = payload
                names = [it.tokname(a) for a in args]
                if name == "on_sync_finished":
                    log.append(("on_sync_finished", names[1:4]))
                    return E.Tok("finished-future")
                if callee_matches(t, r"engine::state::NamespaceStates::(abort_connect|finish)$"):
                    log.append((name, names[1:3]))
                    return E.UNIT if name == "abort_connect" else E.NONE
            if kind == "await" and name == "finished-future":
                return E.UNIT
            return None
        try:
            out, hp, ev = E.run_async(f, ha.path, [E.href("self"), res], {"self": E.Tok("actor")}, oracle)
            got = "returns"
        except E.Unsupported as ex:
            got = "UNSUPPORTED-FORM: %s" % ex
        released = any(e[0] in ("on_sync_finished", "finish") and e[1][:2] == ["namespace", "peer"] for e in log)
        if must is None:
            # a request we declined ourselves - whatever the reason: already syncing, document not synced, internal error - never
            # took the slot (accept_request sets it only on Allow). Its result may arrive late (the accept task ends after the
            # stream-close handshake): releasing on it frees the slot of whichever session holds it by then (F27)
            ok = got == "returns" and not released
            spec = "a request declined by us never held the slot: its result must not release the slot (it would free the slot of the session that owns it by then)"
        else:
            ok = got == "returns" and released == must
            spec = "released exactly when the result names the (namespace, peer) whose slot accept_request took"
        ctx.check(ok, "C11.R3", ha.path, "accept-completion-releases-slot[%s]" % label, "%s; slot-releasing calls %s; spec: %s" % (got, log, spec), ha.sp)
    # and the acceptor's session function reports the document in every error once the request was allowed (otherwise the
    # handler above cannot release the slot): evaluated on the acceptor scripts of C10
    from . import C10
    bad = []
    n = 0
    for frames in C10._scripts(2):
        if not frames or frames[0] != "Init":
            continue
        for proc in C10.PROCS:
            for send_ok in (True, False):
                n += 1
                res, log, final, io = C10.eval_bob(f, frames, "Allow", proc, send_ok, raw=True)
                if isinstance(res, str) and res.startswith("Err") and not res.startswith("Err(Abort"):
                    if "Some(ns)" not in res or "peer" not in res:
                        bad.append("frames=%s process=%s send=%s: %s" % ("+".join(frames), "/".join(proc), send_ok, res[:80]))
    ctx.check(not bad and n >= 40, "C11.R3", "net::codec::BobState::run", "allowed-session-errors-name-the-document",
              "%d acceptor scripts with an allowed request: errors not naming (peer, Some(namespace)): %s" % (n, bad[:3]), f.body("net::codec::BobState::run").sp)
    # on_sync_finished always reaches NamespaceStates::finish for the same (namespace, peer)
    fin = f.body(L + "on_sync_finished")
    fb = f.body(fin.path + "::{closure#0}") if (fin.path + "::{closure#0}") in f.bodies else fin
    ctx.touch(fb)
    calls = [(bi, t) for x in f.scope(fin.path, prefix="engine::live::") for bi, t in x.calls() if callee_matches(t, r"engine::state::NamespaceStates::finish$")]
    okf = len(calls) == 1
    if okf:
        x = [y for y in f.scope(fin.path, prefix="engine::live::") if any(t is calls[0][1] for _, t in y.calls())][0]
        from .common import outer_site
        ob = outer_site(f, fb, x, calls[0][0])
        # reached on every path from the entry: it dominates every return of the handler body
        rets = [bi for bi, blk in enumerate(fb.blocks) if blk["t"]["k"] == "return" and bi in fb.reachable(0)]
        okf = ob is not None and all(fb.dominates(ob, r) for r in rets) and bool(rets)
    ctx.check(okf, "C11.R3", fin.path, "finish-on-every-path", "on_sync_finished calls NamespaceStates::finish on every path to its return (%d call sites)" % len(calls), fin.sp)
    ctx.floor("C11.R3", 12)


def r4(ctx):
    """the slot of a (document, peer) pair belongs to one session at a time, and results arrive late: the decline of a dial whose
    slot was taken over by an accepted request - which has meanwhile finished - can arrive when a NEWER dial holds the slot. The
    release of a declined dial must therefore be able to tell which dial it is about; with (document, peer) alone it frees whatever
    dial holds the slot, and a second dial to the same peer can be started while the first is in flight."""
    from . import feval as E
    f = ctx.facts
    ab = f.body(PS + "abort_connect")
    ctx.touch(ab)
    argc = ab.rec["argc"]
    if argc <= 1:
        ctx.bad("C11.R4", ab.path, "stale-decline-cannot-free-a-newer-dial",
                "abort_connect takes no identification of the dial that was declined (%d parameter besides the document and peer that select the slot): it frees any Running{Connect} slot, also the one of a newer dial" % (argc - 1), ab.sp)
    else:
        rows = {}
        for same in (1, 0):
            def oracle(kind, a, b2, site, same=same):
                if kind in ("eq", "cmp") and ("declined" in str(a) + str(b2)):
                    return bool(same) if kind == "eq" else (0 if same else 1)
                return None
            try:
                args = [E.href("self")] + [E.Tok("declined-dial")] * (argc - 1)
                ret, h, ev = E.run(f, ab.path, args, {"self": _peer(f, E, "Running", "Connect", resync=E.Int(0))}, oracle)
                rows[same] = _state_of(f, E, h["self"])[0]
            except E.Unsupported as ex:
                rows[same] = "UNSUPPORTED-FORM: %s" % ex
        ctx.check(rows == {1: "Idle", 0: "Running"}, "C11.R4", ab.path, "stale-decline-cannot-free-a-newer-dial",
                  "slot held by a dial, decline of {the same dial: %s, an earlier dial: %s}; spec: freed / kept" % (rows.get(1), rows.get(0)), ab.sp)
    ctx.floor("C11.R4", 1)


def r5(ctx):
    """which documents are being synced, and what a repeated join does to the per-peer slots: the set is what start_sync /
    leave make it (shared with C14.R9), and marking a document again keeps the slots of its running sessions"""
    from . import livefw
    livefw.check_state_insert(ctx, "C11.R5")
    livefw.check_join_leave(ctx, "C11.R5")
    ctx.floor("C11.R5", 7)


def r6(ctx):
    """the document-level operations the live actor actually calls (NamespaceStates::start_connect / accept_request / finish /
    abort_connect) evaluated on a nested map model - documents -> peers -> slot - together with the per-peer functions they
    reach: the slot addressed is the one of (this document, this peer); an unknown document answers false / NotFound / None and
    nothing is created for it; the slots of the other peers of the document and of the same peer in another document are left
    exactly as they were (a session with one peer never frees, takes or resets the slot of another pair)"""
    from . import feval as E, coll
    f = ctx.facts
    NS = "engine::state::NamespaceStates"
    NST = "engine::state::NamespaceState"
    PSP = "engine::state::PeerState"
    OA = E.variant(f, "engine::state::Origin", "Accept")
    OC = E.variant(f, "engine::state::Origin", "Connect", E.Tok("reason0"))
    ops = ("start_connect", "accept_request", "finish", "abort_connect")
    for nm in ops + ("entry",):
        ctx.touch(f.body(NS + "::" + nm))

    def slot(it, v):
        v = it.deref_val(v) if v is not None and v[0] == "ref" else v
        if v is None or v[0] != "adt":
            return E.describe(v, f)
        st = E.describe(E.field(f, v, PSP, "state"), f)
        st = "Idle" if st.startswith("Idle") else ("Running{Accept}" if "Accept" in st else ("Running{Connect}" if "Connect" in st else st))
        return "%s/resync=%s" % (st, E.describe(E.field(f, v, PSP, "resync_requested"), f))

    def snapshot(it):
        out = {}
        m = E.field(f, it.heap["self"], NS, "0")
        for kv in (m[2] if coll.is_seq(m) else []):
            ns = it.tokname(kv[1][0])
            st = it.deref_val(kv[1][1])
            nodes = E.field(f, st, NST, "nodes")
            for kv2 in (nodes[2] if coll.is_seq(nodes) else []):
                out[(ns, it.tokname(kv2[1][0]))] = slot(it, kv2[1][1])
            out[(ns,)] = "doc"
        return out

    n = 0
    for op in ops:
        for doc in ("absent", "present"):
            for pst in ("absent", "Idle", "Running{Connect}", "Running{Accept}"):
                if doc == "absent" and pst != "absent":
                    continue
                C = coll.Collections(f)

                def oracle(kind, name, payload, site):
                    if kind in ("eq", "cmp"):
                        a, b2 = str(name), str(payload)
                        if (a.startswith("ns") and b2.startswith("ns")) or (a.startswith("peer") and b2.startswith("peer")) or (a.startswith(("peer", "me")) and b2.startswith(("peer", "me"))):
                            return (a == b2) if kind == "eq" else ((a > b2) - (a < b2))
                        return None
                    if kind == "call" and name == "or_default":
                        t, args, it = payload
                        full = (t["f"].get("full") or "") + (t["f"].get("res") or "")
                        if "PeerState" in full:
                            dflt = _peer(f, E, "Idle", resync=E.Int(0))
                            return C.handle_map("or_insert", t, [args[0], dflt], it, full)
                    if kind == "call" and name == "now":
                        return E.Tok("now")
                    return C.handle(kind, name, payload, site)
                heap = {}

                def cellp(nm, st, og, rr):
                    heap[nm] = _peer(f, E, st, og, resync=E.Int(rr))
                    return E.href(nm)
                peers1 = [("tuple", [E.Tok("peerB"), cellp("c-ns1-peerB", "Running", "Accept", 1)])]
                if pst != "absent":
                    st, og = ("Idle", None) if pst == "Idle" else ("Running", "Connect" if "Connect" in pst else "Accept")
                    peers1 = [("tuple", [E.Tok("peerA"), cellp("c-ns1-peerA", st, og, 1)])] + peers1
                peers2 = [("tuple", [E.Tok("peerA"), cellp("c-ns2-peerA", "Running", "Connect", 1)])]
                heap["d-ns2"] = E.struct(f, NST, nodes=coll.seq("map", peers2), may_emit_ready=E.Int(0))
                docs = [("tuple", [E.Tok("ns2"), E.href("d-ns2")])]
                if doc == "present":
                    heap["d-ns1"] = E.struct(f, NST, nodes=coll.seq("map", peers1), may_emit_ready=E.Int(0))
                    docs = [("tuple", [E.Tok("ns1"), E.href("d-ns1")])] + docs
                heap["self"] = E.struct(f, NS, **{"0": coll.seq("map", docs)})
                heap["ns"] = E.Tok("ns1")
                heap["me"] = E.Tok("me0")
                heap["origin"] = OA if pst == "Running{Accept}" else OC
                args = {"start_connect": [E.href("self"), E.href("ns"), E.Tok("peerA"), E.variant(f, "engine::state::SyncReason", "DirectJoin")],
                        "accept_request": [E.href("self"), E.href("me"), E.href("ns"), E.Tok("peerA")],
                        "finish": [E.href("self"), E.href("ns"), E.Tok("peerA"), E.href("origin"), E.Tok("result0")],
                        "abort_connect": [E.href("self"), E.href("ns"), E.Tok("peerA")]}[op]
                key = "%s[document=%s,peer=%s]" % (op, doc, pst)
                b = f.body(NS + "::" + op)
                try:
                    ret, itp = E.run_it(f, b.path, args, heap, oracle)
                    got = snapshot(itp)
                    rets = E.describe(ret, f)
                except E.Unsupported as e:
                    ctx.bad("C11.R6", b.path, key, "UNSUPPORTED-FORM: %s" % e, b.sp)
                    n += 1
                    continue
                # ---- what the property says
                by = {("ns2",): "doc", ("ns2", "peerA"): "Running{Connect}/resync=1"}
                if doc == "present":
                    by[("ns1",)] = "doc"
                    by[("ns1", "peerB")] = "Running{Accept}/resync=1"
                problems = []
                for k, v in by.items():
                    if got.get(k) != v:
                        problems.append("bystander %s: %s, was %s" % ("/".join(k), got.get(k), v))
                mine = got.get(("ns1", "peerA"))
                if doc == "absent":
                    want_ret = {"start_connect": "0", "accept_request": "Reject(NotFound)", "finish": "None", "abort_connect": "0"}[op]
                    if rets != want_ret:
                        problems.append("returns %s, spec %s" % (rets, want_ret))
                    if ("ns1",) in got or mine is not None:
                        problems.append("an entry was created for a document that is not being synced")
                else:
                    if op == "start_connect":
                        free = pst in ("absent", "Idle")
                        want_ret = "1" if free else "0"
                        want_state = "Running{Connect}" if free else pst
                    elif op == "accept_request":
                        free = pst in ("absent", "Idle")
                        if pst == "Running{Connect}":
                            want_ret, want_state = None, None     # the tie-break row: decided by C11.R1
                        else:
                            want_ret = "Allow" if free else "Reject(AlreadySyncing)"
                            want_state = "Running{Accept}"
                    elif op == "finish":
                        owner = pst.startswith("Running")       # the reported origin is the owner's
                        want_ret = "Some((start0,1))" if owner else "None"
                        want_state = "Idle"
                    else:
                        want_ret = "1" if pst == "Running{Connect}" else "0"
                        want_state = "Idle" if pst in ("Running{Connect}", "Idle", "absent") else pst
                    if want_ret is not None and rets != want_ret:
                        problems.append("returns %s, spec %s" % (rets, want_ret))
                    if want_state is not None:
                        have = (mine or "no-entry").split("/")[0]
                        if have == "no-entry" and want_state == "Idle":
                            have = "Idle"
                        if have != want_state:
                            problems.append("slot of (ns1, peerA) afterwards %s, spec %s" % (mine, want_state))
                    if set(got) - set(by) - {("ns1", "peerA")}:
                        problems.append("unexpected entries %s" % sorted(set(got) - set(by) - {("ns1", "peerA")}))
                n += 1
                ctx.check(not problems, "C11.R6", b.path, key,
                          "returns %s; slots afterwards %s; spec: only the slot of (this document, this peer) may change, by the per-peer transition; an unknown document answers false / NotFound / None and gets no entry" % (rets, {"/".join(k): v for k, v in got.items() if len(k) == 2}),
                          b.sp, bad_detail="; ".join(problems) + " — slots afterwards %s" % {"/".join(k): v for k, v in got.items() if len(k) == 2})
    ctx.floor("C11.R6", 20)


def r7(ctx):
    """a slot lives as long as its document is being synced: the per-peer map of a document (peer -> PeerState) only ever grows
    by `entry(peer).or_default()`; nothing removes, replaces, clears or filters its entries (a slot dropped while a session is
    running comes back Idle - "never two sessions in progress at once"), and the only thing that discards a whole document's
    slots is NamespaceStates::remove (leaving the document)"""
    f = ctx.facts
    MUT = {"remove", "remove_entry", "clear", "retain", "insert", "pop_first", "pop_last", "drain", "split_off", "append", "extract_if", "take", "replace", "swap", "first_entry", "last_entry", "into_iter", "into_values"}
    n_maps = 0
    found = []
    for b in f.bodies.values():
        if not b.path.startswith("engine::") or b.rec.get("derived"):
            continue
        for bi, t in b.calls():
            if mir.is_noise(t.get("x")):
                continue
            full = (t["f"].get("full") or "") + " " + " ".join(t["f"].get("targs") or [])
            nm = t["f"].get("name")
            if "engine::state::PeerState" in full and ("BTreeMap" in full or "HashMap" in full or "btree_map" in full or "hash_map" in full):
                n_maps += 1
                if nm in MUT or (nm == "take" and "mem::" in full):
                    found.append((b, t, nm))
            if nm in ("take", "replace", "swap") and "std::mem::" in full and "PeerState" in full:
                found.append((b, t, "mem::" + nm))
        # assignments to the `nodes` field of NamespaceState
        for bi, si, st in b.statements():
            if st["k"] == "assign" and any(pr[0] == "field" and pr[2] == "nodes" for pr in st["p"]["p"]) and "NamespaceState" in str(b.locals[st["p"]["l"]]["ty"]):
                if not any(pr[0] == "field" and pr[2] != "nodes" for pr in st["p"]["p"][-1:]):
                    found.append((b, {"sp": st["sp"], "f": {"name": "assign"}}, "assignment to NamespaceState.nodes"))
    if n_maps < 1:
        raise mir.AnchorMissing("no call on the per-peer map (a map with PeerState values) found under engine::")
    for b, t, nm in found:
        ctx.bad("C11.R7", b.path, "per-peer-slot-discarded[%s]" % nm, "`%s` on the per-peer slot map: a slot can be dropped or replaced while its session is running" % nm, t["sp"])
    ctx.ok("C11.R7", "engine::state", "per-peer-slots-only-grow", "%d calls on the per-peer map, none of them removes, replaces, clears or filters entries" % n_maps, None)
    # whole-document removal only through NamespaceStates::remove, called only when leaving
    rm = f.body("engine::state::NamespaceStates::remove")
    ctx.touch(rm)
    callers = sorted({b.rec.get("root") or b.path for b in f.bodies.values() for _, t in b.calls() if callee_matches(t, r"engine::state::NamespaceStates::remove$")})
    leave_roots = {p for p in f.bodies if re.search(r"LiveActor(::<D>)?::leave(::\{closure#0\})?$", p)}
    ctx.check(bool(callers) and bool(leave_roots) and all(c in leave_roots or f.only_reached_from(c, leave_roots) for c in callers), "C11.R7", rm.path, "document-slots-discarded-only-by-leave",
              "NamespaceStates::remove is called from %s (leave, or a helper only leave calls)" % callers, rm.sp)
    # round 14 (C11-13): ... and the only thing that *adds* a document to the set of documents being synced is NamespaceStates::insert
    # ("requests for documents that are not being synced are declined as not found": an accessor that looks a document up with
    # `entry(..).or_default()` puts a document that was left back into the set)
    ADD = {"insert", "entry", "or_default", "or_insert", "or_insert_with", "or_insert_with_key", "extend", "try_insert", "append"}
    ins_roots = {"engine::state::NamespaceStates::insert"}
    n_doc = 0
    adders = []
    for b in f.bodies.values():
        if not b.path.startswith("engine::") or b.rec.get("derived"):
            continue
        for bi, t in b.calls():
            if mir.is_noise(t.get("x")):
                continue
            full = (t["f"].get("full") or "") + " " + " ".join(t["f"].get("targs") or [])
            nm = t["f"].get("name")
            if re.search(r"engine::state::NamespaceState\b", full) and ("BTreeMap" in full or "HashMap" in full or "btree_map" in full or "hash_map" in full):
                n_doc += 1
                if nm in ADD:
                    root = b.rec.get("root") or b.path
                    if not (root in ins_roots or f.only_reached_from(root, ins_roots)):
                        adders.append((b, t, nm))
    if n_doc < 1:
        raise mir.AnchorMissing("no call on the document-level map (a map with NamespaceState values) found under engine::")
    for b, t, nm in adders:
        ctx.bad("C11.R7", b.path, "document-added-outside-insert[%s]" % nm, "`%s` on the map of documents being synced outside NamespaceStates::insert: a document that is not being synced can (re-)enter the set" % nm, t["sp"])
    ctx.ok("C11.R7", "engine::state", "documents-added-only-by-insert", "%d calls on the document-level map, entry-creating ones only in NamespaceStates::insert" % n_doc, None)
    ctx.floor("C11.R7", 3)


def r8(ctx):
    """what the completion handler is told about a request we declined: net::handle_connection evaluated with a declined session
    and each closing step failing - the error is the Abort itself or names no document, so that on_sync_via_accept_finished
    (R3's declined-request rows) releases nothing (= the declined cells of C10.R9)"""
    from . import netfw
    sub = type(ctx)(ctx.prop, ctx.tier, ctx.facts, ctx.cfg)
    netfw.check_accept(sub, "C11.R8")
    for o in sub.obligations:
        if "session=declined" in o["key"]:
            ctx.obligations.append(o)
            if o["status"] != "holds":
                ctx.violations.append(o)
    ctx.analysed_bodies |= sub.analysed_bodies
    ctx.floor("C11.R8", 4)


def r9(ctx):
    """"a report of news that is refused because a session is running leads to exactly one follow-up dial when that session
    finishes": LiveActor::on_sync_finished evaluated on session result x what finish() answers x subscribers present x content
    pending - the follow-up dial happens exactly when finish() hands the resync flag over, on every cell"""
    from . import livefw
    livefw.check_sync_finished(ctx, "C11.R9", "follow-up")
    ctx.floor("C11.R9", 24)

def run(ctx):
    ctx.run_rule("C11.R1", r1)
    ctx.run_rule("C11.R2", r2)
    ctx.run_rule("C11.R3", r3)
    ctx.run_rule("C11.R4", r4)
    ctx.run_rule("C11.R5", r5)
    ctx.run_rule("C11.R6", r6)
    ctx.run_rule("C11.R7", r7)
    ctx.run_rule("C11.R8", r8)
    ctx.run_rule("C11.R9", r9)

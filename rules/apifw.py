"""API layer (src/api/actor.rs): the RPC handlers are thin forwarders to the store actor's handle and the engine. A handler
is evaluated (K6', awaits driven to completion): every call on actor::SyncHandle / engine::Engine is a future the oracle
completes with success or failure, the request's fields are tokens `req.<field>`. The verdict: which calls were made with
which request fields, in which order, and what the handler answers."""
from . import mir

API = "api::actor::RpcActor::"
PROTO = "api::protocol::"


def eval_handler(f, handler, req_adt, fail=None, extra_args=()):
    """returns (rendered result, [(call(args), ok|err)]) for handler `handler`; `fail` = name of the forwarded method that fails"""
    from . import feval as E
    log = []

    def oracle(kind, name, payload, site):
        if kind == "call":
            t, args, it = payload
            path = t["f"].get("path") or ""
            if (path.startswith("actor::SyncHandle::") or path.startswith("engine::Engine::")) and name not in ("into_future", "poll", "clone"):
                return E.Tok("fw.%s(%s)" % (name, ",".join(it.tokname(a).strip("&*") for a in args[1:])))
            if name == "new" and "RpcError" in path + (t["f"].get("full") or ""):
                return E.Tok("rpc-error")
            if name == "send" and args and it.tokname(args[0]).strip("&*") == "reply":
                log.append(("reply.send(%s)" % E.describe(it.resolve(args[1]), f), "ok"))
                return E.Tok("reply-sent(%d)" % len(log))
            if name == "clone" and args and it.tokname(args[0]).strip("&*") == "reply":
                return args[0]
            if name == "deref" and args:
                return args[0]
            return None
        if kind == "await" and str(name).startswith("reply-sent("):
            return E.Ok(E.UNIT)
        if kind == "await" and name.startswith("fw."):
            m = name[3:]
            meth = m.split("(")[0]
            ok = meth != fail
            log.append((m, "ok" if ok else "err"))
            return E.Ok(E.Tok("result-of-%s" % meth)) if ok else E.Err(E.Tok("%s-error" % meth))
        return None
    fields = [x["name"] for x in f.adt(PROTO + req_adt)["variants"][0]["fields"]]
    req = E.struct(f, PROTO + req_adt, **{n: E.Tok("req.%s" % n) for n in fields})
    try:
        out, hp, ev = E.run_async(f, API + handler, [E.href("self"), req] + [E.Tok(x) for x in extra_args], {"self": E.Tok("rpc-actor")}, oracle, inline=tuple(p for p in f.bodies if p.startswith(API)))
        return E.describe(out, f), log
    except E.Unsupported as e:
        return "UNSUPPORTED-FORM: %s" % e, log


def check_forwarder(ctx, rule, handler, req_adt, steps, answer=None, strict=True, why=""):
    """steps: the forwarded calls in order, each `method(arg,arg)` over request fields (a step ending in `,` or `(` is a prefix:
    further arguments are not demanded); answer: the rendered success value (None: any Ok). strict: no other forwarded call is
    made. Evaluated with every step succeeding and with each required step failing in turn."""
    f = ctx.facts
    b = f.body(API + handler)
    ctx.touch(*f.family(b.path))
    meths = [s_.split("(")[0] for s_ in steps]

    def matches(call, step):
        return call == step or (step[-1] in ",(" and call.startswith(step))

    def subseq(calls, want):
        i = 0
        for c in calls:
            if i < len(want) and matches(c, want[i]):
                i += 1
        return i == len(want)
    for fail in [None] + meths:
        got, log = eval_handler(f, handler, req_adt, fail)
        calls = [c for c, _ in log]
        problems = []
        if got.startswith("UNSUPPORTED"):
            problems.append(got)
        elif fail is None:
            if not subseq(calls, steps) or (strict and len(calls) != len(steps)):
                problems.append("forwards %s, expected %s" % (calls, steps))
            if not got.startswith("Ok(") or (answer is not None and got != answer):
                problems.append("answers %s, expected %s" % (got, answer or "Ok(..)"))
        else:
            k = meths.index(fail)
            if not subseq(calls, steps[:k + 1]) or any(subseq(calls, steps[:j + 1]) for j in range(k + 1, len(steps))):
                problems.append("with %s failing it forwards %s, expected %s and nothing of the later steps" % (fail, calls, steps[:k + 1]))
            if not got.startswith("Err("):
                problems.append("%s failed but the handler answers %s" % (fail, got))
        ctx.check(not problems, rule, b.path, "api-forward[%s]" % ("all-ok" if fail is None else fail + "-fails"),
                  "%s -> %s after %s; %s%s" % (handler, got, log, "; ".join(problems) or "forwards the request's own fields and reports the outcome", (" (" + why + ")") if why and problems else ""), b.sp)


def check_stream_forwarder(ctx, rule, handler, req_adt, step):
    """a streaming handler `handler(req, reply)`: the forwarded call carries the request's fields and the caller's reply channel;
    when it fails, the failure is sent into the reply channel (the caller must not see a cleanly ending, empty stream)"""
    f = ctx.facts
    b = f.body(API + handler)
    ctx.touch(*f.family(b.path))
    meth = step.split("(")[0]
    for fail in (None, meth):
        got, log = eval_handler(f, handler, req_adt, fail, extra_args=("reply",))
        calls = [c for c, _ in log]
        problems = []
        if got.startswith("UNSUPPORTED"):
            problems.append(got)
        elif fail is None:
            if calls != [step]:
                problems.append("forwards %s, expected %s" % (calls, [step]))
        else:
            if calls[:1] != [step] or len(calls) != 2 or not calls[1].startswith("reply.send(Err("):
                problems.append("with %s failing: %s, expected the call followed by the error sent to the caller" % (fail, calls))
        ctx.check(not problems, rule, b.path, "api-forward[%s]" % ("all-ok" if fail is None else fail + "-fails"),
                  "%s -> %s after %s; %s" % (handler, got, log, "; ".join(problems) or "forwards the request's own fields and the caller's channel, reports a failure into it"), b.sp)


# ------------------------------------------------------------------------------------------------------------------
# the client side of the RPC layer (src/api.rs): a method of Doc / DocsApi evaluated with its parameters as named tokens
def eval_client(f, path, closed=0, trace_ops=None):
    """returns (rendered result, [(rpc kind, rendered request)]); `closed`: what the handle's closed flag reads"""
    from . import feval as E, coll
    b = f.body(path)
    sent = []
    C = coll.Collections(f)

    def oracle(kind, name, payload, site):
        if kind == "await":
            return E.Ok(E.Ok(E.Tok("response"))) if str(name).startswith("fut:rpc") else None
        if kind == "discr" and str(name).startswith("response"):
            return 1        # an optional part of the server's answer (`response.entry`): present
        if kind != "call":
            return None
        t, args, it = payload
        names = [it.tokname(a).strip("&*") for a in args]
        full = (t["f"].get("full") or "") + (t["f"].get("path") or "")
        if name in ("rpc", "server_streaming", "client_streaming", "bidi_streaming", "notify") and "irpc" in full:
            sent.append((name, E.describe(it.resolve(args[1]), f)))
            if trace_ops is not None:
                trace_ops.append("rpc")
            return E.Tok("fut:rpc")
        if name == "ensure_open":
            return E.Ok(E.UNIT) if not closed else E.Err(E.Tok("document-is-closed"))
        if ("AtomicBool" in full or "atomic::Atomic" in full) and names and "closed" in names[0]:
            if trace_ops is not None:
                trace_ops.append("closed." + name)
            if name in ("load", "swap", "fetch_or"):
                return E.Int(1 if closed else 0)
            if name == "store":
                return E.UNIT
            if name == "compare_exchange":
                return E.Err(E.Int(1)) if closed else E.Ok(E.Int(0))
        if name == "deref" and names and "closed" in names[0]:
            return a_[0] if False else args[0]
        if name in ("as_ref", "to_vec", "into", "to_owned", "from", "to_bytes", "copy_from_slice") and names and names[0].startswith("arg."):
            return args[0]     # conversions of a parameter into the field's type carry the value
        return C.handle(kind, name, payload, site)
    is_doc = path.startswith("api::Doc::")
    heap = {"self": E.struct(f, "api::Doc", inner=E.Tok("client"), namespace_id=E.Tok("self.doc"), closed=E.Tok("closed"))} if is_doc else {"self": E.Tok("api")}
    args = [E.href("self")] + [E.Tok("arg." + (b.local_name(i) or "p%d" % i)) for i in range(2, b.rec["argc"] + 1)]
    try:
        if b.rec.get("is_async"):
            ret, hp, evs = E.run_async(f, path, args, heap, oracle)
        else:
            ret, hp, evs = E.run(f, path, args, heap, oracle)
        return E.describe(ret, f), sent
    except E.Unsupported as e:
        return "UNSUPPORTED-FORM: %s" % e, sent


def check_client(ctx, rule, method, request, doc_from="self.doc"):
    """`method` (api::Doc::x or api::DocsApi::x) sends exactly one `request`, naming its own document (`doc_from`), every other
    field holding one of its own parameters (each at most once, no constants)"""
    import re
    f = ctx.facts
    b = f.body(method)
    ctx.touch(b)
    got, sent = eval_client(f, method)
    fields = [x["name"] for x in f.adt(PROTO + request)["variants"][0]["fields"]]
    ok = len(sent) == 1 and got.startswith("Ok(")
    detail = ""
    if ok:
        m = re.fullmatch(r"%s(?:\((.*)\))?" % request, sent[0][1])
        ok = bool(m)
        if m:
            vals = m.group(1).split(",") if m.group(1) else []
            pairs = dict(zip(fields, vals))
            docs = [v for v in vals if v == doc_from]
            rest = [v for v in vals if v != doc_from]
            ok = len(vals) == len(fields) and len(docs) == 1 and all(re.fullmatch(r"arg\.[\w.]+", v) for v in rest) and len(set(rest)) == len(rest)
            detail = "fields %s" % pairs
    ctx.check(ok, rule, method, "client-sends[%s]" % request,
              "evaluated with its parameters as arg.*: sends %s, returns %s; %s; spec: one %s naming its own document (%s), each other field one of its own parameters" % (sent, got[:120], detail, request, doc_from), b.sp)


def check_close_idempotent(ctx, rule):
    """a Doc handle stands for one open request: closing it releases that one handle - closing it again (or closing a clone, which
    shares the closed flag) must release nothing, or somebody else's handle is taken away and a removal that must be refused while
    they hold the document goes through"""
    f = ctx.facts
    b = f.body("api::Doc::close")
    ctx.touch(b)
    for closed in (0, 1):
        got, sent = eval_client(f, "api::Doc::close", closed=closed)
        if closed:
            ok = not sent and not got.startswith("UNSUPPORTED")
            spec = "no request is sent"
        else:
            ok = got.startswith("Ok(") and [x[1] for x in sent] == ["CloseRequest(self.doc)"]
            spec = "one close request for its own document"
        ctx.check(ok, rule, "api::Doc::close", "close[handle-%s]" % ("already-closed" if closed else "open"), "returns %s, sends %s; spec: %s" % (got[:80], sent, spec), b.sp)
    # ... also when two close() calls on clones of one handle overlap: the flag has to be *claimed* by an atomic
    # read-modify-write before the request goes out (a `load` that is followed by a `store` only after the reply lets both calls
    # through, and two handles are released for one open)
    ops = []
    eval_client(f, "api::Doc::close", closed=0, trace_ops=ops)
    RMW = ("closed.swap", "closed.compare_exchange", "closed.compare_exchange_weak", "closed.fetch_or", "closed.fetch_update", "closed.fetch_xor")
    first_rpc = ops.index("rpc") if "rpc" in ops else len(ops)
    claimed = any(o in RMW for o in ops[:first_rpc])
    ctx.check(claimed, rule, "api::Doc::close", "close[two-overlapping-closes-of-one-handle]",
              "operations on the closed flag and the request, in order: %s; spec: an atomic read-modify-write of the flag (swap / compare_exchange / fetch_or) before the close request is sent" % ops, b.sp)


def check_doc_set(ctx, rule):
    """the write path of the public API (`Doc::set_bytes` -> RPC `doc_set`): the value is stored as a blob and ONE local insert is
    offered to the store actor for the request's own document, author and key with the hash of exactly that blob and the length
    of exactly that value; the entry answered is read back for the same (document, author, key); a refused insert (read-only
    document, closed document) is reported and nothing is answered"""
    from . import feval as E
    f = ctx.facts
    b = f.body(API + "doc_set")
    ctx.touch(*f.family(b.path))
    for fail in (None, "add_bytes", "insert_local", "get_exact", "get_exact-none"):
        log = []

        def oracle(kind, name, payload, site):
            if kind == "call":
                t, args, it = payload
                path = t["f"].get("path") or ""
                names = [it.tokname(a).strip("&*") for a in args]
                if path.startswith("actor::SyncHandle::") and name not in ("into_future", "poll", "clone"):
                    return E.Tok("fw.%s(%s)" % (name, ",".join(names[1:])))
                if name == "blob_store":
                    return E.Tok("blobs")
                if name == "add_bytes":
                    log.append("add_bytes(%s)" % ",".join(names[1:]))
                    return E.Tok("adding(%s)" % names[1])
                if name in ("temp_tag", "with_tag", "with_named_tag") and names and names[0].startswith("adding("):
                    return E.Tok("fut:tag-of(%s)" % names[0][len("adding("):-1])
                if name == "hash" and names and names[0].startswith("tag-of("):
                    return E.Tok("hash-of(%s)" % names[0][len("tag-of("):-1])
                if name == "len" and names and names[0].startswith("req."):
                    return E.Tok("len-of(%s)" % names[0])
                if name == "clone" and names and names[0].startswith("req."):
                    return args[0]
                if name == "new" and "RpcError" in path + (t["f"].get("full") or ""):
                    return E.Tok("rpc-error")
                if name == "deref" and args:
                    return args[0]
                return None
            if kind == "cast" or kind == "call":
                return None
            if kind == "await":
                nm = str(name)
                if nm.startswith("fut:tag-of("):
                    return E.Err(E.Tok("blob-error")) if fail == "add_bytes" else E.Ok(E.Tok(nm[4:]))
                if nm.startswith("fw."):
                    m = nm[3:]
                    meth = m.split("(")[0]
                    log.append(m)
                    if meth == fail:
                        return E.Err(E.Tok("%s-error" % meth))
                    if meth == "get_exact":
                        return E.Ok(E.NONE if fail == "get_exact-none" else E.Some(E.Tok("entry-read-back")))
                    return E.Ok(E.Tok("result-of-%s" % meth))
            return None
        fields = [x["name"] for x in f.adt(PROTO + "SetRequest")["variants"][0]["fields"]]
        req = E.struct(f, PROTO + "SetRequest", **{n: E.Tok("req.%s" % n) for n in fields})
        key = "api-set[%s]" % ("all-ok" if fail is None else fail + "-fails")
        try:
            out, hp, ev = E.run_async(f, API + "doc_set", [E.href("self"), req], {"self": E.Tok("rpc-actor")}, oracle, inline=tuple(p for p in f.bodies if p.startswith(API)))
            got = E.describe(out, f)
        except E.Unsupported as e:
            ctx.bad(rule, b.path, key, "UNSUPPORTED-FORM: %s" % e, b.sp)
            continue
        want_ins = "insert_local(req.doc_id,req.author_id,req.key,hash-of(req.value),len-of(req.value))"
        want_get = "get_exact(req.doc_id,req.author_id,req.key,0)"
        problems = []
        if fail is None:
            if log != ["add_bytes(req.value)", want_ins, want_get]:
                problems.append("steps %s, spec %s" % (log, ["add_bytes(req.value)", want_ins, want_get]))
            if got != "Ok(SetResponse(entry-read-back))":
                problems.append("answers %s" % got)
        else:
            if not got.startswith("Err("):
                problems.append("%s but the handler answers %s" % (fail, got))
            allowed = {"add_bytes": ["add_bytes(req.value)"], "insert_local": ["add_bytes(req.value)", want_ins]}.get(fail, ["add_bytes(req.value)", want_ins, want_get])
            if log != allowed:
                problems.append("steps %s, spec %s" % (log, allowed))
        ctx.check(not problems, rule, b.path, key, "doc_set -> %s after %s" % (got, log), b.sp, bad_detail="; ".join(problems))


def check_refused_drop_keeps_subscribers(ctx, rule):
    """"removing a document is refused while it is open" - and a refused request changes nothing: the API handler `doc_drop`
    evaluated with the store's drop succeeding and failing. The event streams of the document's subscribers may be ended
    (Engine::leave with kill_subscribers = true) only once the drop went through; a refused drop leaves every subscriber
    subscribed (they keep receiving "exactly one event per entry")"""
    f = ctx.facts
    b = f.body(API + "doc_drop")
    ctx.touch(*f.family(b.path))
    for fail in (None, "drop_replica"):
        got, log = eval_handler(f, "doc_drop", "DropRequest", fail)
        calls = [c for c, _ in log]
        problems = []
        if got.startswith("UNSUPPORTED"):
            problems.append(got)
        kills = [i for i, c in enumerate(calls) if c.startswith("leave(") and c.rstrip(")").split(",")[-1] not in ("0", "false")]
        drops = [i for i, c in enumerate(calls) if c.startswith("drop_replica(")]
        if fail is None:
            if not got.startswith("Ok("):
                problems.append("answers %s" % got)
        else:
            if not got.startswith("Err("):
                problems.append("the store refused the drop but the handler answers %s" % got)
            if kills:
                problems.append("the drop was refused, yet the subscribers' streams were ended: %s" % calls)
        ctx.check(not problems, rule, b.path, "api-drop[%s]" % ("all-ok" if fail is None else "drop-refused"),
                  "doc_drop -> %s after %s; spec: subscribers are only dropped together with the document" % (got, calls), b.sp, bad_detail="; ".join(problems))

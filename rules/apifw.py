"""API layer (src/api/actor.rs): the RPC handlers are thin forwarders to the store actor's handle and the engine. A handler
is evaluated (K6', awaits driven to completion): every call on actor::SyncHandle / engine::Engine is a future the oracle
completes with success or failure, the request's fields are tokens `req.<field>`. The verdict: which calls were made with
which request fields, in which order, and what the handler answers."""
from . import mir

API = "api::actor::RpcActor::"
PROTO = "api::protocol::"


def eval_handler(f, handler, req_adt, fail=None):
    """returns (rendered result, [(call(args), ok|err)]) for handler `handler`; `fail` = name of the forwarded method that fails"""
    from . import feval as E
    log = []

    def oracle(kind, name, payload, site):
        if kind == "call":
            t, args, it = payload
            path = t["f"].get("path") or ""
            if (path.startswith("actor::SyncHandle::") or path.startswith("engine::Engine::")) and name not in ("into_future", "poll", "clone"):
                return E.Tok("fw.%s(%s)" % (name, ",".join(it.tokname(a).strip("&*") for a in args[1:])))
            if name == "new" and "RpcError" in path + (t["f"].get("full") or ""):
                return E.Tok("rpc-error")
            if name == "deref" and args:
                return args[0]
            return None
        if kind == "await" and name.startswith("fw."):
            m = name[3:]
            meth = m.split("(")[0]
            ok = meth != fail
            log.append((m, "ok" if ok else "err"))
            return E.Ok(E.Tok("result-of-%s" % meth)) if ok else E.Err(E.Tok("%s-error" % meth))
        return None
    fields = [x["name"] for x in f.adt(PROTO + req_adt)["variants"][0]["fields"]]
    req = E.struct(f, PROTO + req_adt, **{n: E.Tok("req.%s" % n) for n in fields})
    try:
        out, hp, ev = E.run_async(f, API + handler, [E.href("self"), req], {"self": E.Tok("rpc-actor")}, oracle, inline=tuple(p for p in f.bodies if p.startswith(API)))
        return E.describe(out, f), log
    except E.Unsupported as e:
        return "UNSUPPORTED-FORM: %s" % e, log


def check_forwarder(ctx, rule, handler, req_adt, steps, answer=None, strict=True, why=""):
    """steps: the forwarded calls in order, each `method(arg,arg)` over request fields (a step ending in `,` or `(` is a prefix:
    further arguments are not demanded); answer: the rendered success value (None: any Ok). strict: no other forwarded call is
    made. Evaluated with every step succeeding and with each required step failing in turn."""
    f = ctx.facts
    b = f.body(API + handler)
    ctx.touch(*f.family(b.path))
    meths = [s_.split("(")[0] for s_ in steps]

    def matches(call, step):
        return call == step or (step[-1] in ",(" and call.startswith(step))

    def subseq(calls, want):
        i = 0
        for c in calls:
            if i < len(want) and matches(c, want[i]):
                i += 1
        return i == len(want)
    for fail in [None] + meths:
        got, log = eval_handler(f, handler, req_adt, fail)
        calls = [c for c, _ in log]
        problems = []
        if got.startswith("UNSUPPORTED"):
            problems.append(got)
        elif fail is None:
            if not subseq(calls, steps) or (strict and len(calls) != len(steps)):
                problems.append("forwards %s, expected %s" % (calls, steps))
            if not got.startswith("Ok(") or (answer is not None and got != answer):
                problems.append("answers %s, expected %s" % (got, answer or "Ok(..)"))
        else:
            k = meths.index(fail)
            if not subseq(calls, steps[:k + 1]) or any(subseq(calls, steps[:j + 1]) for j in range(k + 1, len(steps))):
                problems.append("with %s failing it forwards %s, expected %s and nothing of the later steps" % (fail, calls, steps[:k + 1]))
            if not got.startswith("Err("):
                problems.append("%s failed but the handler answers %s" % (fail, got))
        ctx.check(not problems, rule, b.path, "api-forward[%s]" % ("all-ok" if fail is None else fail + "-fails"),
                  "%s -> %s after %s; %s%s" % (handler, got, log, "; ".join(problems) or "forwards the request's own fields and reports the outcome", (" (" + why + ")") if why and problems else ""), b.sp)

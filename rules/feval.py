"""K6' — finite evaluation of small functions by abstract interpretation of their MIR.

The interpreter evaluates one body (inlining crate-local callees and closures) over abstract
values: known integers/booleans, known enum/struct/tuple shapes, references into frames and
into a named heap, and *uninterpreted tokens*. An unknown call whose arguments are known or
tokens returns a token named after the callee and its arguments (an uninterpreted function
application, so the same accessor applied to the same token gives the same value); comparisons
between tokens and discriminants of tokens are answered by a rule-supplied oracle (one valuation
of a finite set of atoms per run). A branch on a value the valuation does not determine raises
`Unsupported`: the rule then falls back to another method or fails closed.

No repository code runs: this interprets the MIR facts dumped by the driver.
"""
import copy
import os
import re
import sys
from . import mir

TOP = ("top",)
UNIT = ("tuple", [])

OPTION = "std::option::Option"
RESULT = "std::result::Result"
CFLOW = "std::ops::ControlFlow"


# every body the interpreter entered in this process (reported as analysed in the evidence)
EVALUATED_BODIES = set()


# foreign methods that may be left uninterpreted although they receive a reference to an abstract collection
READ_ONLY_ON_COLLECTIONS = {"fmt", "clone", "eq", "ne", "hash", "as_ref", "borrow", "deref", "as_slice", "to_vec", "to_owned", "encode", "serialize",
                            "to_stdvec", "to_allocvec", "from", "into", "as_ptr", "capacity"}


READ_ONLY_PREFIXES = ("new", "from_", "as_", "to_", "is_", "contains", "starts_with", "ends_with", "binary_search", "try_from", "try_into")


class Unsupported(Exception):
    pass


def Int(n):
    return ("int", int(n))


def Tok(name):
    return ("tok", name)


def Adt(path, vidx, fields=None):
    return ("adt", path, vidx, dict(fields or {}))


def Some(v):
    return Adt(OPTION, 1, {0: v})


NONE = Adt(OPTION, 0)


def Ok(v):
    return Adt(RESULT, 0, {0: v})


def Err(v):
    return Adt(RESULT, 1, {0: v})


# variant names of foreign enums, learned from the aggregates seen while evaluating (MIR names them)
VARIANT_NAMES = {("std::task::Poll", 0): "Ready", ("std::task::Poll", 1): "Pending", ("std::cmp::Ordering", 0): "Less", ("std::cmp::Ordering", 1): "Equal", ("std::cmp::Ordering", 2): "Greater"}


def is_int(v):
    return isinstance(v, tuple) and v[0] == "int"


def describe(v, facts=None, depth=0):
    """compact, position-free rendering of an abstract value"""
    if v is None:
        return "-"
    k = v[0]
    if k == "int":
        return str(v[1])
    if k == "tok":
        return v[1]
    if k == "top":
        return "?"
    if k == "tuple":
        return "(" + ",".join(describe(x, facts, depth + 1) for x in v[1]) + ")"
    if k == "ref":
        return "&" + str(v[1][1] if v[1][0] == "H" else "local")
    if k == "closure":
        return "closure"
    if k == "seq":
        return "[" + ",".join(describe(x, facts, depth + 1) for x in v[2]) + "]"
    if k == "adt":
        name = str(v[2])
        path = v[1]
        if path == OPTION:
            name = ["None", "Some"][v[2]]
        elif path == RESULT:
            name = ["Ok", "Err"][v[2]]
        elif path == CFLOW:
            name = ["Continue", "Break"][v[2]]
        elif facts is not None and path in facts.adts:
            vs = facts.adts[path]["variants"]
            if v[2] < len(vs):
                name = vs[v[2]]["name"]
        elif (path, v[2]) in VARIANT_NAMES:
            name = VARIANT_NAMES[(path, v[2])]
        if v[3] and depth < 3:
            return name + "(" + ",".join(describe(v[3][i], facts, depth + 1) for i in sorted(v[3])) + ")"
        return name
    return str(k)


class Interp:
    def __init__(self, facts, oracle=None, max_steps=20000, max_depth=5, inline=(), bind=None):
        self.f = facts
        self.inline = set(inline)
        self._polling = False
        self._consts = {}
        # trait method path -> the body of its (single) implementation, for calls on a generic Self
        self.bind = dict(bind or {})
        self.oracle = oracle or (lambda *a: None)
        self.heap = {}
        self.frames = {}
        self.mut_scalar_locs = set()
        self.nframe = 0
        self.events = []
        self.steps = 0
        self.max_steps = max_steps
        self.max_depth = max_depth

    # ------------------------------------------------------------------ memory
    def _nav(self, val, projs):
        for p in projs:
            if val is None or val == TOP or val[0] == "tok":
                if val is not None and val[0] == "tok" and p[0] == "f":
                    val = Tok("%s.%s" % (val[1], p[2] if p[2] is not None else p[1]))
                    continue
                return TOP
            if p[0] == "i":
                if val is not None and val[0] == "seq" and 0 <= p[1] < len(val[2]):
                    val = val[2][p[1]]
                    if val is not None and val[0] == "ref":
                        val = self.read_loc(val[1])   # a slice view holds references to the elements
                    continue
                return TOP
            if p[0] == "f":
                if val[0] == "adt":
                    val = val[3].get(p[1], TOP)
                elif val[0] == "tuple":
                    val = val[1][p[1]] if p[1] < len(val[1]) else TOP
                elif val[0] == "closure":
                    val = val[2][p[1]] if p[1] < len(val[2]) else TOP
                else:
                    return TOP
            # downcast: no-op
        return val

    def _set(self, val, projs, new):
        if not projs:
            return new
        p = projs[0]
        if p[0] == "i":
            if val is None or val[0] != "seq" or not (0 <= p[1] < len(val[2])):
                raise Unsupported("write to an element outside the modelled sequence")
            items = list(val[2])
            if items[p[1]] is not None and items[p[1]][0] == "ref":
                tloc = items[p[1]][1]
                if projs[1:]:
                    tloc = tloc[:-1] + (tuple(tloc[-1]) + tuple(projs[1:]),)
                self.write_loc(tloc, new)
                return val
            items[p[1]] = self._set(items[p[1]], projs[1:], new)
            return ("seq", val[1], items)
        if p[0] != "f":
            return self._set(val, projs[1:], new)
        if val is None or val == TOP or val[0] not in ("adt", "tuple", "closure"):
            # materialise an unknown aggregate
            val = Adt("?", 0, {})
        if val[0] == "adt":
            fields = dict(val[3])
            fields[p[1]] = self._set(fields.get(p[1], TOP), projs[1:], new)
            return ("adt", val[1], val[2], fields)
        if val[0] == "tuple":
            lst = list(val[1])
            while len(lst) <= p[1]:
                lst.append(TOP)
            lst[p[1]] = self._set(lst[p[1]], projs[1:], new)
            return ("tuple", lst)
        lst = list(val[2])
        while len(lst) <= p[1]:
            lst.append(TOP)
        lst[p[1]] = self._set(lst[p[1]], projs[1:], new)
        return ("closure", val[1], lst)

    def read_loc(self, loc):
        if loc[0] == "H":
            return self._nav(self.heap.get(loc[1], TOP), loc[2])
        return self._nav(self.frames[loc[1]].get(loc[2], TOP), loc[3])

    def write_loc(self, loc, val):
        if loc[0] == "H":
            self.heap[loc[1]] = self._set(self.heap.get(loc[1], TOP), loc[2], val)
        else:
            fr = self.frames[loc[1]]
            fr[loc[2]] = self._set(fr.get(loc[2], TOP), loc[3], val)

    def loc_of(self, fid, place):
        loc = ("L", fid, place["l"], ())
        for pr in place["p"]:
            k = pr[0]
            if k == "deref":
                v = self.read_loc(loc)
                if v is not None and v[0] == "ref":
                    loc = v[1]
                elif v is not None and v[0] == "tok":
                    # reference to an opaque object: model as a heap object named after the token
                    name = v[1]
                    if name not in self.heap:
                        self.heap[name] = Tok(name)
                    loc = ("H", name, ())
                else:
                    raise Unsupported("deref of unknown pointer at %s" % mir.place_str(place))
            elif k == "field":
                ext = ("f", pr[1], pr[2])
                loc = loc[:-1] + (loc[-1] + (ext,),)
            elif k == "downcast":
                pass
            elif k in ("index", "cindex"):
                cur = self.deref_val(self.read_loc(loc))
                if cur is None or cur[0] != "seq":
                    raise Unsupported("indexing a value that is not a modelled sequence")
                if k == "index":
                    iv = self.deref_val(self.read_loc(("L", fid, pr[1], ())))
                    if not is_int(iv):
                        raise Unsupported("indexing with an undetermined index")
                    n = iv[1]
                else:
                    n = (len(cur[2]) - pr[1]) if pr[3] else pr[1]
                if not (0 <= n < len(cur[2])):
                    raise Unsupported("index %d out of bounds of a sequence of %d (panics)" % (n, len(cur[2])))
                loc = loc[:-1] + (loc[-1] + (("i", n),),)
            else:
                raise Unsupported("projection %s" % k)
        return loc

    def operand(self, fid, o):
        if o[0] in ("copy", "move"):
            v = self.read_loc(self.loc_of(fid, o[1]))
            return copy.deepcopy(v) if v is not None else TOP
        if o[0] == "const":
            c = o[1]
            prim = (c.get("ty") or "") in ("usize", "u8", "u16", "u32", "u64", "u128", "isize", "i8", "i16", "i32", "i64", "i128", "bool", "char")
            if c.get("val") is not None and (prim or "def" not in c or c["def"] not in self.f.bodies):
                return Int(c["val"])
            if c.get("val") is not None and not prim:
                # a named constant of a wrapper type (RangeFrom<usize>, NonZero<..>): prefer its evaluated initialiser, else the scalar
                cb = self.f.bodies.get(c["def"])
                if cb is not None and cb.kind == "const":
                    if c["def"] not in self._consts:
                        try:
                            self._consts[c["def"]] = self.call_body(c["def"], [], 0)
                        except Unsupported:
                            self._consts[c["def"]] = None
                    if self._consts[c["def"]] is not None:
                        return copy.deepcopy(self._consts[c["def"]])
                return Int(c["val"])
            if "fn" in c:
                return ("fn", c["fn"])
            if "str" in c:
                return Tok("str:%s" % c["str"])
            if c.get("ty") == "&str" and (c.get("repr") or "").startswith('"'):
                try:
                    import ast as _ast
                    return Tok("str:%s" % _ast.literal_eval(c["repr"]))
                except Exception:
                    pass
            if "def" in c:
                cb = self.f.bodies.get(c["def"])
                if cb is not None and cb.kind == "const":
                    # a named constant whose initialiser was dumped: evaluate it (e.g. `const KEY_BYTES: RangeFrom<usize> = 64..`)
                    if c["def"] not in self._consts:
                        try:
                            self._consts[c["def"]] = self.call_body(c["def"], [], 0)
                        except Unsupported:
                            self._consts[c["def"]] = None
                    if self._consts[c["def"]] is not None:
                        return copy.deepcopy(self._consts[c["def"]])
                return Tok("const:%s" % c["def"])
            if c.get("repr") == "()":
                return UNIT
            if c.get("ty", "").startswith("{closure") or "closure@" in c.get("ty", ""):
                return ("closure", None, [])
            return Tok("const:%s" % c.get("repr"))
        return TOP

    # ------------------------------------------------------------------ helpers
    def deref_val(self, v, depth=0):
        while v is not None and v[0] == "ref" and depth < 6:
            v = self.read_loc(v[1])
            depth += 1
        return v

    def known(self, v, depth=0):
        v = self.deref_val(v)
        if v is None or v == TOP or v[0] == "tok":
            return False
        if v[0] == "int":
            return True
        if depth > 4:
            return False
        if v[0] == "adt":
            return all(self.known(x, depth + 1) for x in v[3].values())
        if v[0] == "tuple":
            return all(self.known(x, depth + 1) for x in v[1])
        return False

    def tokname(self, v, depth=0):
        v = self.deref_val(v)
        if v is None:
            return "?"
        if v[0] == "tok":
            return v[1]
        if v[0] == "int":
            return str(v[1])
        if depth < 3 and v[0] in ("adt", "tuple"):
            return describe(self.resolve(v), self.f)
        return "?"

    def resolve(self, v, depth=0):
        """copy of `v` with references replaced by what they point to (for naming / rendering)"""
        if v is None or depth > 5:
            return v
        if v[0] == "ref":
            try:
                return self.resolve(self.read_loc(v[1]), depth + 1)
            except KeyError:
                return TOP
        if v[0] == "adt":
            return ("adt", v[1], v[2], {i: self.resolve(x, depth + 1) for i, x in v[3].items()})
        if v[0] == "tuple":
            return ("tuple", [self.resolve(x, depth + 1) for x in v[1]])
        if v[0] == "seq":
            return ("seq", v[1], [self.resolve(x, depth + 1) for x in v[2]])
        return v

    # ------------------------------------------------------------------ execution
    def call_body(self, path, args, depth, closure_val=None):
        if depth > self.max_depth:
            raise Unsupported("inlining depth exceeded at %s" % path)
        body = self.f.bodies.get(path)
        if body is None:
            raise Unsupported("no body for %s" % path)
        EVALUATED_BODIES.add(path)
        if body.rec.get("closure_kind") == "coroutine" and not self._polling:
            raise Unsupported("coroutine body %s entered other than by polling its future" % path)
        self._polling = False
        self.nframe += 1
        fid = self.nframe
        fr = {}
        self.frames[fid] = fr
        for i, a in enumerate(args):
            fr[i + 1] = a
        try:
            ret = self.run(body, fid, depth)
            ret = self._escape(ret, fid, 0)
        finally:
            self.frames.pop(fid, None)
        return ret

    def _escape(self, val, fid, depth):
        """a returned value must not point into the frame that is being popped: such locals are moved to the heap"""
        if val is None or depth > 4:
            return val
        k = val[0]
        if k == "ref" and val[1][0] == "L" and val[1][1] == fid:
            name = "frame%d.local%d" % (fid, val[1][2])
            if name not in self.heap:
                self.heap[name] = self._escape(self.frames[fid].get(val[1][2], TOP), fid, depth + 1)
            return ("ref", ("H", name, val[1][3]))
        if k == "adt":
            return ("adt", val[1], val[2], {i: self._escape(v, fid, depth + 1) for i, v in val[3].items()})
        if k == "tuple":
            return ("tuple", [self._escape(v, fid, depth + 1) for v in val[1]])
        return val

    def run(self, body, fid, depth):
        bi = 0
        visits = {}
        while True:
            self.steps += 1
            if self.steps > self.max_steps:
                raise Unsupported("step budget exceeded in %s" % body.path)
            visits[bi] = visits.get(bi, 0) + 1
            if visits[bi] > 64:
                raise Unsupported("loop bound exceeded in %s" % body.path)
            blk = body.blocks[bi]
            for s in blk["s"]:
                if s["k"] == "assign":
                    if mir.is_noise(s["x"]):
                        continue
                    try:
                        val = self.rvalue(body, fid, s["r"], s)
                        self.write_loc(self.loc_of(fid, s["p"]), val)
                    except Unsupported:
                        if mir.is_macro(s["x"]):
                            continue
                        raise
            t = blk["t"]
            k = t["k"]
            if k == "return":
                return self.frames[fid].get(0, UNIT)
            if k in ("goto", "falseedge", "falseunwind", "drop", "assert"):
                bi = t["t"]
            elif k == "switch":
                if mir.is_noise(t["x"]):
                    j = body.ipdom(bi)
                    if j is None:
                        raise Unsupported("tracing region without a join in %s" % body.path)
                    bi = j
                    continue
                d = self.deref_val(self.operand(fid, t["d"]))
                if not is_int(d):
                    raise Unsupported("branch on an undetermined value (%s) in %s at %s" % (describe(d, self.f), body.path, t["sp"]))
                bi = dict(t["v"]).get(d[1], t["o"])
            elif k == "call":
                if mir.is_noise(t["x"]):
                    self.write_loc(self.loc_of(fid, t["d"]), TOP)
                    if t["t"] is None:
                        raise Unsupported("diverging tracing call")
                    bi = t["t"]
                    continue
                args = [self.operand(fid, a) for a in t["a"]]
                val = self.call(body, fid, t, args, depth)
                if val is DIVERGE or t["t"] is None:
                    return ("diverge", t["f"].get("name"))
                self.write_loc(self.loc_of(fid, t["d"]), val)
                bi = t["t"]
            elif k == "unreachable":
                raise Unsupported("reached `unreachable` in %s" % body.path)
            else:
                raise Unsupported("terminator %s in %s" % (k, body.path))

    def rvalue(self, body, fid, r, s):
        k = r[0]
        if k == "use":
            return self.operand(fid, r[1])
        if k in ("ref", "rawptr"):
            pl = r[2] if k == "ref" else r[1]
            loc = self.loc_of(fid, pl)
            if k == "ref" and r[1] == "mut" and not pl["p"] and SCALAR_BUF_TY.match(body.locals[pl["l"]]["ty"]):
                # a `&mut` borrow of a whole local holding plain bytes / an integer: an unmodelled foreign method handed this
                # reference may rewrite the local (reverse, fill, copy_from_slice, rotate, swap ...), see the uninterpreted case
                self.mut_scalar_locs.add(loc)
            return ("ref", loc)
        if k == "cfd":
            return self.read_loc(self.loc_of(fid, r[1]))
        if k == "cast":
            return self.operand(fid, r[2])
        if k == "discr":
            v = self.deref_val(self.read_loc(self.loc_of(fid, r[1])))
            if v is not None and v[0] == "adt":
                if v[1] == "std::cmp::Ordering":
                    return Int({0: 255, 1: 0, 2: 1}[v[2]])   # i8 discriminants -1/0/1 as MIR's switch prints them
                la = self.f.adts.get(v[1])
                if la and v[2] < len(la["variants"]) and la["variants"][v[2]].get("discr") is not None:
                    return Int(la["variants"][v[2]]["discr"])   # explicit discriminants (e.g. CapabilityKind)
                return Int(v[2])
            if v is not None and v[0] == "tok":
                ans = self.oracle("discr", v[1], None, s["sp"])
                if ans is not None:
                    return Int(ans)
            return TOP
        if k == "agg":
            kind = r[1]
            vals = [self.operand(fid, o) for o in r[2]]
            if kind[0] == "tuple":
                return ("tuple", vals)
            if kind[0] == "array":
                return ("seq", "vec", vals)     # abstract collection (coll.py): arrays can be iterated, indexed by the rules' oracles
            if kind[0] == "adt":
                if len(kind) > 3 and isinstance(kind[2], str):
                    VARIANT_NAMES[(kind[1], kind[3])] = kind[2]
                return ("adt", kind[1], kind[3], {i: v for i, v in enumerate(vals)})
            if kind[0] in ("closure", "coroutine", "coroutine_closure"):
                return ("closure", kind[1], vals)
            return TOP
        if k == "bin":
            a = self.deref_val(self.operand(fid, r[2]))
            b = self.deref_val(self.operand(fid, r[3]))
            return self.binop(r[1], a, b, s["sp"])
        if k == "repeat":
            a = self.deref_val(self.operand(fid, r[1]))
            return Tok("[%s; _]" % self.tokname(a))
        if k == "un":
            a = self.deref_val(self.operand(fid, r[2]))
            if is_int(a):
                if r[1] == "Not":
                    return Int(1 - a[1]) if a[1] in (0, 1) else TOP
                if r[1] == "Neg":
                    return Int(-a[1])
            return TOP
        return TOP

    def binop(self, op, a, b, site):
        wo = op.endswith("WithOverflow")
        base = op.replace("WithOverflow", "").replace("Unchecked", "")
        if is_int(a) and is_int(b):
            x, y = a[1], b[1]
            res = {"Eq": x == y, "Ne": x != y, "Lt": x < y, "Le": x <= y, "Gt": x > y, "Ge": x >= y}.get(base)
            if res is not None:
                return Int(res)
            ar = {"Add": x + y, "Sub": x - y, "Mul": x * y, "BitAnd": x & y, "BitOr": x | y, "BitXor": x ^ y}.get(base)
            if ar is not None:
                return ("tuple", [Int(ar), Int(0)]) if wo else Int(ar)
            if base in ("Div", "Rem") and y != 0 and x >= 0 and y > 0:
                return Int(x // y if base == "Div" else x % y)
            return TOP
        if base in ("Eq", "Ne", "Lt", "Le", "Gt", "Ge"):
            o = self.compare(a, b, site)
            if o is None:
                return TOP
            return Int({"Eq": o == 0, "Ne": o != 0, "Lt": o < 0, "Le": o <= 0, "Gt": o > 0, "Ge": o >= 0}[base])
        if base in ("Add", "Sub", "Mul"):
            t = Tok("%s(%s,%s)" % (base, self.tokname(a), self.tokname(b)))
            return ("tuple", [t, Int(0)]) if wo else t
        return TOP

    def compare(self, a, b, site):
        """-1/0/1 for cmp(a,b) if determined (identical tokens are equal; else the oracle decides)"""
        a, b = self.deref_val(a), self.deref_val(b)
        if is_int(a) and is_int(b):
            return (a[1] > b[1]) - (a[1] < b[1])
        na, nb = self.tokname(a), self.tokname(b)
        if na == nb and "?" not in na:
            return 0
        ans = self.oracle("cmp", na, nb, site)
        if ans is None:
            ans2 = self.oracle("cmp", nb, na, site)
            if ans2 is not None:
                ans = -ans2
        return ans

    def equal(self, a, b, site):
        a, b = self.deref_val(a), self.deref_val(b)
        if is_int(a) and is_int(b):
            return a[1] == b[1]
        if a is not None and b is not None and a[0] == "adt" and b[0] == "adt":
            if a[2] != b[2]:
                return False
            if not a[3] and not b[3]:
                return True
            res = True
            for i in set(a[3]) | set(b[3]):
                e = self.equal(a[3].get(i, TOP), b[3].get(i, TOP), site)
                if e is None:
                    return None
                res = res and e
            return res
        if a is not None and b is not None and a[0] == "tuple" and b[0] == "tuple" and len(a[1]) == len(b[1]):
            res = True
            for x, y in zip(a[1], b[1]):
                e = self.equal(x, y, site)
                if e is None:
                    return None
                res = res and e
            return res
        na, nb = self.tokname(a), self.tokname(b)
        if "?" in na or "?" in nb:
            return None
        if na == nb:
            return True
        ans = self.oracle("eq", na, nb, site)
        if ans is None:
            ans = self.oracle("eq", nb, na, site)
        if ans is None:
            c = self.oracle("cmp", na, nb, site)
            if c is None:
                c2 = self.oracle("cmp", nb, na, site)
                c = -c2 if c2 is not None else None
            if c is not None:
                ans = (c == 0)
        return ans

    # ------------------------------------------------------------------ calls
    def call(self, body, fid, t, args, depth):
        f = t["f"]
        site = t["sp"]
        if f.get("indirect"):
            # a call through a function pointer / `dyn Fn`: evaluated when the pointer is a known function item or closure
            if f.get("op") is not None and fid is not None:
                try:
                    fv = self.operand(fid, f["op"])
                    cl = self.deref_val(fv)
                    if cl is not None and cl[0] in ("fn", "closure"):
                        return self.apply(fv, list(args), depth)
                except Unsupported:
                    pass
            self.events.append(("call", "indirect", [], site))
            return TOP
        name = f.get("name") or ""
        path = f.get("path") or ""
        full = f.get("full") or ""
        res_path = f.get("res") or path
        if res_path in self.bind:
            res_path = self.bind[res_path]
        ans = self.oracle("call", name, (t, args, self), site)
        if ans is not None:
            self.events.append(("call", name, [self.tokname(a) for a in args], site))
            return ans
        a0 = args[0] if args else None
        d0 = self.deref_val(a0) if a0 is not None else None
        # --- `.await` plumbing: a future is driven to completion at its first poll (no interleaving is modelled);
        # a future that is not a crate-local coroutine is an opaque token whose output the oracle names
        if name == "Ok" and len(args) == 1 and path.startswith("anyhow"):
            return Ok(args[0])      # anyhow::Ok is a function, not the variant
        if name == "is_disabled" and "tracing::Span" in path + full:
            return Int(1)    # #[instrument]: both arms await the same future; the disabled arm awaits it directly
        if name == "into_future" and len(args) == 1:
            return a0
        if name in ("instrument", "in_current_span", "with_subscriber", "with_current_subscriber", "boxed", "boxed_local", "or_current") and d0 is not None and d0[0] == "closure":
            return a0   # future wrappers that do not change what the future computes (tracing::Instrument, FutureExt::boxed)
        if name in ("pin", "new") and len(args) == 1 and d0 is not None and d0[0] == "closure" and ("boxed::Box" in path + full or "pin::Pin" in path + full):
            return a0
        if name == "new_unchecked" and len(args) == 1 and "pin::Pin" in path + full:
            return a0
        if name == "get_context" and len(args) == 1:
            return Tok("task-context")
        # `vec![a, b]` on this toolchain: Box::new_uninit(), the array written through the box, box_assume_init_into_vec_unsafe(box)
        if name == "new_uninit" and "boxed::Box" in path + full and not args:
            nm = "box#%d" % (len(self.heap) + 1)
            self.heap[nm] = TOP
            return ("ref", ("H", nm, ()))
        if name == "box_assume_init_into_vec_unsafe" and len(args) == 1:
            v = self.deref_val(args[0])
            for _ in range(6):
                if v is not None and v[0] == "seq":
                    return ("seq", "vec", list(v[2]))
                if v is not None and v[0] == "adt" and len(v[3]) == 1:
                    v = list(v[3].values())[0]
                    continue
                break
            raise Unsupported("vec! whose elements were not written through the box at %s" % site)
        if name == "poll" and len(args) == 2 and "Future" in path + full:
            fut = d0
            if fut is not None and fut[0] == "closure" and fut[1] in self.f.bodies and self.f.bodies[fut[1]].rec.get("closure_kind") == "coroutine":
                self._polling = True
                out = self.call_body(fut[1], [fut, args[1]], depth + 1)
                if out is not None and out[0] == "diverge":
                    return DIVERGE
                return Adt("std::task::Poll", 0, {0: out})
            nm = self.tokname(fut) if fut is not None else "?"
            ans = self.oracle("await", nm, (t, args, self), site)
            self.events.append(("await", nm, [], site))
            if ans is None:
                ans = Tok("await(%s)" % nm) if "?" not in nm else TOP
            return Adt("std::task::Poll", 0, {0: ans})
        # --- Try / FromResidual
        if name == "branch" and "ops::Try" in path + full:
            if d0 is not None and d0[0] == "adt" and d0[1] in (RESULT, OPTION):
                good = (d0[2] == 0) if d0[1] == RESULT else (d0[2] == 1)
                if good:
                    return Adt(CFLOW, 0, {0: d0[3].get(0, UNIT)})
                resid = Adt(RESULT, 1, {0: d0[3].get(0, TOP)}) if d0[1] == RESULT else NONE
                return Adt(CFLOW, 1, {0: resid})
            if d0 is not None and d0[0] == "tok":
                ans = self.oracle("discr", d0[1], "try", site)
                if ans is not None:
                    is_res = "Result<" in full
                    good = (ans == 0) if is_res else (ans == 1)
                    if good:
                        return Adt(CFLOW, 0, {0: Tok("ok(%s)" % d0[1])})
                    return Adt(CFLOW, 1, {0: Adt(RESULT, 1, {0: Tok("err(%s)" % d0[1])}) if is_res else NONE})
            raise Unsupported("`?` on an undetermined value at %s" % site)
        if name == "from_residual":
            if d0 is not None and d0[0] == "adt" and d0[1] == RESULT:
                return Adt(RESULT, 1, {0: d0[3].get(0, TOP)})
            if d0 is not None and d0[0] == "adt" and d0[1] == OPTION:
                return NONE
            return Adt(RESULT, 1, {0: TOP})
        # --- Option / Result combinators
        ctx_trait = name in ("context", "with_context") and d0 is not None and d0[0] == "adt" and d0[1] in (OPTION, RESULT)
        if path.startswith(OPTION) or path.startswith(RESULT) or full.startswith(OPTION) or full.startswith(RESULT) or ctx_trait:
            r = self.option_result(name, d0, a0, args, t, fid, depth, site)
            if r is not NOTHANDLED:
                return r
        if name in ("replace", "take", "swap") and ("mem::" in path):
            if a0 is not None and a0[0] == "ref":
                old = self.read_loc(a0[1])
                if name == "replace":
                    self.write_loc(a0[1], args[1])
                    self.events.append(("replace", self.tokname(old), [self.tokname(args[1])], site))
                    return old
                if name == "take":
                    dv = Tok("default")
                    import re as _re
                    m = _re.search(r"mem::take::<(.+)>$", full or "")
                    if m:
                        dp = "<%s as std::default::Default>::default" % m.group(1)
                        if dp in self.f.bodies:
                            try:
                                dv = self.call_body(dp, [], depth + 1)
                            except Unsupported:
                                dv = Tok("default")
                        elif m.group(1).startswith(OPTION):
                            dv = NONE
                        elif m.group(1) == "bool" or re.fullmatch(r"[iu](8|16|32|64|128|size)", m.group(1)):
                            dv = Int(0)
                    self.write_loc(a0[1], dv)
                    return old
            return TOP
        if name in ("then", "then_some") and len(args) == 2 and is_int(d0) and "bool" in path + full:
            if not d0[1]:
                return NONE
            if name == "then_some":
                return Some(args[1])
            cl = self.deref_val(args[1])
            if cl is not None and cl[0] == "closure" and cl[1] in self.f.bodies:
                cb = self.f.bodies[cl[1]]
                ty1 = cb.locals[1]["ty"] if len(cb.locals) > 1 else ""
                selfv = cl
                if ty1.startswith("&"):
                    nm = "closure#%d" % (len(self.heap) + 1)
                    self.heap[nm] = cl
                    selfv = ("ref", ("H", nm, ()))
                return Some(self.call_body(cl[1], [selfv], depth + 1))
            if cl is not None and cl[0] == "fn":
                try:
                    return Some(self.apply(args[1], [], depth))
                except Unsupported:
                    return Some(Tok("%s()" % cl[1].split("::")[-1]))
            return Some(TOP)
        if name in ("not",) and len(args) == 1 and is_int(d0):
            return Int(1 - d0[1])
        # operator traits on integers reached through references (`*a ^= b` with b: &u8 is a trait call in MIR)
        OPS = {"bitxor": "BitXor", "bitor": "BitOr", "bitand": "BitAnd", "add": "Add", "sub": "Sub", "mul": "Mul"}
        if len(args) == 2 and "ops::" in path + full and (name in OPS or (name.endswith("_assign") and name[:-7] in OPS)):
            x, y = self.resolve(args[0]), self.resolve(args[1])
            if is_int(x) and is_int(y):
                r = self.binop(OPS[name[:-7] if name.endswith("_assign") else name], x, y, site)
                if name.endswith("_assign"):
                    if a0 is not None and a0[0] == "ref" and is_int(r):
                        self.write_loc(a0[1], r)
                        return UNIT
                elif is_int(r):
                    return r
        # --- comparisons
        if name in ("eq", "ne") and len(args) == 2 and "cmp::PartialEq" in path + full:
            e = self.equal(args[0], args[1], site)
            if e is None:
                return TOP
            return Int(e if name == "eq" else not e)
        if name in ("lt", "le", "gt", "ge") and len(args) == 2 and "cmp::PartialOrd" in path + full:
            o = self.compare(args[0], args[1], site)
            if o is None:
                return TOP
            return Int({"lt": o < 0, "le": o <= 0, "gt": o > 0, "ge": o >= 0}[name])
        if name == "cmp" and len(args) == 2 and "cmp::Ord" in path + full:
            o = self.compare(args[0], args[1], site)
            if o is None:
                return Tok("cmp(%s,%s)" % (self.tokname(args[0]), self.tokname(args[1])))
            return Adt("std::cmp::Ordering", {-1: 0, 0: 1, 1: 2}[o])
        if name in ("then", "then_with") and len(args) == 2 and d0 is not None and d0[0] == "adt" and d0[1] == "std::cmp::Ordering":
            if d0[2] != 1:
                return d0
            return self.apply(args[1], [], depth) if name == "then_with" else args[1]
        if name in ("reverse",) and len(args) == 1 and d0 is not None and d0[0] == "adt" and d0[1] == "std::cmp::Ordering":
            return Adt("std::cmp::Ordering", 2 - d0[2])
        if name in ("is_lt", "is_le", "is_gt", "is_ge", "is_eq", "is_ne") and len(args) == 1 and d0 is not None and d0[0] == "adt" and d0[1] == "std::cmp::Ordering":
            o = d0[2] - 1
            return Int({"is_lt": o < 0, "is_le": o <= 0, "is_gt": o > 0, "is_ge": o >= 0, "is_eq": o == 0, "is_ne": o != 0}[name])
        if name in ("max", "min") and len(args) == 2 and "cmp::Ord" in path + full:
            o = self.compare(args[0], args[1], site)
            if o is None:
                return Tok("%s(%s,%s)" % (name, self.tokname(args[0]), self.tokname(args[1])))
            pick_first = (o >= 0) if name == "max" else (o <= 0)
            # std: max returns the second argument when equal
            if name == "max" and o == 0:
                pick_first = False
            return self.deref_val(args[0]) if pick_first else self.deref_val(args[1])
        # --- transparent conversions
        if name == "index" and len(args) == 2 and "ops::Index" in path + full and "RangeFull" in (full + str(t["a"][1])):
            return a0 if a0 is not None else TOP   # &x[..] is x
        if name in ("clone", "to_owned", "cloned", "copied", "to_vec", "as_slice") and len(args) == 1:
            return copy.deepcopy(d0) if d0 is not None else TOP
        if name in ("deref", "deref_mut", "as_ref", "as_mut", "borrow", "borrow_mut") and len(args) == 1:
            if a0 is not None and a0[0] == "ref":
                inner = self.read_loc(a0[1])
                if inner is not None and inner[0] == "ref":
                    return inner
                return a0
            return a0 if a0 is not None else TOP
        if name in ("into", "try_into") and len(args) == 1 and d0 is not None and d0[0] != "tok":
            # `x.into()` / `x.try_into()` resolve to core's blanket impls; the conversion itself is the crate's (possibly
            # macro-generated) `From<T> for U` / `TryFrom<T> for U`, found by the two types
            mconv = re.match(r"^<(.+) as std::convert::(?:Try)?Into<(.+)>>::(?:try_)?into$", full or path or "")
            if mconv:
                tsrc, tdst = mconv.group(1), mconv.group(2)
                tr = "TryFrom" if name == "try_into" else "From"
                fn = "try_from" if name == "try_into" else "from"
                for cand in ("<%s as std::convert::%s<%s>>::%s" % (tdst, tr, tsrc, fn),):
                    if cand in self.f.bodies:
                        return self.call_body(cand, args, depth + 1)
                suffix = "<impl std::convert::%s<%s> for %s>::%s" % (tr, tsrc, tdst, fn)
                for cand in self.f.bodies:
                    if cand.endswith(suffix):
                        return self.call_body(cand, args, depth + 1)
        if name in ("into", "from") and len(args) == 1:
            # a conversion implemented in this crate is evaluated; foreign conversions (From<[u8;32]> for Hash, ...) carry the value
            for pth in (res_path, path):
                lb = self.f.bodies.get(pth)
                if lb is not None and not lb.rec.get("derived") and d0 is not None and (d0[0] != "tok" or pth in self.inline):
                    try:
                        return self.call_body(pth, args, depth + 1)
                    except Unsupported:
                        break
            return a0
        # --- closures
        if name in ("call", "call_mut", "call_once", "async_call", "async_call_mut", "async_call_once") and len(args) == 2:
            # (an async closure's body builds its future: calling it is an ordinary call returning that coroutine)
            cl = self.deref_val(args[0])
            tup = self.deref_val(args[1])
            if cl is not None and cl[0] == "closure" and cl[1] in self.f.bodies and tup is not None and tup[0] == "tuple":
                cb = self.f.bodies[cl[1]]
                self_arg = args[0]
                # Fn/FnMut closures take &self, FnOnce takes self: look at the type of _1
                ty1 = cb.locals[1]["ty"] if len(cb.locals) > 1 else ""
                if ty1.startswith("&"):
                    if self_arg[0] != "ref":
                        name_h = "closure#%d" % (len(self.heap) + 1)
                        self.heap[name_h] = cl
                        self_arg = ("ref", ("H", name_h, ()))
                else:
                    self_arg = cl
                return self.call_body(cl[1], [self_arg] + list(tup[1]), depth + 1)
            if cl is not None and cl[0] == "fn" and cl[1] in self.f.bodies and tup is not None and tup[0] == "tuple":
                return self.call_body(cl[1], list(tup[1]), depth + 1)
            if cl is not None and cl[0] == "fn" and tup is not None and tup[0] == "tuple":
                # a variant constructor / foreign function item handed over as a callback (`into_query(QueryKind::Flat)`)
                r_ = self.apply(args[0], list(tup[1]), depth + 1)
                if r_ is not None:
                    return r_
        # --- accessor applied to opaque tokens only: nothing to learn by inlining, keep it symbolic
        dargs = [self.deref_val(a) for a in args]
        # (a module-private free function is an implementation detail of its callers - a helper a refactoring extracted: it is
        # evaluated like them, also when everything it is given is opaque)
        helper = any(p in self.f.bodies and self.f.bodies[p].kind == "fn" and re.match(r"restricted:\w", self.f.bodies[p].rec.get("vis") or "") for p in (res_path, path))
        if args and all(d is not None and d[0] == "tok" for d in dargs) and not ({res_path, path} & self.inline) and not helper:
            # try the body first: a pure function of opaque arguments may still have a determined result
            # (e.g. a decision made by comparing the arguments); otherwise keep the application symbolic
            for p in (res_path, path):
                if p in self.f.bodies and not self.f.bodies[p].rec.get("derived"):
                    saved_heap, saved_events = copy.deepcopy(self.heap), list(self.events)
                    try:
                        r = self.call_body(p, args, depth + 1)
                        rd = self.deref_val(r) if r is not None and r[0] != "ref" else r
                        if self.known(r) or (r is not None and r[0] == "adt" and r[1] != "?") or (r is not None and r[0] == "closure"):
                            return r        # (a closure: an async fn called with opaque arguments returns its future)
                    except Unsupported as ex_:
                        if os.environ.get("FEVAL_DEBUG"):
                            print("feval: body of %s not evaluable on opaque arguments: %s" % (p, ex_), file=sys.stderr)
                    self.heap, self.events = saved_heap, saved_events
                    break
            self.events.append(("call", name, [d[1] for d in dargs], site))
            self.havoc_mut_args(name, args, [d[1] for d in dargs])
            return Tok("%s(%s)" % (name, ",".join(d[1] for d in dargs)))
        # --- crate-local functions: inline
        for p in (res_path, path):
            if p in self.f.bodies and not self.f.bodies[p].rec.get("derived"):
                try:
                    return self.call_body(p, args, depth + 1)
                except Unsupported as ex_:
                    if os.environ.get("FEVAL_DEBUG"):
                        print("feval: body of %s not evaluable: %s" % (p, ex_), file=sys.stderr)
                    break
        # --- uninterpreted
        # an unmodelled foreign method handed a reference to an abstract collection could change it (retain, clear, append, ...):
        # treating it as effect-free would be a silent pass, so it fails closed unless it is known to be read-only
        for a in args:
            if a is not None and a[0] == "ref":
                dv = self.deref_val(a)
                if dv is not None and dv[0] == "seq" and dv[1] in ("map", "vec", "set") and name not in READ_ONLY_ON_COLLECTIONS and not name.startswith(READ_ONLY_PREFIXES):
                    if os.environ.get("FEVAL_LOG_UNMODELLED"):
                        print("feval: unmodelled %s on %s at %s" % (name, dv[1], site), file=sys.stderr)
                    else:
                        raise Unsupported("unmodelled method `%s` applied to an abstract %s" % (name, dv[1]))
        self.events.append(("call", name, [self.tokname(a) for a in args], site))
        if name in ("panic", "panic_fmt", "unreachable", "begin_panic", "panic_display", "unwrap_failed", "expect_failed"):
            return DIVERGE
        names = [self.tokname(a) for a in args]
        # an unmodelled foreign method handed a `&mut` to a local byte array / integer may rewrite it: what the local holds
        # afterwards is an uninterpreted function of the call (leaving it as it was would be a silent pass, self-test K1c)
        self.havoc_mut_args(name, args, names)
        if all("?" not in n for n in names):
            return Tok("%s(%s)" % (name, ",".join(names)))
        return TOP

    def havoc_mut_args(self, name, args, names):
        if name not in READ_ONLY_ON_COLLECTIONS and not name.startswith(READ_ONLY_PREFIXES):
            for a in args:
                if a is not None and a[0] == "ref" and a[1] in self.mut_scalar_locs:
                    self.write_loc(a[1], Tok("%s!(%s)" % (name, ",".join(names))))

    def drive(self, fut, depth=1):
        """run a crate-local future (a coroutine value) to completion in place - for oracles that model an executor (a spawned
        task runs at some point); returns its output, or None if `fut` is not a crate-local coroutine"""
        fv = self.deref_val(fut)
        if fv is not None and fv[0] == "closure" and fv[1] in self.f.bodies and self.f.bodies[fv[1]].rec.get("closure_kind") == "coroutine":
            self._polling = True
            return self.call_body(fv[1], [fv, Tok("task-context")], depth + 1)
        return None

    def apply(self, fv, argv, depth=1):
        """call a closure / fn-item value with the given arguments (for oracles that model a
        higher-order callee by running the callback it was given)"""
        cl = self.deref_val(fv)
        if cl is not None and cl[0] == "closure" and cl[1] in self.f.bodies:
            cb = self.f.bodies[cl[1]]
            ty1 = cb.locals[1]["ty"] if len(cb.locals) > 1 else ""
            selfv = cl
            if ty1.startswith("&"):
                if fv is not None and fv[0] == "ref":
                    selfv = fv
                else:
                    nm = "closure#%d" % (len(self.heap) + 1)
                    self.heap[nm] = cl
                    selfv = ("ref", ("H", nm, ()))
            return self.call_body(cl[1], [selfv] + list(argv), depth + 1)
        if cl is not None and cl[0] == "fn" and cl[1] in self.f.bodies:
            return self.call_body(cl[1], list(argv), depth + 1)
        if cl is not None and cl[0] == "fn" and "::" in cl[1] and cl[1].rsplit("::", 1)[0] in self.f.adts:
            # the constructor of a tuple variant / tuple struct used as a function (`FilterKind::Exact as fn(Bytes) -> _`)
            parent, vname = cl[1].rsplit("::", 1)
            vnames = [v["name"] for v in self.f.adts[parent]["variants"]]
            if vname in vnames:
                return Adt(parent, vnames.index(vname), {i: v for i, v in enumerate(argv)})
        if cl is not None and cl[0] == "fn":
            # a foreign function item used as a callback (`.filter_map(Result::ok)`, `.map(Bytes::from)`): the same call the
            # closure `|x| f(x)` would make
            path = cl[1]
            short = re.sub(r"<.*>", "", path).split("::")[-1] if "::" in path else path
            if short in ("Ok", "Some", "Err") and len(argv) == 1:
                return {"Ok": Ok, "Some": Some, "Err": Err}[short](argv[0])
            t = {"f": {"name": short, "path": path, "full": path}, "sp": "fn-item %s" % path, "a": []}
            r = self.call(None, 0, t, list(argv), depth + 1)
            if r is not TOP and r is not None:
                return r
            if short in ("from", "into", "to_owned", "to_vec", "clone", "copied", "cloned") and len(argv) == 1:
                return argv[0]
            return Tok("%s(%s)" % (short, ",".join(self.tokname(x) for x in argv)))
        raise Unsupported("callback is not a known closure")

    def option_result(self, name, d0, a0, args, t, fid, depth, site):
        f = t["f"]
        if d0 is None:
            return NOTHANDLED
        if d0[0] == "tok":
            kind = RESULT if (f.get("full") or "").startswith(RESULT) else OPTION
            ans = self.oracle("discr", d0[1], "opt", site)
            if ans is None:
                return NOTHANDLED
            payload = Tok("%s(%s)" % ("some" if kind == OPTION else ("ok" if ans == 0 else "err"), d0[1]))
            d0 = Adt(kind, ans, {0: payload} if not (kind == OPTION and ans == 0) else {})
        if d0[0] != "adt":
            return NOTHANDLED
        is_opt = d0[1] == OPTION
        good = (d0[2] == 1) if is_opt else (d0[2] == 0)
        pay = d0[3].get(0, TOP)

        def callf(fv, argv):
            cl = self.deref_val(fv)
            if cl is not None and cl[0] == "closure" and cl[1] in self.f.bodies:
                cb = self.f.bodies[cl[1]]
                ty1 = cb.locals[1]["ty"] if len(cb.locals) > 1 else ""
                selfv = cl
                if ty1.startswith("&"):
                    nm = "closure#%d" % (len(self.heap) + 1)
                    self.heap[nm] = cl
                    selfv = ("ref", ("H", nm, ()))
                return self.call_body(cl[1], [selfv] + argv, depth + 1)
            if cl is not None and cl[0] == "fn":
                if cl[1] in self.f.bodies:
                    return self.call_body(cl[1], argv, depth + 1)
                short = cl[1].split("::")[-1]
                if "::" in cl[1] and cl[1].rsplit("::", 1)[0] in self.f.adts:
                    # the constructor of a crate-local tuple variant (`SelectorRes::Some` is not `Option::Some`)
                    parent = cl[1].rsplit("::", 1)[0]
                    vnames = [v["name"] for v in self.f.adts[parent]["variants"]]
                    if short in vnames:
                        return Adt(parent, vnames.index(short), {i: v for i, v in enumerate(argv)})
                if short in ("Ok", "Some", "Err"):
                    return {"Ok": Ok, "Some": Some, "Err": Err}[short](argv[0])
                # any other foreign function item (`.map(Vec::into_iter)`, `.map(Bytes::from)`): the call the closure `|x| f(x)` would
                # make, answered by the oracle / the collection models like a direct call (RF33)
                return self.apply(fv, list(argv), depth)
            return TOP
        if name in ("is_some", "is_ok"):
            return Int(good)
        if name in ("is_none", "is_err"):
            return Int(not good)
        if name in ("unwrap", "expect", "unwrap_unchecked"):
            if good:
                return pay
            return DIVERGE
        if name == "unwrap_or":
            return pay if good else args[1]
        if name == "unwrap_or_default":
            return pay if good else Tok("default")
        if name == "unwrap_or_else":
            return pay if good else callf(args[1], [] if is_opt else [pay])
        if name == "map":
            if good:
                v = callf(args[1], [pay])
                return Some(v) if is_opt else Ok(v)
            return d0
        if name == "map_err":
            if good:
                return d0
            return Err(callf(args[1], [pay]))
        if name == "map_or":
            return callf(args[2], [pay]) if good else args[1]
        if name in ("is_some_and", "is_ok_and"):
            return callf(args[1], [pay]) if good else Int(0)
        if name == "is_none_or":
            return callf(args[1], [pay]) if good else Int(1)
        if name == "and_then":
            return callf(args[1], [pay]) if good else d0
        if name == "filter" and is_opt:
            if not good:
                return NONE
            nm = "optpayload#%d" % (len(self.heap) + 1)
            self.heap[nm] = pay
            r = self.deref_val(callf(args[1], [("ref", ("H", nm, ()))]))
            if is_int(r):
                return Some(self.heap[nm]) if r[1] else NONE
            return NOTHANDLED
        if name in ("inspect", "inspect_err"):
            if good == (name == "inspect"):
                nm = "optpayload#%d" % (len(self.heap) + 1)
                self.heap[nm] = pay
                callf(args[1], [("ref", ("H", nm, ()))])
            return d0
        if name == "or":
            return d0 if good else args[1]
        if name == "or_else":
            return d0 if good else callf(args[1], [] if is_opt else [pay])
        if name == "and":
            return args[1] if good else d0
        if name == "map_or_else":
            return callf(args[2], [pay]) if good else callf(args[1], [] if is_opt else [pay])
        if name == "flatten" and is_opt:
            return pay if good else NONE
        if name == "zip" and is_opt:
            o = self.deref_val(args[1])
            if o is not None and o[0] == "adt" and o[1] == OPTION:
                return Some(("tuple", [pay, o[3].get(0, TOP)])) if (good and o[2] == 1) else NONE
            return NOTHANDLED
        if name in ("ok_or", "ok_or_else", "context", "with_context") and is_opt:
            if good:
                return Ok(pay)
            return Err(Tok("error") if name != "ok_or" else args[1])
        if name in ("context", "with_context") and not is_opt:
            return d0 if good else Err(Tok("error"))
        if name == "ok" and not is_opt:
            return Some(pay) if good else NONE
        if name == "err" and not is_opt:
            return NONE if good else Some(pay)
        if name in ("as_ref", "as_mut") and a0 is not None and a0[0] == "ref":
            # Option<T> behind a reference -> Option<&T>: the payload is a reference INTO the original
            if not good and is_opt:
                return NONE
            loc = a0[1]
            ploc = loc[:-1] + (tuple(loc[-1]) + (("f", 0, None),),)
            return Adt(d0[1], d0[2], {0: ("ref", ploc)})
        if name in ("as_deref", "as_deref_mut") and good:
            inner = pay
            return Adt(d0[1], d0[2], {0: inner if (inner is not None and inner[0] == "ref") else pay})
        if name in ("as_ref", "as_mut", "as_deref", "as_deref_mut", "copied", "cloned"):
            return d0
        if name == "take" and a0 is not None and a0[0] == "ref":
            self.write_loc(a0[1], NONE)
            return d0
        if name == "replace" and a0 is not None and a0[0] == "ref":
            self.write_loc(a0[1], Some(args[1]))
            return d0
        if name == "transpose":
            # Option<Result<T,E>> <-> Result<Option<T>,E>
            if is_opt:
                if not good:
                    return Ok(NONE)
                inner = self.deref_val(pay)
                if inner is not None and inner[0] == "adt" and inner[1] == RESULT:
                    return Ok(Some(inner[3].get(0, TOP))) if inner[2] == 0 else Err(inner[3].get(0, TOP))
                return NOTHANDLED
            if not good:
                return Some(Err(pay))
            inner = self.deref_val(pay)
            if inner is not None and inner[0] == "adt" and inner[1] == OPTION:
                return Some(Ok(inner[3].get(0, TOP))) if inner[2] == 1 else NONE
            return NOTHANDLED
        if name == "then" and False:
            return NOTHANDLED
        return NOTHANDLED


NOTHANDLED = object()
SCALAR_BUF_TY = re.compile(r"^(\[u8; [^\]]+\]|u8|u16|u32|u64|u128|usize|i8|i16|i32|i64|i128|isize|std::vec::Vec<u8>|bytes::BytesMut|bytes::Bytes|std::string::String)$")
DIVERGE = ("diverge",)


def struct(facts, path, **fields):
    """build a struct value by field name"""
    adt = facts.adt(path)
    names = [x["name"] for x in adt["variants"][0]["fields"]]
    return Adt(path, 0, {names.index(k): v for k, v in fields.items()})


def variant(facts, path, vname, *payload, **named):
    adt = facts.adt(path)
    vnames = [v["name"] for v in adt["variants"]]
    vi = vnames.index(vname)
    fl = {i: v for i, v in enumerate(payload)}
    fnames = [x["name"] for x in adt["variants"][vi]["fields"]]
    for k, v in named.items():
        fl[fnames.index(k)] = v
    return Adt(path, vi, fl)


def field(facts, val, path, name):
    adt = facts.adt(path)
    vi = val[2] if val[0] == "adt" else 0
    names = [x["name"] for x in adt["variants"][vi]["fields"]]
    return val[3].get(names.index(name), TOP)


def run(facts, path, args, heap=None, oracle=None, inline=(), bind=None):
    """evaluate body `path`; returns (return value, heap, events) or raises Unsupported.
    `inline`: body paths that are always inlined, also when all their arguments are opaque;
    `bind`: trait method path -> implementation body path (calls on a generic Self)"""
    it = Interp(facts, oracle, inline=inline, bind=bind)
    it.heap = dict(heap or {})
    ret = it.call_body(path, args, 0)
    return ret, it.heap, it.events


def href(name):
    return ("ref", ("H", name, ()))


def run_async(facts, path, args, heap=None, oracle=None, inline=(), bind=None):
    """evaluate an async fn / async closure: build its future by evaluating `path`, then drive that
    future to completion (every awaited crate-local future is run in place; foreign futures are
    answered by the oracle as kind "await"). Returns (output, heap, events)."""
    it = Interp(facts, oracle, inline=inline, bind=bind)
    it.heap = dict(heap or {})
    fut = it.call_body(path, args, 0)
    fut = it.deref_val(fut)
    if fut is None or fut[0] != "closure" or fut[1] not in facts.bodies or facts.bodies[fut[1]].rec.get("closure_kind") != "coroutine":
        raise Unsupported("%s did not produce a crate-local future" % path)
    it._polling = True
    out = it.call_body(fut[1], [fut, Tok("task-context")], 1)
    return out, it.heap, it.events



def run_coroutine(facts, path, captures, heap=None, oracle=None, inline=(), bind=None):
    """evaluate an `async` block's / `async fn`'s coroutine body on its own: `captures` maps the captured variables' (resp.
    parameters') names to values, or is a function (name, type) -> value | None; others become tokens named after the
    variable. Returns (output, interpreter)."""
    b = facts.bodies[path]
    if b.rec.get("closure_kind") != "coroutine":
        raise Unsupported("%s is not a coroutine body" % path)
    caps = {}
    for nm, pl in (b.upvars or {}).items():
        fld = [pr for pr in pl["p"] if pr[0] == "field"]
        if fld:
            ty = fld[0][3] if len(fld[0]) > 3 else ""
            v = captures(nm, ty) if callable(captures) else captures.get(nm)
            caps[fld[0][1]] = v if v is not None else Tok(nm)
    n = (max(caps) + 1) if caps else 0
    env = ("closure", path, [caps.get(j, Tok("cap%d" % j)) for j in range(n)])
    it = Interp(facts, oracle, inline=inline, bind=bind)
    it.heap = dict(heap or {})
    it._polling = True
    out = it.call_body(path, [env, Tok("task-context")], 1)
    return out, it


def default_args(facts, path, heap, rename=None):
    """opaque arguments for body `path` named after its parameters; a closure environment becomes a
    closure value whose captures are tokens named after the captured variables.
    rename(name, type) -> token name (optional) lets a rule name values by their role"""
    b = facts.bodies[path]
    rn = rename or (lambda n, t: n)
    args = []
    for i in range(1, b.rec["argc"] + 1):
        ty = b.locals[i]["ty"]
        if i == 1 and b.kind == "closure":
            caps = {}
            for nm, pl in (b.upvars or {}).items():
                fld = [pr for pr in pl["p"] if pr[0] == "field"]
                if fld:
                    caps[fld[0][1]] = Tok(rn(nm, fld[0][3] if len(fld[0]) > 3 else ""))
            n = (max(caps) + 1) if caps else 0
            env = ("closure", path, [caps.get(j, Tok("cap%d" % j)) for j in range(n)])
            if ty.startswith("&"):
                heap["env"] = env
                args.append(href("env"))
            else:
                args.append(env)
        else:
            args.append(Tok(rn(b.local_name(i) or "arg%d" % i, ty)))
    return args


def run_it(facts, path, args, heap=None, oracle=None, inline=(), bind=None):
    """like run(), but returns (return value, interpreter) so that the caller can render heap-resident values"""
    it = Interp(facts, oracle, inline=inline, bind=bind)
    it.heap = dict(heap or {})
    ret = it.call_body(path, args, 0)
    return ret, it

"""Abstract collections for the K6' interpreter (feval): vectors, ordered sets/maps and iterator chains as
first-class abstract values, so that a function is evaluated the same way whether it is written as a
loop with push/pop or as an adaptor chain (iter().map(..).rev().collect()).

A collection value is ("seq", kind, [items]) with kind in {"vec", "set", "iter"}; items are ordinary feval
values. Sets are kept sorted by `sort_key(item)` (supplied by the rule: the rule knows how its abstract
elements are ordered). Everything is eager: an adaptor call builds the resulting sequence at once, closures are
applied through Interp.apply. Only the operations listed here are modelled; anything else on a collection is
left to the rule's own oracle or ends in Unsupported when a branch depends on it."""
from . import feval as E


def seq(kind, items):
    return ("seq", kind, list(items))


def is_seq(v):
    return isinstance(v, tuple) and len(v) == 3 and v[0] == "seq"


class Collections:
    def __init__(self, facts, sort_key=None, size_of=None):
        self.f = facts
        self.sort_key = sort_key or (lambda it, v: E.describe(it.resolve(v), facts))
        # size_of(interp, list of items) -> serialised size in bytes (postcard model supplied by the rule)
        self.size_of = size_of

    def _get(self, it, v):
        d = it.deref_val(v)
        return d if is_seq(d) else None

    def _set(self, it, ref, new):
        if ref is not None and ref[0] == "ref":
            it.write_loc(ref[1], new)
            return True
        return False

    def _sorted(self, it, items):
        out = []
        seen = set()
        for x in sorted(items, key=lambda v: self.sort_key(it, v)):
            k = self.sort_key(it, x)
            if k in seen:
                continue
            seen.add(k)
            out.append(x)
        return out

    # ------------------------------------------------------------------ maps
    # a map is ("seq", "map", [("tuple", [key, ref-to-value-cell]), ...]); values live in heap cells so that
    # get_mut / entry().and_modify / OccupiedEntry::get_mut hand out references that can be written through
    def _map_find(self, it, items, key):
        kk = self.sort_key(it, key)
        for i, kv in enumerate(items):
            if self.sort_key(it, kv[1][0]) == kk:
                return i
        return None

    def _cell(self, it, v):
        nm = "mapcell#%d" % (len(it.heap) + 1)
        it.heap[nm] = it.deref_val(v) if v is not None and v[0] == "ref" else v
        return E.href(nm)

    def _map_insert(self, it, mref, items, key, val, ordered):
        i = self._map_find(it, items, key)
        if i is not None:
            old = it.read_loc(items[i][1][1][1])
            it.write_loc(items[i][1][1][1], it.deref_val(val) if val is not None and val[0] == "ref" else val)
            return E.Some(old), items[i][1][1]
        cell = self._cell(it, val)
        new = items + [("tuple", [key, cell])]
        if ordered:
            new = sorted(new, key=lambda kv: self.sort_key(it, kv[1][0]))
        self._set(it, mref, seq("map", new))
        return E.NONE, cell

    def handle_map(self, name, t, args, it, full):
        a0 = args[0] if args else None
        if name in ("new", "default", "with_capacity") and ("HashMap" in full or "BTreeMap" in full) and not any(is_seq(it.deref_val(a)) for a in args):
            return seq("map", [])
        # entry objects: ("adt", ENTRY, idx, {0: ("tuple", [mapref, key, cell-or-None])})
        d0 = it.deref_val(a0) if a0 is not None else None
        if d0 is not None and d0[0] == "adt" and d0[1] == "map::Entry":
            inner = d0[3][0]
            mref, key, cell = inner[3][0][1]
            m = self._get(it, mref)
            ordered = inner[3][1] == ("int", 1)
            if name == "and_modify":
                if cell is not None:
                    it.apply(args[1], [cell])
                return a0
            if name in ("or_insert", "or_insert_with", "or_default", "or_insert_with_key"):
                if cell is not None:
                    return cell
                v = args[1] if name == "or_insert" else (E.Tok("default") if name == "or_default" else it.apply(args[1], [] if name == "or_insert_with" else [key]))
                return self._map_insert(it, mref, m[2], key, v, ordered)[1]
            if name == "key":
                return key
            return None
        if d0 is not None and d0[0] == "adt" and d0[1] in ("map::OccupiedEntry", "map::VacantEntry"):
            mref, key, cell = d0[3][0][1]
            m = self._get(it, mref)
            ordered = d0[3][1] == ("int", 1)
            if name in ("get", "get_mut", "into_mut") and cell is not None:
                return cell
            if name == "key":
                return key
            if name == "insert":
                old, c = self._map_insert(it, mref, m[2], key, args[1], ordered)
                return c if d0[1] == "map::VacantEntry" else (old[3].get(0, E.TOP) if old[2] == 1 else E.TOP)
            if name in ("remove", "remove_entry") and cell is not None:
                i = self._map_find(it, m[2], key)
                old = it.read_loc(cell[1])
                self._set(it, mref, seq("map", m[2][:i] + m[2][i + 1:]))
                return old if name == "remove" else ("tuple", [key, old])
            return None
        m = self._get(it, a0) if a0 is not None else None
        if m is None or m[1] != "map":
            return None
        items = m[2]
        ordered = "BTreeMap" in full
        if name == "insert" and len(args) == 3:
            return self._map_insert(it, a0, items, args[1], args[2], ordered)[0]
        if name in ("get", "get_mut"):
            i = self._map_find(it, items, it.deref_val(args[1]) if args[1][0] == "ref" else args[1])
            return E.Some(items[i][1][1]) if i is not None else E.NONE
        if name == "contains_key":
            i = self._map_find(it, items, it.deref_val(args[1]) if args[1][0] == "ref" else args[1])
            return E.Int(1 if i is not None else 0)
        if name == "remove":
            i = self._map_find(it, items, it.deref_val(args[1]) if args[1][0] == "ref" else args[1])
            if i is None:
                return E.NONE
            old = it.read_loc(items[i][1][1][1])
            self._set(it, a0, seq("map", items[:i] + items[i + 1:]))
            return E.Some(old)
        if name == "retain" and len(args) == 2:
            keep = []
            for kv in items:
                nm = "key#%d" % (len(it.heap) + 1)
                it.heap[nm] = kv[1][0]
                r = it.deref_val(it.apply(args[1], [E.href(nm), kv[1][1]]))
                if not E.is_int(r):
                    raise E.Unsupported("retain predicate undetermined")
                if r[1]:
                    keep.append(kv)
            self._set(it, a0, seq("map", keep))
            return E.UNIT
        if name == "clear":
            self._set(it, a0, seq("map", []))
            return E.UNIT
        if name == "entry":
            i = self._map_find(it, items, args[1])
            cell = items[i][1][1] if i is not None else None
            pay = ("tuple", [a0, args[1], cell])
            inner = E.Adt("map::OccupiedEntry" if cell is not None else "map::VacantEntry", 0, {0: pay, 1: E.Int(1 if ordered else 0)})
            # std: hash_map::Entry { Occupied, Vacant }, btree_map::Entry { Vacant, Occupied }
            idx = (1 if cell is not None else 0) if ordered else (0 if cell is not None else 1)
            # a `match` on the entry downcasts to the variant and takes field 0: the Occupied/Vacant entry object
            return E.Adt("map::Entry", idx, {0: inner})
        if name in ("iter", "into_iter", "iter_mut", "drain"):
            return seq("iter", [("tuple", [kv[1][0], it.read_loc(kv[1][1][1]) if name in ("into_iter", "drain") else kv[1][1]]) for kv in items])
        if name in ("values", "into_values", "values_mut"):
            return seq("iter", [it.read_loc(kv[1][1][1]) if name == "into_values" else kv[1][1] for kv in items])
        if name in ("keys", "into_keys"):
            return seq("iter", [kv[1][0] for kv in items])
        if name == "len":
            return E.Int(len(items))
        if name == "is_empty":
            return E.Int(0 if items else 1)
        return None

    def handle(self, kind, name, payload, site):
        if kind != "call":
            return None
        t, args, it = payload
        fullm = (t["f"].get("full") or "") + " " + (t["f"].get("path") or "") + " " + (t["f"].get("res") or "")
        rm = self.handle_map(name, t, args, it, fullm)
        if rm is not None:
            return rm
        full = (t["f"].get("full") or "") + " " + (t["f"].get("path") or "") + " " + (t["f"].get("res") or "")
        a0 = args[0] if args else None
        s0 = self._get(it, a0) if a0 is not None else None
        # constructors
        if name in ("new", "with_capacity", "default") and not any(is_seq(it.deref_val(a)) for a in args):
            if "vec::Vec" in full and "::new" in full or ("vec::Vec" in full and name == "with_capacity"):
                return seq("vec", [])
            if ("BTreeSet" in full or "HashSet" in full) and ("::new" in full or "::default" in full or "::with_capacity" in full):
                return seq("set", [])
        # integer ranges are iterators: `a..b` is an aggregate of std::ops::Range, `a..=b` comes from RangeInclusive::new
        if name == "new" and "RangeInclusive" in full and len(args) == 2 and all(E.is_int(it.deref_val(a)) for a in args):
            lo, hi = it.deref_val(args[0])[1], it.deref_val(args[1])[1]
            return seq("iter", [E.Int(i) for i in range(lo, hi + 1)])
        if s0 is None and a0 is not None:
            d0 = it.deref_val(a0)
            if d0 is not None and d0[0] == "adt" and d0[1].endswith("ops::Range") and E.is_int(d0[3].get(0)) and E.is_int(d0[3].get(1)) and \
                    name in ("into_iter", "next", "next_back", "rev", "map", "filter", "filter_map", "for_each", "try_for_each", "try_fold", "fold", "collect", "any", "all", "count", "len", "step_by", "take", "skip", "enumerate", "rposition", "position", "find", "find_map"):
                mat = seq("iter", [E.Int(i) for i in range(d0[3][0][1], d0[3][1][1])])
                if a0[0] == "ref":
                    it.write_loc(a0[1], mat)
                else:
                    a0 = mat
                    args = [mat] + list(args[1:])
                s0 = mat
        if s0 is None and a0 is not None and name in ("into_iter", "iter", "iter_mut") and ("option::Option" in full or "result::Result" in full):
            # an Option / Result iterates over its zero or one (Some / Ok) payloads
            d0 = it.deref_val(a0)
            if d0 is not None and d0[0] == "adt" and d0[1] in (E.OPTION, E.RESULT) and d0[2] in (0, 1):
                some = (d0[2] == 1) if d0[1] == E.OPTION else (d0[2] == 0)
                return seq("iter", [d0[3].get(0, E.TOP)] if some else [])
        if s0 is None:
            return None
        k, items = s0[1], s0[2]
        if name == "flatten":
            out = []
            for x in items:
                xv = it.deref_val(x) if (x is not None and x[0] == "ref") else x
                if is_seq(xv):
                    out += list(xv[2])
                elif xv is not None and xv[0] == "adt" and xv[1] in (E.OPTION, E.RESULT) and xv[2] in (0, 1):
                    some = (xv[2] == 1) if xv[1] == E.OPTION else (xv[2] == 0)
                    if some:
                        out.append(xv[3].get(0, E.TOP))
                else:
                    raise E.Unsupported("flatten over an element that is neither a collection nor an Option / Result")
            return seq("iter", out)
        # --- inspection
        if name == "len":
            return E.Int(len(items))
        if name == "is_empty":
            return E.Int(1 if not items else 0)
        if name in ("iter", "iter_mut") and k in ("vec", "set") and a0 is not None and a0[0] == "ref":
            # a slice of scalars behind a reference: iterate by reference to the elements so that `*x = ..` writes through
            loc = a0[1]
            return seq("iter", [x if (x is not None and x[0] == "ref") else ("ref", loc[:-1] + (tuple(loc[-1]) + (("i", i),),)) for i, x in enumerate(items)])
        if name in ("iter", "into_iter", "iter_mut", "drain"):
            return seq("iter", items)
        if name in ("index", "index_mut") and k == "vec" and len(args) == 2 and a0 is not None and a0[0] == "ref":
            from .C09 import _rng
            r = _rng(E, it, args[1], len(items))
            if r is not None and r[0] is not None and r[1] is not None:
                if not (0 <= r[0] <= r[1] <= len(items)):
                    return E.DIVERGE
                loc = a0[1]
                view = seq("vec", [x if (x is not None and x[0] == "ref") else ("ref", loc[:-1] + (tuple(loc[-1]) + (("i", i),),)) for i, x in enumerate(items)][r[0]:r[1]])
                nm = "view#%d" % (len(it.heap) + 1)
                it.heap[nm] = view
                return E.href(nm)
            iv = it.deref_val(args[1])
            if E.is_int(iv):
                if not (0 <= iv[1] < len(items)):
                    return E.DIVERGE
                loc = a0[1]
                x = items[iv[1]]
                return x if (x is not None and x[0] == "ref") else ("ref", loc[:-1] + (tuple(loc[-1]) + (("i", iv[1]),),))
        if name == "fill" and k == "vec" and len(args) == 2:
            for i, x in enumerate(items):
                if x is not None and x[0] == "ref":
                    it.write_loc(x[1], args[1])
            if not any(x is not None and x[0] == "ref" for x in items):
                self._set(it, a0, seq(k, [args[1]] * len(items)))
            return E.UNIT
        if name in ("position", "rposition"):
            order = list(range(len(items)))
            if name == "rposition":
                order = order[::-1]
            for i in order:
                r = it.deref_val(it.apply(args[1], [items[i]]))
                if not E.is_int(r):
                    raise E.Unsupported("%s predicate undetermined" % name)
                if r[1]:
                    return E.Some(E.Int(i))
            return E.NONE
        if name in ("as_slice", "as_ref", "deref", "as_mut_slice", "deref_mut", "borrow"):
            return a0
        if name in ("clone", "to_vec", "to_owned"):
            return seq(k, items)
        # --- mutation (receiver is a reference to the collection)
        if name == "push" and k == "vec":
            self._set(it, a0, seq(k, items + [args[1]]))
            return E.UNIT
        if name == "pop" and k == "vec":
            if not items:
                return E.NONE
            self._set(it, a0, seq(k, items[:-1]))
            return E.Some(items[-1])
        if name == "insert" and k == "set":
            new = self._sorted(it, items + [args[1]])
            fresh = len(new) > len(items)
            self._set(it, a0, seq(k, new))
            return E.Int(1 if fresh else 0)
        if name == "truncate" and k == "vec" and E.is_int(it.deref_val(args[1])):
            self._set(it, a0, seq(k, items[:it.deref_val(args[1])[1]]))
            return E.UNIT
        if name == "clear":
            self._set(it, a0, seq(k, []))
            return E.UNIT
        if name in ("extend", "append", "extend_from_slice") and k == "vec" and len(args) == 2:
            src = self._get(it, args[1]) if args[1] is not None else None
            if src is None:
                sv = it.deref_val(args[1]) if args[1][0] == "ref" else args[1]
                src = sv if is_seq(sv) else None
            if src is None:
                # Option / single value iterables
                sv = it.deref_val(args[1]) if args[1][0] == "ref" else args[1]
                if sv is not None and sv[0] == "adt" and sv[1] == E.OPTION:
                    src = seq("iter", [sv[3][0]] if sv[2] == 1 else [])
            if src is not None:
                self._set(it, a0, seq(k, items + list(src[2])))
                if name == "append" and args[1][0] == "ref":
                    self._set(it, args[1], seq(src[1], []))
                return E.UNIT
        if name in ("retain", "retain_mut") and k in ("vec", "set") and len(args) == 2:
            keep = []
            for x in items:
                nm = "item#%d" % (len(it.heap) + 1)
                it.heap[nm] = x
                r = it.deref_val(it.apply(args[1], [E.href(nm)]))
                if not E.is_int(r):
                    raise E.Unsupported("retain predicate undetermined")
                if r[1]:
                    keep.append(it.heap[nm])
            self._set(it, a0, seq(k, keep))
            return E.UNIT
        if name in ("last", "first") and k in ("vec", "set"):
            if not items:
                return E.NONE
            return E.Some(items[-1] if name == "last" else items[0])
        if name == "reverse" and k == "vec":
            self._set(it, a0, seq(k, items[::-1]))
            return E.UNIT
        # --- iterator adaptors / consumers
        if name == "next":
            if not items:
                return E.NONE
            self._set(it, a0, seq(k, items[1:]))
            return E.Some(items[0])
        if name == "nth" and k == "iter" and len(args) == 2 and E.is_int(it.deref_val(args[1])):
            n = it.deref_val(args[1])[1]
            self._set(it, a0, seq(k, items[n + 1:]))
            return E.Some(items[n]) if 0 <= n < len(items) else E.NONE
        if name == "next_back":
            if not items:
                return E.NONE
            self._set(it, a0, seq(k, items[:-1]))
            return E.Some(items[-1])
        if name == "rev":
            return seq("iter", items[::-1])
        if name in ("copied", "cloned", "by_ref", "fuse", "peekable"):
            return seq("iter", items)
        if name == "map":
            return seq("iter", [it.apply(args[1], [x]) for x in items])
        if name in ("filter", "take_while", "skip_while"):
            out = []
            skipping = name == "skip_while"
            for x in items:
                nm = "item#%d" % (len(it.heap) + 1)
                it.heap[nm] = x
                r = it.deref_val(it.apply(args[1], [E.href(nm)]))
                if not E.is_int(r):
                    raise E.Unsupported("%s predicate undetermined" % name)
                if name == "filter":
                    if r[1]:
                        out.append(x)
                elif name == "take_while":
                    if not r[1]:
                        break
                    out.append(x)
                else:
                    if skipping and r[1]:
                        continue
                    skipping = False
                    out.append(x)
            return seq("iter", out)
        if name == "filter_map":
            out = []
            for x in items:
                r = it.deref_val(it.apply(args[1], [x]))
                if r is None or r[0] != "adt" or r[1] != E.OPTION:
                    raise E.Unsupported("filter_map result undetermined")
                if r[2] == 1:
                    out.append(r[3].get(0, E.TOP))
            return seq("iter", out)
        if name in ("take", "skip") and E.is_int(it.deref_val(args[1])):
            n = it.deref_val(args[1])[1]
            return seq("iter", items[:n] if name == "take" else items[n:])
        if name == "enumerate":
            return seq("iter", [("tuple", [E.Int(i), x]) for i, x in enumerate(items)])
        if name == "zip" and len(args) == 2 and self._get(it, args[1]) is not None:
            return seq("iter", [("tuple", [x, y]) for x, y in zip(items, self._get(it, args[1])[2])])
        if name == "chain" and len(args) == 2 and self._get(it, args[1]) is not None:
            return seq("iter", items + self._get(it, args[1])[2])
        if name in ("find", "find_map"):
            for x in items:
                if name == "find":
                    nm = "item#%d" % (len(it.heap) + 1)
                    it.heap[nm] = x
                    r = it.deref_val(it.apply(args[1], [E.href(nm)]))
                    if not E.is_int(r):
                        raise E.Unsupported("find predicate undetermined")
                    if r[1]:
                        return E.Some(x)
                else:
                    r = it.deref_val(it.apply(args[1], [x]))
                    if r is None or r[0] != "adt" or r[1] != E.OPTION:
                        raise E.Unsupported("find_map result undetermined")
                    if r[2] == 1:
                        return r
            return E.NONE
        if name == "count":
            return E.Int(len(items))
        if name == "last" and k == "iter":
            return E.Some(items[-1]) if items else E.NONE
        if name in ("for_each",):
            for x in items:
                it.apply(args[1], [x])
            return E.UNIT
        if name in ("any", "all"):
            for x in items:
                r = it.deref_val(it.apply(args[1], [x]))
                if not E.is_int(r):
                    raise E.Unsupported("%s predicate undetermined" % name)
                if name == "any" and r[1]:
                    return E.Int(1)
                if name == "all" and not r[1]:
                    return E.Int(0)
            return E.Int(0 if name == "any" else 1)
        if name in ("fold",):
            acc = args[1]
            for x in items:
                acc = it.apply(args[2], [acc, x])
            return acc
        if name in ("try_fold", "try_for_each"):
            acc = args[1] if name == "try_fold" else E.UNIT
            fn = args[2] if name == "try_fold" else args[1]
            rest = list(items)
            while rest:
                x = rest.pop(0)
                r = it.deref_val(it.apply(fn, [acc, x] if name == "try_fold" else [x]))
                if r is None or r[0] != "adt" or r[1] not in (E.RESULT, E.OPTION, E.CFLOW):
                    raise E.Unsupported("%s callback result undetermined" % name)
                good = (r[2] == 0) if r[1] in (E.RESULT, E.CFLOW) else (r[2] == 1)
                if not good:
                    self._set(it, a0, seq(k, rest))
                    return r
                acc = r[3].get(0, E.UNIT)
            self._set(it, a0, seq(k, []))
            # the Try type of the result is the callback's: rebuild the success value in the same type
            return E.Ok(acc) if "Result<" in full or "anyhow" in full else (E.Some(acc) if "Option<" in full else E.Ok(acc))
        if name in ("collect", "from_iter"):
            import re as _re
            mt = _re.search(r"(?:collect|from_iter)::<(.*)$", (t["f"].get("full") or ""))
            target = mt.group(1) if mt else ((t["f"].get("full") or "").lstrip("<").split(" as ")[0] if name == "from_iter" else full)
            if target.startswith("std::collections::BTreeSet") or (mt is None and "BTreeSet" in full):
                return seq("set", self._sorted(it, items))
            into_try = target.startswith("std::result::Result<") or target.startswith("std::option::Option<") if mt else ("Result<" in full or "Option<" in full)
            if into_try:
                # collect::<Result<Vec<_>, _>>: first Err wins
                out = []
                for x in items:
                    d = it.deref_val(x)
                    if d is None or d[0] != "adt" or d[1] not in (E.RESULT, E.OPTION):
                        raise E.Unsupported("collect into Result/Option of undetermined items")
                    good = (d[2] == 0) if d[1] == E.RESULT else (d[2] == 1)
                    if not good:
                        return d
                    out.append(d[3].get(0, E.TOP))
                return E.Ok(seq("vec", out)) if ("Result<" in target[:24] or (mt is None and "Result<" in full)) else E.Some(seq("vec", out))
            return seq("vec", items)
        if name in ("extend",) and len(args) == 2 and self._get(it, args[1]) is not None:
            more = self._get(it, args[1])[2]
            self._set(it, a0, seq(k, self._sorted(it, items + more) if k == "set" else items + more))
            return E.UNIT
        if name == "serialized_size" and self.size_of is not None:
            return E.Ok(E.Int(self.size_of(it, items)))
        return None


def render(it, v, facts):
    """rendering of a value that may contain collections"""
    d = it.deref_val(v) if it is not None else v
    if is_seq(d):
        return "[%s]" % ",".join(render(it, x, facts) for x in d[2])
    if d is not None and d[0] == "tuple":
        return "(%s)" % ",".join(render(it, x, facts) for x in d[1])
    if d is not None and d[0] == "adt" and d[3]:
        base = E.describe(("adt", d[1], d[2], {}), facts)
        return "%s(%s)" % (base, ",".join(render(it, d[3][i], facts) for i in sorted(d[3])))
    return E.describe(it.resolve(d) if it is not None else d, facts)

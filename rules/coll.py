"""Abstract collections for the K6' interpreter (feval): vectors, ordered sets/maps and iterator chains as
first-class abstract values, so that a function is evaluated the same way whether it is written as a
loop with push/pop or as an adaptor chain (iter().map(..).rev().collect()).

A collection value is ("seq", kind, [items]) with kind in {"vec", "set", "iter"}; items are ordinary feval
values. Sets are kept sorted by `sort_key(item)` (supplied by the rule: the rule knows how its abstract
elements are ordered). Everything is eager: an adaptor call builds the resulting sequence at once, closures are
applied through Interp.apply. Only the operations listed here are modelled; anything else on a collection is
left to the rule's own oracle or ends in Unsupported when a branch depends on it."""
from . import feval as E


def seq(kind, items):
    return ("seq", kind, list(items))


def is_seq(v):
    return isinstance(v, tuple) and len(v) == 3 and v[0] == "seq"


class Collections:
    def __init__(self, facts, sort_key=None, size_of=None):
        self.f = facts
        self.sort_key = sort_key or (lambda it, v: E.describe(it.resolve(v), facts))
        # size_of(interp, list of items) -> serialised size in bytes (postcard model supplied by the rule)
        self.size_of = size_of

    def _get(self, it, v):
        d = it.deref_val(v)
        return d if is_seq(d) else None

    def _set(self, it, ref, new):
        if ref is not None and ref[0] == "ref":
            it.write_loc(ref[1], new)
            return True
        return False

    def _sorted(self, it, items):
        out = []
        seen = set()
        for x in sorted(items, key=lambda v: self.sort_key(it, v)):
            k = self.sort_key(it, x)
            if k in seen:
                continue
            seen.add(k)
            out.append(x)
        return out

    def handle(self, kind, name, payload, site):
        if kind != "call":
            return None
        t, args, it = payload
        full = (t["f"].get("full") or "") + " " + (t["f"].get("path") or "") + " " + (t["f"].get("res") or "")
        a0 = args[0] if args else None
        s0 = self._get(it, a0) if a0 is not None else None
        # constructors
        if name in ("new", "with_capacity", "default") and not any(is_seq(it.deref_val(a)) for a in args):
            if "vec::Vec" in full and "::new" in full or ("vec::Vec" in full and name == "with_capacity"):
                return seq("vec", [])
            if "BTreeSet" in full and name == "new":
                return seq("set", [])
        if s0 is None:
            return None
        k, items = s0[1], s0[2]
        # --- inspection
        if name == "len":
            return E.Int(len(items))
        if name == "is_empty":
            return E.Int(1 if not items else 0)
        if name in ("iter", "into_iter", "iter_mut", "drain"):
            return seq("iter", items)
        if name in ("as_slice", "as_ref", "deref", "as_mut_slice", "deref_mut", "borrow"):
            return a0
        if name in ("clone", "to_vec", "to_owned"):
            return seq(k, items)
        # --- mutation (receiver is a reference to the collection)
        if name == "push" and k == "vec":
            self._set(it, a0, seq(k, items + [args[1]]))
            return E.UNIT
        if name == "pop" and k == "vec":
            if not items:
                return E.NONE
            self._set(it, a0, seq(k, items[:-1]))
            return E.Some(items[-1])
        if name == "insert" and k == "set":
            new = self._sorted(it, items + [args[1]])
            fresh = len(new) > len(items)
            self._set(it, a0, seq(k, new))
            return E.Int(1 if fresh else 0)
        if name == "truncate" and k == "vec" and E.is_int(it.deref_val(args[1])):
            self._set(it, a0, seq(k, items[:it.deref_val(args[1])[1]]))
            return E.UNIT
        if name == "clear":
            self._set(it, a0, seq(k, []))
            return E.UNIT
        if name in ("last", "first") and k in ("vec", "set"):
            if not items:
                return E.NONE
            return E.Some(items[-1] if name == "last" else items[0])
        if name == "reverse" and k == "vec":
            self._set(it, a0, seq(k, items[::-1]))
            return E.UNIT
        # --- iterator adaptors / consumers
        if name == "next":
            if not items:
                return E.NONE
            self._set(it, a0, seq(k, items[1:]))
            return E.Some(items[0])
        if name == "next_back":
            if not items:
                return E.NONE
            self._set(it, a0, seq(k, items[:-1]))
            return E.Some(items[-1])
        if name == "rev":
            return seq("iter", items[::-1])
        if name in ("copied", "cloned", "by_ref", "fuse", "peekable"):
            return seq("iter", items)
        if name == "map":
            return seq("iter", [it.apply(args[1], [x]) for x in items])
        if name in ("filter", "take_while", "skip_while"):
            out = []
            skipping = name == "skip_while"
            for x in items:
                nm = "item#%d" % (len(it.heap) + 1)
                it.heap[nm] = x
                r = it.deref_val(it.apply(args[1], [E.href(nm)]))
                if not E.is_int(r):
                    raise E.Unsupported("%s predicate undetermined" % name)
                if name == "filter":
                    if r[1]:
                        out.append(x)
                elif name == "take_while":
                    if not r[1]:
                        break
                    out.append(x)
                else:
                    if skipping and r[1]:
                        continue
                    skipping = False
                    out.append(x)
            return seq("iter", out)
        if name == "filter_map":
            out = []
            for x in items:
                r = it.deref_val(it.apply(args[1], [x]))
                if r is None or r[0] != "adt" or r[1] != E.OPTION:
                    raise E.Unsupported("filter_map result undetermined")
                if r[2] == 1:
                    out.append(r[3].get(0, E.TOP))
            return seq("iter", out)
        if name in ("take", "skip") and E.is_int(it.deref_val(args[1])):
            n = it.deref_val(args[1])[1]
            return seq("iter", items[:n] if name == "take" else items[n:])
        if name == "enumerate":
            return seq("iter", [("tuple", [E.Int(i), x]) for i, x in enumerate(items)])
        if name == "chain" and len(args) == 2 and self._get(it, args[1]) is not None:
            return seq("iter", items + self._get(it, args[1])[2])
        if name == "count":
            return E.Int(len(items))
        if name == "last" and k == "iter":
            return E.Some(items[-1]) if items else E.NONE
        if name in ("for_each",):
            for x in items:
                it.apply(args[1], [x])
            return E.UNIT
        if name in ("any", "all"):
            for x in items:
                r = it.deref_val(it.apply(args[1], [x]))
                if not E.is_int(r):
                    raise E.Unsupported("%s predicate undetermined" % name)
                if name == "any" and r[1]:
                    return E.Int(1)
                if name == "all" and not r[1]:
                    return E.Int(0)
            return E.Int(0 if name == "any" else 1)
        if name in ("fold",):
            acc = args[1]
            for x in items:
                acc = it.apply(args[2], [acc, x])
            return acc
        if name in ("collect", "from_iter"):
            if "BTreeSet" in full:
                return seq("set", self._sorted(it, items))
            if "Result<" in full or "Option<" in full:
                # collect::<Result<Vec<_>, _>>: first Err wins
                out = []
                for x in items:
                    d = it.deref_val(x)
                    if d is None or d[0] != "adt" or d[1] not in (E.RESULT, E.OPTION):
                        raise E.Unsupported("collect into Result/Option of undetermined items")
                    good = (d[2] == 0) if d[1] == E.RESULT else (d[2] == 1)
                    if not good:
                        return d
                    out.append(d[3].get(0, E.TOP))
                return E.Ok(seq("vec", out)) if "Result<" in full else E.Some(seq("vec", out))
            return seq("vec", items)
        if name in ("extend",) and len(args) == 2 and self._get(it, args[1]) is not None:
            more = self._get(it, args[1])[2]
            self._set(it, a0, seq(k, self._sorted(it, items + more) if k == "set" else items + more))
            return E.UNIT
        if name == "serialized_size" and self.size_of is not None:
            return E.Ok(E.Int(self.size_of(it, items)))
        return None


def render(it, v, facts):
    """rendering of a value that may contain collections"""
    d = it.deref_val(v) if it is not None else v
    if is_seq(d):
        return "[%s]" % ",".join(render(it, x, facts) for x in d[2])
    if d is not None and d[0] == "tuple":
        return "(%s)" % ",".join(render(it, x, facts) for x in d[1])
    if d is not None and d[0] == "adt" and d[3]:
        base = E.describe(("adt", d[1], d[2], {}), facts)
        return "%s(%s)" % (base, ",".join(render(it, d[3][i], facts) for i in sorted(d[3])))
    return E.describe(it.resolve(d) if it is not None else d, facts)

"""C15 — download policies persist and decide downloads exactly as specified."""
import re
from . import mir, tables
from .mir import trace, origin_summary, callee_matches
from .common import find_calls, one_call, call_outcomes, Ensures
from . import paths as P

EXPLANATION = (
    'Decides structural necessary conditions of C15 from MIR: (R1) DownloadPolicy::matches evaluated over both variants '
    'normalises to NothingExcept => exists filter matching, EverythingExcept => forall filters not matching (De Morgan '
    'forms accepted); FilterKind::matches is key.starts_with(prefix) for Prefix (key as receiver) and equality for Exact; '
    "the key is the entry's key; (R2) set_download_policy evaluated on {document exists, not} x {write ok, fails} x {policy"
    ' equal to whatever it is compared with, not}: Ok only after the write, key = namespace argument, value = postcard '
    'encoding of the policy argument; get_download_policy reads the same table by the namespace argument, decodes the '
    'stored bytes and defaults to EverythingExcept([]); the table has no other writer besides remove_replica and '
    "migrations; (R3) FilterKind's Display and FromStr use the same tag set and the same tag<->variant pairing, and the "
    'Display -> FromStr round trip is evaluated on concrete sample filters (payloads containing the separator, non-UTF-8 '
    "payloads). (R4) the API handlers for setting / reading the policy evaluated: the request's own document and policy are"
    ' forwarded, the stored policy is returned. (R5) the file-format migration that runs on open for stores written by '
    'iroh-docs 0.94..=0.98 (migrate_redb_v2_tuples::run), evaluated on an old file holding one row per table, carries the '
    'download policies. (R6) the store actor forwards SetDownloadPolicy / GetDownloadPolicy one to one (the store-actor handler evaluated with the fields of the request as named tokens and gates / store / replica calls answered by an oracle, each step also failing in turn: the own fields of the request reach the core function in order on the addressed document, nothing is carried out after a failed step, the reply is the result of that function; the SyncHandle method evaluated: one request of its own kind, addressed to its namespace argument, each field one of its own parameters, the reply of the actor returned). (R7) the live actor handler of remote-insert events evaluated on download flag x content status: a download is started from the providing peer, or the hash recorded as missing, exactly when the flag is set. (R8) = C06.R4 failing-body rows. NOT decided: text round trip for all byte strings (hex/utf8 codecs trusted).'
)
ASSUMPTIONS = ["postcard encode/decode are inverse (trusted)", "redb tables are identified by their key/value types"]

DP = "download_policy"


EXPLANATION += ' (R9, round 9) = C12.R3: the download flag of a remote insert is computed from the policy the store holds now, on both ingress paths. R8 also carries the destructor rows of C06.R4.'
EXPLANATION += " (R10, round 11) = C16.R1 for the policy table: a removed document's policy row is erased."
EXPLANATION += ' (R11, round 12) = C16.R15: no per-document memo (e.g. of decoded policies) in the store outlives the document.'


def _str_consts_on_path(body, path):
    out = []
    for bi in path.blocks:
        for s in body.blocks[bi]["s"]:
            if s["k"] != "assign" or mir.is_macro(s["x"]):
                continue
            r = s["r"]
            ops = []
            if r[0] == "use":
                ops = [r[1]]
            elif r[0] == "agg":
                ops = r[2]
            for o in ops:
                if o[0] == "const" and "str" in o[1]:
                    out.append(o[1]["str"])
    return out


def r1(ctx):
    """DownloadPolicy::matches and FilterKind::matches evaluated (K6' with concrete strings and abstract collections)"""
    from . import feval as E, strs, coll
    f = ctx.facts
    m = f.body("store::DownloadPolicy::matches")
    fm = f.body("store::FilterKind::matches")
    ctx.touch(*f.scope(m.path, prefix="store::"))
    ctx.touch(*f.scope(fm.path, prefix="store::"))
    KEY = "abc"

    def filt(kind, text):
        return E.variant(f, "store::FilterKind", kind, strs.S(text))

    def truth(kind, text):
        return KEY.startswith(text) if kind == "Prefix" else KEY == text
    base = strs.make_oracle(f, [])

    def oracle(kind, name, payload, site):
        if kind == "call":
            t, args, it = payload
            names = [it.tokname(a) for a in args]
            if name == "key" and names and names[0] == "entry":
                return strs.S(KEY)
        return base(kind, name, payload, site)
    # FilterKind::matches on its own
    for kind, text in (("Prefix", "ab"), ("Prefix", "abc"), ("Prefix", ""), ("Prefix", "abcd"), ("Prefix", "b"), ("Exact", "abc"), ("Exact", "ab"), ("Exact", ""), ("Exact", "abcd")):
        try:
            ret, hp, ev = E.run(f, fm.path, [E.href("self"), strs.S(KEY)], {"self": filt(kind, text)}, oracle)
            got = E.describe(ret, f)
        except E.Unsupported as ex:
            got = "UNSUPPORTED-FORM: %s" % ex
        ctx.check(got == ("1" if truth(kind, text) else "0"), "C15.R1", fm.path, "%s=%s" % (kind, "key.starts_with(prefix)" if kind == "Prefix" else "equality"),
                  "%s(%r).matches(%r) = %s (spec %s)" % (kind, text, KEY, got, truth(kind, text)), fm.sp)
    lists = {"none": [], "one-matching": [("Prefix", "ab")], "one-not-matching": [("Prefix", "zz")], "exact-matching": [("Exact", "abc")], "exact-not-matching": [("Exact", "ab")],
             "mixed": [("Prefix", "zz"), ("Exact", "abc")], "two-not-matching": [("Prefix", "zz"), ("Exact", "x")]}
    for variant in ("NothingExcept", "EverythingExcept"):
        bad = []
        for label, fl in lists.items():
            pol = E.variant(f, "store::DownloadPolicy", variant, coll.seq("vec", [filt(k, t) for k, t in fl]))
            anym = any(truth(k, t) for k, t in fl)
            want = anym if variant == "NothingExcept" else (not anym)
            try:
                ret, hp, ev = E.run(f, m.path, [E.href("self"), E.href("entry")], {"self": pol, "entry": E.Tok("entry")}, oracle)
                got = E.describe(ret, f)
            except E.Unsupported as ex:
                got = "UNSUPPORTED-FORM: %s" % ex
            if got != ("1" if want else "0"):
                bad.append("filters %s: %s, spec %s" % (label, got, want))
        ctx.check(not bad, "C15.R1", m.path, "semantics.%s" % variant,
                  "evaluated on %d filter lists against the key %r; deviating: %s; spec: %s" % (len(lists), KEY, bad, "download iff some filter matches (an empty list selects nothing)" if variant == "NothingExcept" else "download iff no filter matches (an empty list selects everything)"), m.sp)
    ctx.floor("C15.R1", 4)


def r2(ctx):
    from . import feval as E
    f = ctx.facts
    types = tables.table_types(f)
    s, c = tables.tx_body(f, "store::fs::Store::set_download_policy", DP)
    ctx.touch(s, c)
    # set_download_policy evaluated (K6') on {document exists, not} x {write ok, fails}; Store::modify runs the given transaction body
    for exists, wr, same in ((1, "ok", 0), (1, "ok", 1), (1, "err", 0), (0, "ok", 0), (0, "ok", 1)):
        if True:
            log = []

            def oracle(kind, name, payload, site, exists=exists, wr=wr, same=same):
                if kind in ("eq", "cmp") and "policy" in str(name) + str(payload):
                    # any comparison of the new policy with another policy (the default, the stored one): both answers are explored
                    return bool(same) if kind == "eq" else (0 if same else 1)
                if kind != "call":
                    return None
                t, args, it = payload
                names = [it.tokname(a) for a in args]
                if callee_matches(t, r"store::fs::Store::modify$"):
                    it.heap.setdefault("tables", E.Tok("tables"))
                    return it.apply(args[1], [E.href("tables")])
                ct = tables.call_table(t, types)
                if ct and ct[1] == "get" and ct[0] == "namespaces":
                    log.append(("namespaces.get", names[1:]))
                    return E.Ok(E.Some(E.Tok("rowguard"))) if exists else E.Ok(E.NONE)
                if ct and ct[1] in tables.WRITE_OPS:
                    log.append(("%s.%s" % (ct[0], ct[1]), names[1:]))
                    return E.Ok(E.NONE) if wr == "ok" else E.Err(E.Tok("storage-error"))
                if name in ("to_stdvec", "to_allocvec", "to_vec") and callee_matches(t, r"postcard"):
                    return E.Ok(E.Tok("postcard(%s)" % names[0]))
                if name in ("as_bytes", "to_bytes"):
                    return E.Tok("b(%s)" % names[0])
                return None
            heap = {"self": E.Tok("store"), "namespace": E.Tok("namespace")}
            sig = [l["ty"] for l in s.locals[1:4]]
            args = [E.href("self"), E.href("namespace") if sig[1].startswith("&") else E.Tok("namespace"), E.Tok("policy")]
            try:
                ret, hp, ev = E.run(f, s.path, args, heap, oracle)
                got = E.describe(ret, f)
            except E.Unsupported as e:
                got = "UNSUPPORTED-FORM: %s" % e
            writes = [x for x in log if x[0] != "namespaces.get"]
            gets = [x for x in log if x[0] == "namespaces.get"]
            if not exists:
                ok = got.startswith("Err") and not writes
                spec = "unknown document: error, nothing stored"
            elif wr == "ok":
                ok = got == "Ok(())" and writes == [(DP + ".insert", ["b(namespace)", "postcard(policy)"])]
                spec = "Ok only after storing postcard(policy) under this namespace"
            else:
                ok = got.startswith("Err") and writes == [(DP + ".insert", ["b(namespace)", "postcard(policy)"])]
                spec = "a failed write is reported"
            ok = ok and gets == [("namespaces.get", ["b(namespace)"])]
            ctx.check(ok, "C15.R2", s.path, "set[%s,write-%s%s]" % ("document-exists" if exists else "unknown-document", wr, ",policy-equals-whatever-it-is-compared-with" if same else ""), "returns %s; effects %s; spec: %s" % (got, log, spec), c.sp)
    # reader
    g = f.body("store::fs::Store::get_download_policy")
    ctx.touch(g)
    gets = [(b2, t2) for b2, t2 in g.calls() if (tables.call_table(t2, types) or (None, None))[:2] == (DP, "get")]
    ok = len(gets) == 1 and {origin_summary(o) for o in trace(g, gets[0][1]["a"][1])} == {"arg:namespace"}
    ctx.check(ok, "C15.R2", g.path, "reads-same-table-by-namespace", "download_policy.get(namespace.as_bytes())", g.sp)
    dec = [t2 for _, t2 in g.calls() if t2["f"].get("name") == "from_bytes" and callee_matches(t2, r"postcard")]
    dfl = [t2 for _, t2 in g.calls() if t2["f"].get("name") == "default"]
    ctx.check(len(dec) == 1 and len(dfl) == 1, "C15.R2", g.path, "decode-or-default", "Some(bytes) => postcard::from_bytes, None => DownloadPolicy::default()", g.sp)
    # the reader evaluated (round 12): what it answers is decided by the table row of this namespace read during this very call
    for row in ("absent", "present", "undecodable", "read-fails"):
        rlog = []

        def goracle(kind, name, payload, site, row=row):
            if kind != "call":
                return None
            t, args, it = payload
            names = [it.tokname(a) for a in args]
            if name == "tables" and callee_matches(t, r"store::fs::Store::tables$"):
                return E.Ok(E.Tok("tables"))
            ct = tables.call_table(t, types)
            if ct and ct[1] == "get":
                rlog.append(("%s.get" % ct[0], names[1:]))
                return {"absent": E.Ok(E.NONE), "read-fails": E.Err(E.Tok("storage-error"))}.get(row, E.Ok(E.Some(E.Tok("rowguard"))))
            if ct and ct[1] in tables.WRITE_OPS:
                rlog.append(("%s.%s" % (ct[0], ct[1]), names[1:]))
                return E.Ok(E.NONE)
            if name == "value" and names and names[0].strip("&*") == "rowguard":
                return E.Tok("row-bytes")
            if name == "from_bytes" and callee_matches(t, r"postcard"):
                return E.Err(E.Tok("decode-error")) if row == "undecodable" else E.Ok(E.Tok("decoded(%s)" % names[0].strip("&*")))
            if name == "default" and not args:
                return E.Tok("default-policy")
            if name in ("as_bytes", "to_bytes"):
                return E.Tok("b(%s)" % names[0].strip("&*"))
            return None
        gsig = [l["ty"] for l in g.locals[1:3]]
        try:
            ret, itp = E.run_it(f, g.path, [E.href("self"), E.href("namespace") if gsig[1].startswith("&") else E.Tok("namespace")], {"self": E.Tok("store"), "namespace": E.Tok("namespace")}, goracle)
            got = E.describe(itp.resolve(ret), f)
        except E.Unsupported as e:
            got = "UNSUPPORTED-FORM: %s" % e
        want = {"absent": ("Ok(default-policy)",), "present": ("Ok(decoded(row-bytes))",), "undecodable": ("Err",), "read-fails": ("Err",)}[row]
        ok = (got in want or (want == ("Err",) and got.startswith("Err"))) and rlog == [(DP + ".get", ["b(namespace)"])]
        ctx.check(ok, "C15.R2", g.path, "get[row-%s]" % row, "returns %s; table accesses %s; spec: %s after reading the policy row of this namespace in this call, nothing written" % (got, rlog, want[0]), g.sp)
    d = f.body("<store::DownloadPolicy as std::default::Default>::default")
    ctx.touch(d)
    agg = [s2 for _, _, s2 in d.statements() if s2["k"] == "assign" and s2["r"][0] == "agg" and s2["r"][1][0] == "adt" and s2["r"][1][1] == "store::DownloadPolicy"]
    ok = len(agg) == 1 and agg[0]["r"][1][2] == "EverythingExcept" and any(t2["f"].get("name") == "default" or t2["f"].get("name") == "new" for _, t2 in d.calls())
    ctx.check(ok, "C15.R2", d.path, "default-is-EverythingExcept(empty)", "default policy downloads everything", d.sp)
    # who may write the table
    roots = {"store::fs::Store::set_download_policy", "store::fs::Store::remove_replica"}
    nw = 0
    for b2, bi2, t2, name, op, ro in tables.writes(f, types):
        if name != DP:
            continue
        if b2.path.startswith("store::fs::migrat"):
            continue
        nw += 1
        ctx.check(f.only_reached_from(b2.path, roots), "C15.R2", b2.path, "writer-of-download_policy.%s" % op, "download_policy is written only by set_download_policy and remove_replica (or helpers only they call)", t2["sp"])
    if nw < 2:
        raise mir.AnchorMissing("expected >=2 writes of the download_policy table, found %d" % nw)
    ctx.floor("C15.R2", 13)


def r3(ctx):
    f = ctx.facts
    d = f.body("<store::FilterKind as std::fmt::Display>::fmt")
    fs = f.body("<store::FilterKind as std::str::FromStr>::from_str")
    ctx.touch(d, fs)
    fadt = [v["name"] for v in f.adt("store::FilterKind")["variants"]]
    # tag agreement, read off the evaluated Display output: the kind tag and the encoding tag Display writes for a variant are
    # mapped back to that variant / that payload by FromStr (both evaluated on concrete strings; no pattern of the source is matched)
    from . import feval as E, strs

    def show(var, payload):
        out = []
        ret, hp, ev = E.run(f, d.path, [E.href("self"), E.href("fmt")], {"self": E.variant(f, "store::FilterKind", var, E.Tok(payload)), "fmt": E.Tok("formatter")}, strs.make_oracle(f, out))
        return "".join(out)

    def parse_text(text):
        ret2, hp, ev = E.run(f, fs.path, [strs.S(text)], {}, strs.make_oracle(f, []))
        return E.describe(ret2, f)
    kind_tag = {}
    enc_tags = {}
    for v in fadt:
        try:
            rows = {}
            for payload in ("str:abc", "bytes:ff00"):
                text = show(v, payload)
                parts = text.split(":", 2)
                rows[payload] = (text, parse_text(text))
                if len(parts) == 3:
                    kind_tag.setdefault(v, set()).add(parts[0])
                    enc_tags.setdefault(payload.split(":")[0], set()).add(parts[1])
            ok = all(got == "Ok(%s(%s))" % (v, pl) for pl, (text, got) in rows.items()) and len(kind_tag.get(v, ())) == 1
            det = "Display writes %s; FromStr maps them to %s" % ([t for t, _ in rows.values()], [g for _, g in rows.values()])
        except E.Unsupported as e:
            ok, det = False, "UNSUPPORTED-FORM: %s" % e
        ctx.check(ok, "C15.R3", d.path, "tag-agreement.%s" % v, det, d.sp)
    distinct = len({next(iter(t)) for t in kind_tag.values() if t}) == len(fadt)
    ctx.check(distinct and all(len(t) == 1 for t in enc_tags.values()) and len({next(iter(t)) for t in enc_tags.values()}) == len(enc_tags) == 2, "C15.R3", d.path, "encoding-tag-agreement",
              "kind tags %s, encoding tags %s (one tag per variant / per encoding, all different, each parsed back - see tag-agreement)" % ({k: sorted(v) for k, v in kind_tag.items()}, {k: sorted(v) for k, v in enc_tags.items()}), d.sp)
    # Display and FromStr evaluated (K6' with concrete strings) and composed: parse(display(x)) == x on sample filters
    # (payloads with ':' inside, empty, non-UTF-8), malformed texts are errors
    from . import feval as E, strs
    DISP, FROM = d.path, fs.path
    bad = []
    n = 0
    for var in fadt:
        for payload in ("str:abc", "str:", "str:chat:room:42", "str::", "str:a:", "bytes:ff003a", "bytes:80"):
            n += 1
            out = []
            orc = strs.make_oracle(f, out)
            try:
                ret, hp, ev = E.run(f, DISP, [E.href("self"), E.href("fmt")], {"self": E.variant(f, "store::FilterKind", var, E.Tok(payload)), "fmt": E.Tok("formatter")}, orc)
                text = "".join(out)
                if E.describe(ret, f) != "Ok(())":
                    bad.append("%s(%s): Display returns %s" % (var, payload, E.describe(ret, f)))
                    continue
                ret2, hp, ev = E.run(f, FROM, [strs.S(text)], {}, strs.make_oracle(f, []))
                got = E.describe(ret2, f)
                want = "Ok(%s(%s))" % (var, payload)
                if got != want:
                    bad.append("%s(%s) is written as %r, which parses to %s" % (var, payload, text, got))
            except E.Unsupported as e:
                bad.append("%s(%s): UNSUPPORTED-FORM: %s" % (var, payload, e))
    for text in ("prefix", "prefix:utf8", "bogus:utf8:x", "prefix:b64:x", "exact:hex:zz", ""):
        n += 1
        try:
            ret2, hp, ev = E.run(f, FROM, [strs.S(text)], {}, strs.make_oracle(f, []))
            if not E.describe(ret2, f).startswith("Err"):
                bad.append("malformed %r parses to %s" % (text, E.describe(ret2, f)))
        except E.Unsupported as e:
            bad.append("%r: UNSUPPORTED-FORM: %s" % (text, e))
    ctx.check(not bad, "C15.R3", fs.path, "text-round-trip", "Display then FromStr evaluated on %d samples; deviating: %s; spec: every filter parses back to itself, malformed text is an error" % (n, bad[:4]), fs.sp)
    ctx.floor("C15.R3", 4)


def r4(ctx):
    """the API layer forwards the policy and the document of the request itself and reports the store actor's outcome"""
    from . import apifw
    apifw.check_forwarder(ctx, "C15.R4", "doc_set_download_policy", "SetDownloadPolicyRequest", ["set_download_policy(req.doc_id,req.policy)"], "Ok(SetDownloadPolicyResponse)")
    apifw.check_forwarder(ctx, "C15.R4", "doc_get_download_policy", "GetDownloadPolicyRequest", ["get_download_policy(req.doc_id)"], "Ok(GetDownloadPolicyResponse(result-of-get_download_policy))")
    apifw.check_client(ctx, "C15.R4", "api::Doc::set_download_policy", "SetDownloadPolicyRequest")
    apifw.check_client(ctx, "C15.R4", "api::Doc::get_download_policy", "GetDownloadPolicyRequest")
    ctx.floor("C15.R4", 4)


def r5(ctx):
    """"returned unchanged ... after reopening the store": the file-format migration that runs on open carries the policies"""
    from . import redbmig
    redbmig.check(ctx, "C15.R5", only={"download-policy-1"})
    ctx.floor("C15.R5", 1)


def r6(ctx):
    """policies through the asynchronous handle: the request's policy is the one stored, for the addressed document"""
    from . import actorfw
    actorfw.claim(ctx, "C15.R6", handlers=("SetDownloadPolicy", "GetDownloadPolicy"), clients=("set_download_policy", "get_download_policy"), floor=6)


def r7(ctx):
    """what the engine does with the decision: the content of a remotely inserted entry is fetched or recorded as wanted
    exactly when the event carries the download flag"""
    from . import livefw
    livefw.check_download_selection(ctx, "C15.R7")
    ctx.floor("C15.R7", 6)


def r8(ctx):
    """"once set, is returned unchanged by later reads": an acknowledged policy sits in the shared write transaction until the next
    commit; a later failing request must not drop it (shared with C06.R4)"""
    from . import C06
    C06.share_failing_body(ctx, "C15.R8")


def r9(ctx):
    """"an entry is selected for download exactly when ...": the flag of a remote insert is computed from the policy the store
    holds *now* for this document, on both ingress paths (Replica::insert_remote_entry and the reconciliation callback
    evaluated, = C12.R3: policy-of(this document).matches(entry), nothing memoised in the open replica)"""
    from . import C12
    ctx.share("C15.R9", C12.r3, "C12.R3", keep=lambda k: "remote-insert" in k or "announce" in k, floor=3)

def r10(ctx):
    """"can only be set for an existing document" - and a document that was removed is not one: removing it erases its policy row,
    so that a document re-created under the same id starts with the default policy (= C16.R1 for the policy table)"""
    from . import C16
    C16.r1(ctx, rule="C15.R10", only={"download_policy"})
    ctx.floor("C15.R10", 1)

def r11(ctx):
    """"can only be set for an existing document": a removed and re-created document starts from the default - no per-document memo of
    policies in the store outlives the document (C16.R15)"""
    from . import C16
    C16.mem_state(ctx, "C15.R11")
    ctx.floor("C15.R11", 2)

def run(ctx):
    ctx.run_rule("C15.R1", r1)
    ctx.run_rule("C15.R2", r2)
    ctx.run_rule("C15.R3", r3)
    ctx.run_rule("C15.R4", r4)
    ctx.run_rule("C15.R5", r5)
    ctx.run_rule("C15.R6", r6)
    ctx.run_rule("C15.R7", r7)
    ctx.run_rule("C15.R8", r8)
    ctx.run_rule("C15.R9", r9)
    ctx.run_rule("C15.R10", r10)
    ctx.run_rule("C15.R11", r11)

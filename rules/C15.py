"""C15 — download policies persist and decide downloads exactly as specified."""
import re
from . import mir, tables
from .mir import trace, origin_summary, callee_matches
from .common import find_calls, one_call, call_outcomes, Ensures
from . import paths as P

EXPLANATION = (
    'Decides structural necessary conditions of C15 from MIR: (R1) DownloadPolicy::matches evaluated over both variants '
    'normalises to NothingExcept => exists filter matching, EverythingExcept => forall filters not matching (De Morgan '
    'forms accepted); FilterKind::matches is key.starts_with(prefix) for Prefix (key as receiver) and equality for Exact; '
    "the key is the entry's key; (R2) set_download_policy evaluated on {document exists, not} x {write ok, fails} x {policy"
    ' equal to whatever it is compared with, not}: Ok only after the write, key = namespace argument, value = postcard '
    'encoding of the policy argument; get_download_policy reads the same table by the namespace argument, decodes the '
    'stored bytes and defaults to EverythingExcept([]); the table has no other writer besides remove_replica and '
    "migrations; (R3) FilterKind's Display and FromStr use the same tag set and the same tag<->variant pairing. NOT "
    'decided: text round trip for all byte strings (hex/utf8 codecs trusted).'
)
ASSUMPTIONS = ["postcard encode/decode are inverse (trusted)", "redb tables are identified by their key/value types"]

DP = "download_policy"


def _str_consts_on_path(body, path):
    out = []
    for bi in path.blocks:
        for s in body.blocks[bi]["s"]:
            if s["k"] != "assign" or mir.is_macro(s["x"]):
                continue
            r = s["r"]
            ops = []
            if r[0] == "use":
                ops = [r[1]]
            elif r[0] == "agg":
                ops = r[2]
            for o in ops:
                if o[0] == "const" and "str" in o[1]:
                    out.append(o[1]["str"])
    return out


def r1(ctx):
    f = ctx.facts
    m = f.body("store::DownloadPolicy::matches")
    ctx.touch(m)
    adt = f.adt("store::DownloadPolicy")
    vnames = [v["name"] for v in adt["variants"]]
    ps = P.explore(m)
    rows = {}
    for p in ps:
        d = P.decisions_dict(p)
        vk = [v for k, v in p.decisions if k[0] == "discr" and "self" in k[1]]
        ret = p.ret
        outer_neg = False
        while ret[0] == "expr" and ret[1] == "Not" and len(ret) > 2:
            outer_neg = not outer_neg
            ret = ret[2]
        if len(vk) != 1 or ret[0] != "call":
            ctx.bad("C15.R1", m.path, "form", "path not of the form match self { V => [!]iter.any/all(closure) } (UNSUPPORTED-FORM): %s -> %s" % (P.fmt_decisions(p), p.ret[:2]), m.sp)
            continue
        variant = vnames[vk[0]] if isinstance(vk[0], int) else [x for i, x in enumerate(vnames) if i not in [v for k, v in p.decisions]][0]
        t = ret[2]
        q = ret[1]
        cl = [x for x in t["f"]["tdefs"] if x and "{closure" in x]
        if q not in ("any", "all") or len(cl) != 1:
            ctx.bad("C15.R1", m.path, "form.%s" % variant, "returns %s (UNSUPPORTED-FORM)" % q, t["sp"])
            continue
        cb = f.body(cl[0])
        ctx.touch(cb)
        # closure polarity: returns matches(..) or !matches(..)
        pol = None
        mc = [(bi, ct) for bi, ct in cb.calls() if callee_matches(ct, r"store::FilterKind::matches")]
        if len(mc) == 1:
            ct = mc[0][1]
            if ct["d"]["l"] == 0:
                pol = "+"
            else:
                for bi, si, s in cb.statements():
                    if s["k"] == "assign" and s["p"]["l"] == 0 and s["r"][0] == "un" and s["r"][1] == "Not" and s["r"][2][0] in ("copy", "move") and s["r"][2][1]["l"] == ct["d"]["l"]:
                        pol = "-"
            # the key passed is the entry's key
            ko = trace(cb, ct["a"][1])
            key_ok = all(o.kind == "upvar" and o.data == "key" for o in ko) and bool(ko)
            ctx.check(key_ok, "C15.R1", cb.path, "filter-applied-to-entry-key", "matches(%s)" % [origin_summary(o) for o in ko], ct["sp"])
        if pol is None:
            ctx.bad("C15.R1", cb.path, "closure-form", "closure is not `[!]pattern.matches(key)` (UNSUPPORTED-FORM)", cb.sp)
            continue
        quant = "exists" if q == "any" else "forall"
        if outer_neg:
            # De Morgan: !any(p) = all(!p), !all(p) = any(!p)
            quant = "forall" if quant == "exists" else "exists"
            pol = "-" if pol == "+" else "+"
        rows[variant] = (quant, pol)
    spec = {"NothingExcept": ("exists", "+"), "EverythingExcept": ("forall", "-")}
    for v in spec:
        ctx.check(rows.get(v) == spec[v], "C15.R1", m.path, "semantics.%s" % v, "%s => %s; spec %s" % (v, rows.get(v), spec[v]), m.sp)
    # key = entry.key()
    kl = m.local_by_name("key")
    ok = False
    if kl:
        for o in trace(m, {"l": kl[0], "p": []}, through_calls=False):
            if o.kind == "call" and o.data["f"].get("name") == "key" and {x.data[1] for x in trace(m, o.data["a"][0]) if x.kind == "arg"} == {"entry"}:
                ok = True
    ctx.check(ok, "C15.R1", m.path, "key-is-entry-key", "key = entry.key()", m.sp)
    # FilterKind::matches
    fm = f.body("store::FilterKind::matches")
    ctx.touch(fm)
    fadt = [v["name"] for v in f.adt("store::FilterKind")["variants"]]
    for p in P.explore(fm):
        vk = [v for k, v in p.decisions if k[0] == "discr" and "self" in k[1]]
        variant = fadt[vk[0]] if vk and isinstance(vk[0], int) else "?"
        if p.ret[0] != "call":
            ctx.bad("C15.R1", fm.path, "form.%s" % variant, "UNSUPPORTED-FORM", fm.sp)
            continue
        t = p.ret[2]
        n = p.ret[1]
        a0 = {origin_summary(o) for o in trace(fm, t["a"][0])}
        a1 = {origin_summary(o) for o in trace(fm, t["a"][1])}
        if variant == "Prefix":
            ok = n == "starts_with" and a0 == {"arg:key"} and a1 == {"arg:self"}
            ctx.check(ok, "C15.R1", fm.path, "Prefix=key.starts_with(prefix)", "%s(%s, %s)" % (n, sorted(a0), sorted(a1)), t["sp"])
        elif variant == "Exact":
            ok = n == "eq" and {tuple(sorted(a0)), tuple(sorted(a1))} == {("arg:key",), ("arg:self",)}
            ctx.check(ok, "C15.R1", fm.path, "Exact=equality", "%s(%s, %s)" % (n, sorted(a0), sorted(a1)), t["sp"])
    ctx.floor("C15.R1", 7)


def r2(ctx):
    from . import feval as E
    f = ctx.facts
    types = tables.table_types(f)
    s, c = tables.tx_body(f, "store::fs::Store::set_download_policy", DP)
    ctx.touch(s, c)
    # set_download_policy evaluated (K6') on {document exists, not} x {write ok, fails}; Store::modify runs the given transaction body
    for exists, wr, same in ((1, "ok", 0), (1, "ok", 1), (1, "err", 0), (0, "ok", 0), (0, "ok", 1)):
        if True:
            log = []

            def oracle(kind, name, payload, site, exists=exists, wr=wr, same=same):
                if kind in ("eq", "cmp") and "policy" in str(name) + str(payload):
                    # any comparison of the new policy with another policy (the default, the stored one): both answers are explored
                    return bool(same) if kind == "eq" else (0 if same else 1)
                if kind != "call":
                    return None
                t, args, it = payload
                names = [it.tokname(a) for a in args]
                if callee_matches(t, r"store::fs::Store::modify$"):
                    it.heap.setdefault("tables", E.Tok("tables"))
                    return it.apply(args[1], [E.href("tables")])
                ct = tables.call_table(t, types)
                if ct and ct[1] == "get" and ct[0] == "namespaces":
                    log.append(("namespaces.get", names[1:]))
                    return E.Ok(E.Some(E.Tok("rowguard"))) if exists else E.Ok(E.NONE)
                if ct and ct[1] in tables.WRITE_OPS:
                    log.append(("%s.%s" % (ct[0], ct[1]), names[1:]))
                    return E.Ok(E.NONE) if wr == "ok" else E.Err(E.Tok("storage-error"))
                if name in ("to_stdvec", "to_allocvec", "to_vec") and callee_matches(t, r"postcard"):
                    return E.Ok(E.Tok("postcard(%s)" % names[0]))
                if name in ("as_bytes", "to_bytes"):
                    return E.Tok("b(%s)" % names[0])
                return None
            heap = {"self": E.Tok("store"), "namespace": E.Tok("namespace")}
            sig = [l["ty"] for l in s.locals[1:4]]
            args = [E.href("self"), E.href("namespace") if sig[1].startswith("&") else E.Tok("namespace"), E.Tok("policy")]
            try:
                ret, hp, ev = E.run(f, s.path, args, heap, oracle)
                got = E.describe(ret, f)
            except E.Unsupported as e:
                got = "UNSUPPORTED-FORM: %s" % e
            writes = [x for x in log if x[0] != "namespaces.get"]
            gets = [x for x in log if x[0] == "namespaces.get"]
            if not exists:
                ok = got.startswith("Err") and not writes
                spec = "unknown document: error, nothing stored"
            elif wr == "ok":
                ok = got == "Ok(())" and writes == [(DP + ".insert", ["b(namespace)", "postcard(policy)"])]
                spec = "Ok only after storing postcard(policy) under this namespace"
            else:
                ok = got.startswith("Err") and writes == [(DP + ".insert", ["b(namespace)", "postcard(policy)"])]
                spec = "a failed write is reported"
            ok = ok and gets == [("namespaces.get", ["b(namespace)"])]
            ctx.check(ok, "C15.R2", s.path, "set[%s,write-%s%s]" % ("document-exists" if exists else "unknown-document", wr, ",policy-equals-whatever-it-is-compared-with" if same else ""), "returns %s; effects %s; spec: %s" % (got, log, spec), c.sp)
    # reader
    g = f.body("store::fs::Store::get_download_policy")
    ctx.touch(g)
    gets = [(b2, t2) for b2, t2 in g.calls() if (tables.call_table(t2, types) or (None, None))[:2] == (DP, "get")]
    ok = len(gets) == 1 and {origin_summary(o) for o in trace(g, gets[0][1]["a"][1])} == {"arg:namespace"}
    ctx.check(ok, "C15.R2", g.path, "reads-same-table-by-namespace", "download_policy.get(namespace.as_bytes())", g.sp)
    dec = [t2 for _, t2 in g.calls() if t2["f"].get("name") == "from_bytes" and callee_matches(t2, r"postcard")]
    dfl = [t2 for _, t2 in g.calls() if t2["f"].get("name") == "default"]
    ctx.check(len(dec) == 1 and len(dfl) == 1, "C15.R2", g.path, "decode-or-default", "Some(bytes) => postcard::from_bytes, None => DownloadPolicy::default()", g.sp)
    d = f.body("<store::DownloadPolicy as std::default::Default>::default")
    ctx.touch(d)
    agg = [s2 for _, _, s2 in d.statements() if s2["k"] == "assign" and s2["r"][0] == "agg" and s2["r"][1][0] == "adt" and s2["r"][1][1] == "store::DownloadPolicy"]
    ok = len(agg) == 1 and agg[0]["r"][1][2] == "EverythingExcept" and any(t2["f"].get("name") == "default" or t2["f"].get("name") == "new" for _, t2 in d.calls())
    ctx.check(ok, "C15.R2", d.path, "default-is-EverythingExcept(empty)", "default policy downloads everything", d.sp)
    # who may write the table
    roots = {"store::fs::Store::set_download_policy", "store::fs::Store::remove_replica"}
    nw = 0
    for b2, bi2, t2, name, op, ro in tables.writes(f, types):
        if name != DP:
            continue
        if b2.path.startswith("store::fs::migrat"):
            continue
        nw += 1
        ctx.check(f.only_reached_from(b2.path, roots), "C15.R2", b2.path, "writer-of-download_policy.%s" % op, "download_policy is written only by set_download_policy and remove_replica (or helpers only they call)", t2["sp"])
    if nw < 2:
        raise mir.AnchorMissing("expected >=2 writes of the download_policy table, found %d" % nw)
    ctx.floor("C15.R2", 9)


def r3(ctx):
    f = ctx.facts
    d = f.body("<store::FilterKind as std::fmt::Display>::fmt")
    fs = f.body("<store::FilterKind as std::str::FromStr>::from_str")
    ctx.touch(d, fs)
    fadt = [v["name"] for v in f.adt("store::FilterKind")["variants"]]
    disp = {}
    enc_disp = set()
    for p in P.explore(d):
        vk = [v for k, v in p.decisions if k[0] == "discr" and "self" in k[1]]
        if not vk:
            continue
        variant = fadt[vk[0]] if isinstance(vk[0], int) else "?"
        consts = [c for c in _str_consts_on_path(d, p)]
        tags = [c for c in consts if c in ("prefix", "exact") or (c.isalnum() and len(c) < 12)]
        disp.setdefault(variant, set()).update(tags[:1])
        enc_disp.update(tags[1:2])
    kind_tags = set()
    for v in disp.values():
        kind_tags |= v
    parse = {}
    enc_parse = set()
    for p in P.explore(fs, loop_bound=1):
        if p.ret[0] == "variant" and p.ret[1] == "Ok" and p.ret[2] and p.ret[2][0] == "variant":
            variant = p.ret[2][1]
            for k, v in p.decisions:
                kk, neg = k, False
                while kk[0] == "not":
                    kk, neg = kk[1], not neg
                if kk[0] == "cmp" and kk[1] in ("==", "!="):
                    truth = (bool(v) != neg) if kk[1] == "==" else (bool(v) == neg)
                    if not truth:
                        continue
                    for side in (kk[2], kk[3]):
                        if side.startswith("const:"):
                            tag = side[len("const:"):].strip('"')
                            if tag in kind_tags:
                                parse.setdefault(variant, set()).add(tag)
                            elif tag.isalnum() and len(tag) < 12:
                                enc_parse.add(tag)
    for v in fadt:
        ctx.check(disp.get(v) and disp.get(v) == parse.get(v), "C15.R3", d.path, "tag-agreement.%s" % v,
                  "Display writes %s for %s, FromStr maps %s to it" % (sorted(disp.get(v, [])), v, sorted(parse.get(v, []))), d.sp)
    ctx.check(enc_disp and enc_disp == enc_parse, "C15.R3", d.path, "encoding-tag-agreement", "Display encodings %s, FromStr encodings %s" % (sorted(enc_disp), sorted(enc_parse)), d.sp)
    # Display and FromStr evaluated (K6' with concrete strings) and composed: parse(display(x)) == x on sample filters
    # (payloads with ':' inside, empty, non-UTF-8), malformed texts are errors
    from . import feval as E, strs
    DISP, FROM = d.path, fs.path
    bad = []
    n = 0
    for var in fadt:
        for payload in ("str:abc", "str:", "str:chat:room:42", "str::", "str:a:", "bytes:ff003a", "bytes:80"):
            n += 1
            out = []
            orc = strs.make_oracle(f, out)
            try:
                ret, hp, ev = E.run(f, DISP, [E.href("self"), E.href("fmt")], {"self": E.variant(f, "store::FilterKind", var, E.Tok(payload)), "fmt": E.Tok("formatter")}, orc)
                text = "".join(out)
                if E.describe(ret, f) != "Ok(())":
                    bad.append("%s(%s): Display returns %s" % (var, payload, E.describe(ret, f)))
                    continue
                ret2, hp, ev = E.run(f, FROM, [strs.S(text)], {}, strs.make_oracle(f, []))
                got = E.describe(ret2, f)
                want = "Ok(%s(%s))" % (var, payload)
                if got != want:
                    bad.append("%s(%s) is written as %r, which parses to %s" % (var, payload, text, got))
            except E.Unsupported as e:
                bad.append("%s(%s): UNSUPPORTED-FORM: %s" % (var, payload, e))
    for text in ("prefix", "prefix:utf8", "bogus:utf8:x", "prefix:b64:x", "exact:hex:zz", ""):
        n += 1
        try:
            ret2, hp, ev = E.run(f, FROM, [strs.S(text)], {}, strs.make_oracle(f, []))
            if not E.describe(ret2, f).startswith("Err"):
                bad.append("malformed %r parses to %s" % (text, E.describe(ret2, f)))
        except E.Unsupported as e:
            bad.append("%r: UNSUPPORTED-FORM: %s" % (text, e))
    ctx.check(not bad, "C15.R3", fs.path, "text-round-trip", "Display then FromStr evaluated on %d samples; deviating: %s; spec: every filter parses back to itself, malformed text is an error" % (n, bad[:4]), fs.sp)
    ctx.floor("C15.R3", 4)


def run(ctx):
    ctx.run_rule("C15.R1", r1)
    ctx.run_rule("C15.R2", r2)
    ctx.run_rule("C15.R3", r3)

"""Check orchestration: fact extraction (cached by content hash), rule context, evidence."""
import fcntl
import glob
import hashlib
import json
import os
import re
import shutil
import subprocess
import sys
import time
import traceback
import uuid

from . import mir

VERIF = os.path.dirname(os.path.dirname(os.path.abspath(__file__)))
REPO = os.environ.get("VERIF_REPO", "/repo")
CACHE = os.path.join(VERIF, ".cache")
DRIVER_DIR = os.path.join(VERIF, "mirfacts")
DRIVER = os.path.join(DRIVER_DIR, "target", "release", "mirfacts")

CONFIGS = {
    "default": [],
    "nodefault": ["--no-default-features"],
    "fsrpc": ["--no-default-features", "--features", "fs-store,rpc"],
    "hooks": [],
}
# extra rustc flags per configuration ("hooks" = default features with the verification guard on)
CONFIG_RUSTFLAGS = {"hooks": "--cfg iroh_docs_verif"}
THOROUGH_CFGS = ("nodefault", "fsrpc", "hooks")
WITNESS_PROPS = {"C03", "C06", "C07", "C12"}


def log(msg):
    print(msg, file=sys.stderr, flush=True)


def sysroot():
    return subprocess.check_output(["rustc", "+nightly", "--print", "sysroot"], text=True).strip()


def ensure_driver():
    src = [os.path.join(DRIVER_DIR, "src", "main.rs"), os.path.join(DRIVER_DIR, "Cargo.toml")]
    if os.path.exists(DRIVER) and all(os.path.getmtime(DRIVER) >= os.path.getmtime(s) for s in src):
        return
    log("[engine] building mirfacts driver")
    env = dict(os.environ, CARGO_NET_OFFLINE="true")
    subprocess.check_call(["cargo", "build", "--release", "--offline"], cwd=DRIVER_DIR, env=env,
                          stdout=sys.stderr, stderr=sys.stderr)


def _hash_tree(root, rels):
    h = hashlib.sha256()
    files = []
    for rel in rels:
        p = os.path.join(root, rel)
        if os.path.isdir(p):
            for d, _, fs in os.walk(p):
                for f in fs:
                    files.append(os.path.join(d, f))
        elif os.path.exists(p):
            files.append(p)
    for f in sorted(files):
        h.update(os.path.relpath(f, root).encode())
        h.update(b"\0")
        with open(f, "rb") as fh:
            h.update(fh.read())
        h.update(b"\0")
    return h


def source_hash(cfg, extra_rustflags=""):
    h = _hash_tree(REPO, ["src", "Cargo.toml", "Cargo.lock", "build.rs"])
    with open(DRIVER, "rb") as fh:
        h.update(hashlib.sha256(fh.read()).digest())
    h.update(cfg.encode())
    h.update(extra_rustflags.encode())
    return h.hexdigest()[:24]


def extract(cfg="default", extra_rustflags=""):
    """Return the path of a fact file for /repo's current working tree in configuration `cfg`."""
    ensure_driver()
    extra_rustflags = (CONFIG_RUSTFLAGS.get(cfg, "") + " " + extra_rustflags).strip()
    os.makedirs(os.path.join(CACHE, "facts"), exist_ok=True)
    lock = open(os.path.join(CACHE, "extract-%s.lock" % cfg), "w")
    fcntl.flock(lock, fcntl.LOCK_EX)
    try:
        hsh = source_hash(cfg, extra_rustflags)
        out = os.path.join(CACHE, "facts", "%s-%s.jsonl" % (cfg, hsh))
        if os.path.exists(out):
            return out, hsh, 0.0, True
        t0 = time.time()
        target = os.path.join(CACHE, "target-%s" % cfg)
        os.makedirs(target, exist_ok=True)
        # cargo's freshness cache would silently skip the wrapper: drop the crate's fingerprints
        for d in glob.glob(os.path.join(target, "debug", ".fingerprint", "iroh-docs-*")):
            shutil.rmtree(d, ignore_errors=True)
        tmpdir = os.path.join(CACHE, "facts", "tmp-%s" % uuid.uuid4().hex)
        os.makedirs(tmpdir)
        nonce = uuid.uuid4().hex
        first = os.path.join(tmpdir, "first.txt")
        try:
            stolen_prev = None
            for attempt in range(4):
                for f in glob.glob(os.path.join(tmpdir, "*.jsonl")):
                    os.remove(f)
                env = dict(os.environ)
                env.update({
                    "LD_LIBRARY_PATH": sysroot() + "/lib",
                    "RUSTFLAGS": ("-Awarnings " + extra_rustflags).strip(),
                    "RUSTC_WORKSPACE_WRAPPER": DRIVER,
                    "CARGO_TARGET_DIR": target,
                    "CARGO_INCREMENTAL": "0",
                    "CARGO_NET_OFFLINE": "true",
                    "MIRFACTS_OUT": tmpdir,
                    "MIRFACTS_NONCE": nonce,
                    "MIRFACTS_CRATES": "iroh_docs",
                })
                if os.path.exists(first):
                    env["MIRFACTS_FIRST"] = first
                cmd = ["cargo", "+nightly", "check", "--offline", "--lib"] + CONFIGS[cfg]
                p = subprocess.run(cmd, cwd=REPO, env=env, stdout=subprocess.PIPE, stderr=subprocess.STDOUT, text=True)
                if p.returncode != 0:
                    log(p.stdout[-6000:])
                    raise RuntimeError("fact extraction failed: cargo +nightly check exited %d" % p.returncode)
                fs = glob.glob(os.path.join(tmpdir, "iroh_docs.*.jsonl"))
                if len(fs) != 1:
                    raise RuntimeError("fact extraction produced %d fact files (wrapper skipped?)" % len(fs))
                stolen = None
                ok_nonce = False
                with open(fs[0]) as fh:
                    for line in fh:
                        if line.startswith('{"t":"meta"'):
                            ok_nonce = json.loads(line)["nonce"] == nonce
                        elif line.startswith('{"t":"stolen"'):
                            stolen = json.loads(line)["bodies"]
                            break
                if not ok_nonce:
                    raise RuntimeError("fact file does not carry this run's nonce")
                if not stolen or stolen == stolen_prev:
                    os.replace(fs[0], out)
                    break
                # some bodies were stolen before they could be read: rerun, reading them first
                stolen_prev = stolen
                with open(first, "a") as fh:
                    fh.write("\n".join(stolen) + "\n")
                for d in glob.glob(os.path.join(target, "debug", ".fingerprint", "iroh-docs-*")):
                    shutil.rmtree(d, ignore_errors=True)
            else:
                os.replace(fs[0], out)
        finally:
            shutil.rmtree(tmpdir, ignore_errors=True)
        # keep the cache small: drop fact files older than the newest 12
        allf = sorted(glob.glob(os.path.join(CACHE, "facts", "*.jsonl")), key=os.path.getmtime)
        for f in allf[:-12]:
            try:
                os.remove(f)
            except OSError:
                pass
        return out, hsh, time.time() - t0, False
    finally:
        fcntl.flock(lock, fcntl.LOCK_UN)
        lock.close()


def failed_closed(o):
    """an obligation of a (shared) rule that did not decide anything: unsupported form, missing anchor, internal error, count"""
    return o["status"] != "holds" and (str(o.get("detail", "")).startswith("UNSUPPORTED-FORM") or any(x in o["key"] for x in ("ANCHOR-MISSING", "INTERNAL-ERROR", "INSTANCE-COUNT")))


# ---------------------------------------------------------------------------- rule context

class Ctx:
    def __init__(self, prop, tier, facts, cfg="default"):
        self.prop = prop
        self.tier = tier
        self.facts = facts
        self.cfg = cfg
        self.obligations = []   # dicts: rule, key, status, detail, loc
        self.violations = []
        self.notes = []
        self.analysed_bodies = set()
        self.rules_run = []
        self.floors = {}

    def touch(self, *bodies):
        for b in bodies:
            self.analysed_bodies.add(b.path if hasattr(b, "path") else b)

    def ok(self, rule, item, role, detail="", loc=None):
        key = "%s @ %s # %s" % (rule, item, role)
        self.obligations.append({"rule": rule, "key": key, "status": "holds", "detail": detail, "loc": loc, "cfg": self.cfg})

    def bad(self, rule, item, role, detail="", loc=None):
        key = "%s @ %s # %s" % (rule, item, role)
        o = {"rule": rule, "key": key, "status": "VIOLATED", "detail": detail, "loc": loc, "cfg": self.cfg}
        self.obligations.append(o)
        self.violations.append(o)

    def check(self, cond, rule, item, role, detail="", loc=None, bad_detail=None):
        if cond:
            self.ok(rule, item, role, detail, loc)
        else:
            self.bad(rule, item, role, bad_detail or detail, loc)
        return cond

    def note(self, msg):
        self.notes.append(msg)

    def floor(self, rule, n):
        """declare the minimum number of obligations rule `rule` must have produced"""
        self.floors[rule] = n

    def run_rule(self, rule, fn):
        """run one rule function; AnchorMissing or an internal error fails the rule closed"""
        self.rules_run.append(rule)
        try:
            fn(self)
        except mir.AnchorMissing as e:
            self.bad(rule, "ANCHOR-MISSING", str(e), "the item this rule is anchored in was not found; the rule fails closed")
        except Exception as e:  # an analysis bug must not pass silently
            tb = traceback.format_exc(limit=6)
            self.bad(rule, "INTERNAL-ERROR", "%s: %s" % (type(e).__name__, e), tb)

    def share(self, rule, fn, src_rule, keep=None, floor=1):
        """run a sibling property's rule function and import its obligations under this property's rule id (the clause is a
        necessary condition of both properties); `keep` filters by obligation key"""
        sub = type(self)(self.prop, self.tier, self.facts, self.cfg)
        try:
            fn(sub)
        except mir.AnchorMissing as e:
            sub.bad(src_rule, "ANCHOR-MISSING", str(e), "the item this rule is anchored in was not found; the rule fails closed")
        n = 0
        for o in sub.obligations:
            failed_closed = o["status"] != "holds" and (str(o.get("detail", "")).startswith("UNSUPPORTED-FORM") or any(x in o["key"] for x in ("ANCHOR-MISSING", "INTERNAL-ERROR", "INSTANCE-COUNT")))
            if keep is not None and not keep(o["key"]) and not failed_closed:
                continue    # (an obligation of the sibling rule that failed closed is never filtered away: its key may differ from
                            # the keys the filter names - C15-13 was dropped this way)
            o = dict(o)
            o["key"] = re.sub(r"^C\d\d\.R\w+", rule, o["key"])
            o["rule"] = rule
            self.obligations.append(o)
            n += 1
            if o["status"] != "holds":
                self.violations.append(o)
        self.analysed_bodies |= sub.analysed_bodies
        self.floor(rule, floor)

    def finish_floors(self):
        counts = {}
        for o in self.obligations:
            counts[o["rule"]] = counts.get(o["rule"], 0) + 1
        for rule, n in self.floors.items():
            got = counts.get(rule, 0)
            if got < n:
                self.bad(rule, "INSTANCE-COUNT", "expected>=%d" % n,
                         "rule produced %d obligations, fewer than the %d confirmed by hand: it would pass vacuously" % (got, n))


def run_witness():
    """compile-fail witnesses (nightly doctests): the crate-internal entry points are unreachable
    from outside the crate. Each compile_fail block has a compiling twin."""
    wdir = os.path.join(VERIF, "witness")
    t0 = time.time()
    shutil.copyfile(os.path.join(REPO, "Cargo.lock"), os.path.join(wdir, "Cargo.lock"))
    env = dict(os.environ, CARGO_NET_OFFLINE="true")
    cmd = ["cargo", "+nightly", "test", "--doc", "--offline"]
    p = subprocess.run(cmd, cwd=wdir, env=env, stdout=subprocess.PIPE, stderr=subprocess.STDOUT, text=True)
    import re as _re
    obligations = []
    passed = failed = 0
    for m in _re.finditer(r"^test (src/lib.rs - (\w+) \(line \d+\)(?: - compile fail)?) \.\.\. (\w+)", p.stdout, flags=_re.M):
        name, item, res = m.group(1), m.group(2), m.group(3)
        kind = "compile_fail" if "compile fail" in name else "twin"
        ok = res == "ok"
        passed += ok
        failed += (not ok)
        obligations.append({"rule": "WITNESS", "key": "WITNESS @ %s # %s" % (item, kind), "status": "holds" if ok else "VIOLATED",
                            "detail": "doctest %s: %s" % (name, res), "loc": "witness/src/lib.rs", "cfg": "witness"})
    if p.returncode != 0 and not failed:
        obligations.append({"rule": "WITNESS", "key": "WITNESS @ build # doctests", "status": "VIOLATED", "detail": p.stdout[-1500:], "loc": "witness/", "cfg": "witness"})
    if passed + failed < 10 and p.returncode == 0:
        obligations.append({"rule": "WITNESS", "key": "WITNESS @ INSTANCE-COUNT # expected>=10", "status": "VIOLATED", "detail": "only %d doctests ran" % (passed + failed), "loc": "witness/", "cfg": "witness"})
    return {"cmd": "cd witness && " + " ".join(cmd), "passed": passed, "failed": failed, "wall_s": round(time.time() - t0, 1), "obligations": obligations}


def run_selftest(prop):
    """seeded-variant self-test for one property (informational: never changes the verdict)"""
    t0 = time.time()
    sys.path.insert(0, os.path.join(VERIF, "selftest"))
    try:
        import variants
        ids = [v["id"] for v in variants.V if v["prop"] == prop]
    except Exception as e:  # pragma: no cover
        return {"error": str(e)}
    if not ids:
        return {"variants": 0}
    env = dict(os.environ)
    env.pop("VERIF_EVIDENCE_DIR", None)
    p = subprocess.run([sys.executable, os.path.join(VERIF, "selftest", "run.py"), "--only", ",".join(ids)], cwd=VERIF, env=env,
                       stdout=subprocess.PIPE, stderr=subprocess.STDOUT, text=True)
    rows = []
    for line in p.stdout.splitlines():
        parts = line.split(None, 3)
        if len(parts) >= 3 and parts[0] in ids:
            rows.append({"id": parts[0], "status": parts[2] if parts[2] != "STALE" else "stale", "note": parts[3][:120] if len(parts) > 3 else ""})
    summ = {}
    for r in rows:
        summ[r["status"]] = summ.get(r["status"], 0) + 1
    return {"variants": len(ids), "summary": summ, "rows": rows, "wall_s": round(time.time() - t0, 1),
            "note": "informational: each variant is applied to a scratch worktree of /repo and re-analysed; it never changes this check's verdict"}


def load_known_findings():
    path = os.path.join(VERIF, "known_findings.jsonl")
    known = {}
    fixed = []
    if os.path.exists(path):
        for line in open(path):
            line = line.strip()
            if not line or line.startswith("#"):
                continue
            if line.startswith("fixed:"):
                fixed.append(line)
                continue
            r = json.loads(line)
            if r.get("status") == "known":
                known[(r["property"], r["key"])] = r
            else:
                fixed.append(r)
    return known, fixed


def run_check(prop, tier, module, explanation, assumptions, level="other", extra_cfgs=()):
    """Drive one property check. `module.run(ctx)` registers obligations."""
    t0 = time.time()
    seed = int(os.environ.get("VERIF_SEED", "0") or 0)
    evdir = os.environ.get("VERIF_EVIDENCE_DIR") or os.path.join(VERIF, "evidence")
    evidence_path = os.path.join(evdir, "%s.json" % prop)
    os.makedirs(os.path.dirname(evidence_path), exist_ok=True)
    cfgs = ["default"] + (list(extra_cfgs) if tier == "thorough" else [])
    all_obl = []
    all_viol = []
    notes = []
    fact_info = []
    bodies_total = 0
    analysed = set()
    rules_run = []
    for cfg in cfgs:
        path, hsh, secs, cached = extract(cfg)
        facts = mir.Facts(path)
        bodies_total = max(bodies_total, len(facts.bodies))
        fact_info.append({"cfg": cfg, "hash": hsh, "extract_s": round(secs, 2), "cached": cached,
                          "bodies": len(facts.bodies), "stolen": len(facts.stolen),
                          "features": facts.meta.get("features") if facts.meta else None})
        ctx = Ctx(prop, tier, facts, cfg)
        if facts.stolen:
            ctx.note("bodies not readable in this run (stolen): %d" % len(facts.stolen))
        module.run(ctx)
        ctx.finish_floors()
        all_obl += ctx.obligations
        all_viol += ctx.violations
        notes += ctx.notes
        analysed |= ctx.analysed_bodies
        from . import feval as _feval
        analysed |= _feval.EVALUATED_BODIES
        rules_run = ctx.rules_run
    extra = {}
    if tier == "thorough":
        if prop in WITNESS_PROPS:
            w = run_witness()
            extra["witness"] = {k: w[k] for k in ("cmd", "passed", "failed", "wall_s")}
            for o in w["obligations"]:
                all_obl.append(o)
                if o["status"] != "holds":
                    all_viol.append(o)
        if os.environ.get("VERIF_SELFTEST", "1") != "0":
            extra["selftest"] = run_selftest(prop)

    known, _fixed = load_known_findings()
    new_viol = []
    seen_keys = set()
    for v in all_viol:
        k = (prop, v["key"])
        if k in seen_keys:
            continue
        seen_keys.add(k)
        if k in known:
            print("KNOWN-FINDING: property=%s %s — %s" % (prop, v["key"], known[k].get("what", "")))
        else:
            new_viol.append(v)

    vdir = os.path.join(evdir, "violations")
    os.makedirs(vdir, exist_ok=True)
    for f in glob.glob(os.path.join(vdir, "%s-*.json" % prop)):
        os.remove(f)
    for i, v in enumerate(new_viol):
        rp = os.path.join(vdir, "%s-%d.json" % (prop, i))
        with open(rp, "w") as fh:
            json.dump({"property": prop, "violation": v, "repo": REPO, "facts": fact_info}, fh, indent=1)
        print("%s: %s\n    %s\n    at %s [%s]" % (v["rule"], v["key"], v["detail"], v.get("loc"), v.get("cfg")))
        print("VIOLATION property=%s replay=%s" % (prop, rp))

    distinct = len({o["key"] for o in all_obl})
    holds = [o for o in all_obl if o["status"] == "holds"]
    samples = [{"key": o["key"], "status": o["status"], "loc": o["loc"], "detail": o["detail"][:300]} for o in (all_viol[:6] + holds[:14])]
    ev = {
        "property_id": prop,
        "tier": tier,
        "seed": seed,
        "level": level,
        "coverage": {
            "explanation": explanation,
            "obligations": len(all_obl),
            "discharged": len(holds),
            "evaluations": len(all_obl),
            "distinct_nontrivial": distinct,
            "rule": "one obligation per (rule, item, role) instance found in the MIR of /repo's working tree; "
                    "an instance is non-trivial when it names a concrete construct (call site, comparison, field, table) "
                    "that was evaluated; distinct = distinct keys",
            "samples": samples,
            "rules_run": rules_run,
            "bodies_in_crate": bodies_total,
            "bodies_analysed": sorted(analysed),
            "fact_files": fact_info,
            "known_findings_matched": [v["key"] for v in all_viol if (prop, v["key"]) in known],
            "exhaustive": False,
            "checker_cmd": "./check %s --tier %s" % (prop, tier),
            "trusted_base": ["rustc type checking and MIR construction (mir_built)", "mirfacts driver", "rules/*.py"],
        },
        "assumptions": assumptions,
        "wall_s": round(time.time() - t0, 3),
        "violations": len(new_viol),
    }
    ev["coverage"].update(extra)
    if notes:
        ev["coverage"]["notes"] = notes
    with open(evidence_path, "w") as fh:
        json.dump(ev, fh, indent=1)
    print("[%s] tier=%s obligations=%d holds=%d violated=%d (known=%d) bodies_analysed=%d wall=%.1fs" % (
        prop, tier, len(all_obl), len(holds), len(all_viol), len([v for v in all_viol if (prop, v["key"]) in known]), len(analysed), time.time() - t0))
    return 1 if new_viol else 0

#!/usr/bin/env python3
"""Pretty-printer for mirfacts bodies (debugging aid, not a check)."""
import json, sys, glob

def place(p, body=None):
    s = "_%d" % p["l"]
    for pr in p["p"]:
        k = pr[0]
        if k == "deref": s = "(*%s)" % s
        elif k == "field": s = "%s.%s" % (s, pr[2] if pr[2] is not None else pr[1])
        elif k == "downcast": s = "(%s as %s)" % (s, pr[2])
        elif k == "index": s = "%s[_%d]" % (s, pr[1])
        elif k == "cindex": s = "%s[%s%d]" % (s, "-" if pr[3] else "", pr[1])
        elif k == "subslice": s = "%s[%d..%s%d]" % (s, pr[1], "-" if pr[3] else "", pr[2])
        else: s = "%s<%s>" % (s, pr[1])
    return s

def operand(o):
    if o[0] in ("copy", "move"):
        return ("move " if o[0] == "move" else "") + place(o[1])
    if o[0] == "const":
        c = o[1]
        if "fn_full" in c: return "fn " + c["fn_full"]
        if "val" in c: return "const %s%s" % (c["val"], (" (" + c["def"] + ")") if "def" in c else "")
        if "str" in c: return "const %r" % c["str"]
        if "def" in c: return "const " + c["def"]
        return "const " + c["repr"]
    return str(o)

def rvalue(r):
    k = r[0]
    if k == "use": return operand(r[1])
    if k == "ref": return "&%s %s" % (r[1], place(r[2]))
    if k in ("rawptr", "cfd", "discr", "len"): return "%s(%s)" % (k, place(r[1]))
    if k == "bin": return "%s(%s, %s)" % (r[1], operand(r[2]), operand(r[3]))
    if k == "un": return "%s(%s)" % (r[1], operand(r[2]))
    if k == "cast": return "%s as %s [%s]" % (operand(r[2]), r[3], r[1])
    if k == "agg":
        kind = r[1]
        ops = ", ".join(operand(o) for o in r[2])
        if kind[0] == "adt": return "%s::%s{%s}" % (kind[1], kind[2], ops)
        if kind[0] in ("closure", "coroutine", "coroutine_closure"): return "%s %s[%s]" % (kind[0], kind[1], ops)
        return "%s(%s)" % (kind[0], ops)
    if k == "repeat": return "[%s; _]" % operand(r[1])
    return str(r)

def callee(f):
    if f.get("indirect"): return "indirect " + operand(f["op"])
    s = f["full"]
    if "res_full" in f and f["res_full"] != f["full"]: s += "  => " + f["res_full"]
    return s

def term(t):
    k = t["k"]
    if k == "goto": return "goto bb%d" % t["t"]
    if k == "switch": return "switch %s [%s, otherwise: bb%d]" % (operand(t["d"]), ", ".join("%d: bb%d" % (v, b) for v, b in t["v"]), t["o"])
    if k == "call": return "%s = %s(%s) -> bb%s unwind %s" % (place(t["d"]), callee(t["f"]), ", ".join(operand(a) for a in t["a"]), t["t"], t["u"])
    if k == "assert": return "assert(%s == %s, %s) -> bb%d" % (operand(t["c"]), t["e"], t["m"], t["t"])
    if k == "drop": return "drop(%s) -> bb%d unwind %s" % (place(t["p"]), t["t"], t["u"])
    if k == "yield": return "yield %s -> bb%d (resume arg %s) drop %s" % (operand(t["v"]), t["t"], place(t["p"]), t["drop"])
    if k == "falseedge": return "falseEdge -> bb%d (imaginary bb%d)" % (t["t"], t["i"])
    if k == "falseunwind": return "falseUnwind -> bb%d" % t["t"]
    return k

def show(body, noexp=False):
    print("fn %s [%s] parent=%s argc=%d  @%s" % (body["path"], body["kind"], body.get("parent"), body["argc"], body["sp"]))
    names = {}
    for d in body["debug"]:
        print("  debug %s => %s" % (d["name"], place(d["place"])))
    for i, l in enumerate(body["locals"]):
        print("  let _%d: %s" % (i, l["ty"]))
    for i, b in enumerate(body["blocks"]):
        print("  bb%d%s:" % (i, " (cleanup)" if b["c"] else ""))
        for s in b["s"]:
            x = (" {%s}" % s["x"]) if s["x"] else ""
            if noexp and s["x"] and "m:" in s["x"]: continue
            if s["k"] == "assign":
                print("    %s = %s   // %s%s" % (place(s["p"]), rvalue(s["r"]), s["sp"].split("/")[-1], x))
            else:
                print("    %s %s %s" % (s["k"], place(s["p"]), s.get("v")))
        t = b["t"]
        x = (" {%s}" % t["x"]) if t["x"] else ""
        print("    %s   // %s%s" % (term(t), t["sp"].split("/")[-1], x))

if __name__ == "__main__":
    f = sys.argv[1]
    want = sys.argv[2]
    for l in open(f):
        if '"t":"body"' not in l[:20]: continue
        r = json.loads(l)
        if r["path"] == want or (want.endswith("*") and r["path"].startswith(want[:-1])):
            show(r)

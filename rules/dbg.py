"""debug helper: load the facts of /repo's current tree (default cfg)"""
from . import engine, mir


def load(cfg="default"):
    path = engine.extract(cfg)[0]
    return mir.Facts(path)

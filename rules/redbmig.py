"""The file-format migration (store::fs::migrate_redb_v2_tuples::run: stores written by iroh-docs 0.94..=0.98 are copied
table by table into a fresh file on open) evaluated (K6'): the old database holds one row in each table of the current
format (the set is derived from the table constants of store::fs::tables); every such row must be inserted into the table
of the same name in the new file, and the files are swapped only after the commit."""
import re
from . import mir

RUN = "store::fs::migrate_redb_v2_tuples::run"


def current_tables(f):
    """[(name, is_multimap)] of the table constants in store::fs::tables, names read from their evaluated initialisers"""
    from . import feval as E
    out = []
    for p, c in sorted(f.consts.items()):
        if not p.startswith("store::fs::tables::") or "TableDefinition" not in c.get("ty", ""):
            continue
        name = None
        if p in f.bodies:
            try:
                v = E.run(f, p, [], {})[0]
                m = re.search(r"str:([A-Za-z0-9_\-]+)", E.describe(v, f))
                name = m.group(1) if m else None
            except E.Unsupported:
                name = None
        if name is None:
            raise mir.AnchorMissing("cannot read the table name of %s" % p)
        out.append((name, "MultimapTableDefinition" in c["ty"]))
    if len(out) < 8:
        raise mir.AnchorMissing("expected the 8 table constants of store::fs::tables, found %d" % len(out))
    return out


def evaluate(f, present_normal, present_multi):
    from . import feval as E, coll, strs
    C = coll.Collections(f)
    base = strs.make_oracle(f, [])
    log = []

    def defname(tok):
        m = re.search(r"str:([A-Za-z0-9_\-]+)", tok)
        return m.group(1) if m else None

    def oracle(kind, name, payload, site):
        if kind != "call":
            return None
        t, args, it = payload
        full = (t["f"].get("full") or "") + (t["f"].get("path") or "")
        names = [it.tokname(a).strip("&*") for a in args]
        if name == "parent":
            return E.Some(E.Tok("dir"))
        if name == "with_prefix_in":
            return E.Ok(E.Tok("tmpfile"))
        if name == "into_temp_path":
            return E.Tok("target")
        if name in ("display", "to_owned", "into_os_string", "into", "to_path_buf", "as_os_str", "with_extension") and names:
            return E.Tok("%s(%s)" % (name, names[0]))
        if name == "push" and "OsString" in full:
            return E.UNIT
        if name == "deref":
            return args[0]
        if name in ("open", "create") and "Database" in full:
            return E.Ok(E.Tok("old-db" if name == "open" else "new-db"))
        if name == "begin_read":
            return E.Ok(E.Tok("rtx"))
        if name == "begin_write":
            return E.Ok(E.Tok("wtx"))
        if name in ("list_tables", "list_multimap_tables"):
            # the old file (read transaction) holds the tables; the new file is fresh: asking *it* lists nothing
            src = names[0] if names else ""
            if src != "rtx":
                log.append(("listed-the-new-file", name, src))
                return E.Ok(coll.seq("iter", []))
            return E.Ok(coll.seq("iter", [E.Tok("handle:" + n) for n in (present_normal if name == "list_tables" else present_multi)]))       # redb: list_tables = normal tables only
        if name == "name" and names:
            if names[0].startswith("handle:"):
                return E.Tok("str:" + names[0][7:])
            d = defname(names[0])
            if d:
                return E.Tok("str:" + d)
        if name == "contains" and len(args) == 2:
            s_ = it.resolve(args[0])
            if coll.is_seq(s_):
                return E.Int(1 if names[1] in [it.tokname(x) for x in s_[2]] else 0)
        if name in ("open_table", "open_multimap_table") and len(names) > 1:
            d = defname(names[1])
            which = "old" if names[0] == "rtx" else "new"
            if which == "old" and d not in (present_normal if name == "open_table" else present_multi):
                return E.Err(E.Tok("table-does-not-exist(%s)" % d))
            return E.Ok(E.Tok("%s:%s:%s" % ("table" if name == "open_table" else "mtable", which, d)))
        if name in ("iter", "range") and names and names[0].startswith("table:old:"):
            n = names[0][10:]
            return E.Ok(coll.seq("iter", [E.Ok(("tuple", [E.Tok("k(%s)" % n), E.Tok("v(%s)" % n)]))]))
        if name in ("iter", "range") and names and names[0].startswith("mtable:old:"):
            n = names[0][11:]
            return E.Ok(coll.seq("iter", [E.Ok(("tuple", [E.Tok("k(%s)" % n), coll.seq("iter", [E.Ok(E.Tok("v(%s)" % n))])]))]))
        if name == "value" and names:
            return E.Tok("val(%s)" % names[0])
        if name == "insert" and names and (names[0].startswith("table:new:") or names[0].startswith("mtable:new:")):
            log.append(("insert", names[0].split(":", 2)[2], names[1:]))
            return E.Ok(E.NONE)
        if name == "commit":
            log.append(("commit", names[0] if names else ""))
            return E.Ok(E.UNIT)
        if name == "drop":
            return E.UNIT
        if name in ("rename", "persist_noclobber", "persist"):
            log.append(("swap", name))
            return E.Ok(E.UNIT)
        r = C.handle(kind, name, payload, site)
        if r is not None:
            return r
        return base(kind, name, payload, site)
    try:
        inl = tuple(p_ for p_ in f.bodies if p_.startswith("store::fs::migrate_redb_v2_tuples::") and not f.bodies[p_].rec.get("derived"))
        ret, itp = E.run_it(f, RUN, [E.Tok("source")], {}, oracle, inline=inl)
        return E.describe(ret, f), log
    except E.Unsupported as e:
        return "UNSUPPORTED-FORM: %s" % e, log


def check(ctx, rule, only=None, extras=False):
    f = ctx.facts
    if RUN not in f.bodies:
        # built without the `redb-v2-migration` feature: the store refuses such files instead of migrating them
        ctx.ok(rule, RUN, "file-format-migration-not-compiled-in", "feature redb-v2-migration is off in this configuration: old files are rejected, nothing is migrated", None)
        return
    b = f.body(RUN)
    ctx.touch(*f.family(RUN))
    tabs = current_tables(f)
    normal = [n for n, m in tabs if not m]
    multi = [n for n, m in tabs if m]
    got, log = evaluate(f, normal, multi)
    inserted = {}
    for e in log:
        if e[0] == "insert":
            inserted.setdefault(e[1], []).append(e[2])
    for n, m in tabs:
        if only and n not in only:
            continue
        rows = inserted.get(n, [])
        ok = got == "Ok(())" and rows == [["val(k(%s))" % n, "val(v(%s))" % n]]
        ctx.check(ok, rule, RUN, "file-format-migration-carries[%s]" % n,
                  "old file with one row in each of %s: run returns %s, rows inserted into `%s` of the new file: %s (spec: that table's row - a table that is not copied is empty after the store was reopened)"
                  % (sorted(normal + multi), got, n, rows), b.sp)
    if extras:
        order = [e[0] for e in log if e[0] in ("commit", "swap")]
        ctx.check(got == "Ok(())" and order[:1] == ["commit"] and "swap" in order, rule, RUN, "files-swapped-after-commit", "commit / swap order: %s" % order, b.sp)
        got2, log2 = evaluate(f, [n for n in normal if n.startswith("records") or n.startswith("latest")], [])
        ctx.check(got2 == "Ok(())", rule, RUN, "tables-absent-from-the-old-file-are-skipped", "old file holding only the record tables: run returns %s" % got2, b.sp)
        # round 13 (C18-13): an old file that lacks the head table and / or the key-ordered index - "as databases written by earlier
        # versions do" - is converted all the same: the records are carried, the start-up migrations rebuild the rest afterwards
        for label, present in (("no-heads-no-index", [n for n in normal if not n.startswith("latest") and not n.startswith("records-by-key")]),
                               ("no-index", [n for n in normal if not n.startswith("records-by-key")]),
                               ("no-heads", [n for n in normal if not n.startswith("latest")])):
            got3, log3 = evaluate(f, present, multi)
            rec = [e[2] for e in log3 if e[0] == "insert" and e[1] == "records-1"]
            ctx.check(got3 == "Ok(())" and rec == [["val(k(records-1))", "val(v(records-1))"]], rule, RUN, "old-file-without-derived-tables[%s]" % label,
                      "old file holding %s: run returns %s, records carried: %s; spec: Ok, the records row copied" % (sorted(present + multi), got3, rec), b.sp)

"""C06 — flushed data survives; a crash never exposes a half-applied write."""
import re
from . import mir, tables
from .mir import trace, origin_summary, callee_matches
from .common import find_calls, one_call, call_outcomes, Ensures
from . import paths as P

EXPLANATION = (
    "Decides structural necessary conditions of C06 from MIR: (R1) atomicity of each logical store operation against the "
    "age-based commit: with bottom-up effect summaries (Mutate = writes a table inside Store::modify; MayCommit = reaches "
    "TransactionAndTables::commit, computed from the call graph), no MayCommit call is reachable "
    "after a Mutate call inside one operation (ranger::Store::put bound to StoreInstance, remove_replica, import_namespace, "
    "register_useful_peer, set_download_policy, import_author, delete_author); (R2) every table write happens inside a closure "
    "passed to Store::modify or in a migration, commit is called only by the transaction managers, durability is never lowered; "
    "(R3) Drop for Store flushes, the actor's FlushStore replies with flush's result, the age check compares elapsed time with "
    "MAX_COMMIT_DELAY; (R4) the shared-transaction manager (flush, snapshot, snapshot_owned, tables, modify) evaluated as a "
    "transition table over {None, Read, Write} x {fresh, aged} x {commit ok, fails} x {body ok, fails}: an open write transaction "
    "is committed - never dropped - before it is replaced, a failed commit is reported, a failing body leaves the shared "
    "transaction open. NOT decided: redb's recovery, enumeration of crash instants."
)
ASSUMPTIONS = ["redb write transactions are atomic and durable at commit (trusted)", "an uncommitted transaction is invisible after a crash"]


SI = "<store::fs::StoreInstance<'a> as ranger::Store<sync::SignedEntry>>::"
# MayCommit is computed from the call graph (a body that reaches TransactionAndTables::commit); no function is assumed to commit
COMMITTERS = set()


EXPLANATION += ' (R5) no storage-layer result is discarded anywhere in the crate (one tolerated site, named, doubles as the positive example).'
EXPLANATION += " Round 9: (R4) the destructor of Store evaluated on every state of the shared transaction: an open write transaction is committed before the store goes away; (R3) the age check only has to relate elapsed() with MAX_COMMIT_DELAY - the outcome per age is R4's."
EXPLANATION += ' (R6, round 12) what opening a store may rewrite: exactly the four known start-up migrations run (C18.R1), each skips and writes nothing unless the table it rebuilds is empty (C18.R4), the capability migrations are no-ops on a current database (C18.R6).'


class Effects:
    def __init__(self, f):
        self.f = f
        self.types = tables.table_types(f)
        self.memo = {}

    def bind(self, t):
        """callee body paths of a call, binding Self-calls of ranger::Store to StoreInstance"""
        out = set()
        for p in mir.callee_paths(t):
            if p in self.f.bodies:
                out.add(p)
            if p.startswith("ranger::Store::"):
                q = SI + p.split("::")[-1]
                if q in self.f.bodies:
                    out.add(q)
                if p in self.f.bodies:
                    out.add(p)
        for d in t["f"].get("tdefs", []) or []:
            if d and d in self.f.bodies:
                out.add(d)
        return out

    MANAGERS = ("tables", "modify", "flush", "snapshot", "snapshot_owned")

    def manager_may_commit(self, fn):
        """whether a transaction-manager entry point can commit, decided by evaluating it on every state of the shared
        transaction (the R4 cells) instead of by reachability: a helper shared by tables() and modify() that commits only on
        tables()'s behalf does not make modify() a commit point. Not evaluable => assume it may."""
        key = ("mgr", fn)
        if key not in self.memo:
            may = False
            for state in ("None", "Read", "Write"):
                for old in (False, True):
                    try:
                        got, fin, log = eval_txmgr(self.f, fn, state, old, True)
                    except Exception:
                        got, log = "UNSUPPORTED", []
                    if str(got).startswith("UNSUPPORTED") or any(str(e).startswith("commit") for e in log):
                        may = True
            self.memo[key] = may
        return self.memo[key]

    def summary(self, path, depth=0):
        if path in self.memo:
            return self.memo[path]
        self.memo[path] = (False, False)
        if path.startswith("store::fs::Store::") and path[len("store::fs::Store::"):] in self.MANAGERS:
            mut = False
            for b in self.f.family(path):
                for bi, t in b.calls():
                    if depth < 8:
                        for q in self.bind(t):
                            if q != path:
                                mut = mut or self.summary(q, depth + 1)[0]
            self.memo[path] = (mut, self.manager_may_commit(path.split("::")[-1]))
            return self.memo[path]
        mut = False
        com = path in COMMITTERS
        for b in self.f.family(path) if path in self.f.bodies else []:
            for bi, t in b.calls():
                ct = tables.call_table(t, self.types)
                if ct and ct[1] in tables.WRITE_OPS and not ct[2]:
                    mut = True
                if t["f"].get("name") == "commit" and callee_matches(t, r"TransactionAndTables::commit|WriteTransaction::commit"):
                    com = True
                if depth < 8:
                    for q in self.bind(t):
                        if q == path:
                            continue
                        m2, c2 = self.summary(q, depth + 1)
                        mut = mut or m2
                        com = com or c2
        self.memo[path] = (mut, com)
        return self.memo[path]

    def ordered(self, path, depth=0):
        """order-sensitive summary of a function: (may mutate, may commit, pairs) where each pair (mutating call, committing
        call, location, enclosing function) is a commit point that can be reached *after* a table mutation inside this
        function's own execution - found in its control-flow graph, or inherited from a callee. A commit hidden behind the
        mutation in one and the same callee (prune, then flush "because the batch was large") is seen here; the flat summary
        only knows that the callee does both. Transaction-manager entry points contribute no pairs of their own: what they
        do with the shared transaction, and that a commit precedes the body they run, is R4's evaluated table."""
        key = ("ord", path)
        if key in self.memo:
            return self.memo[key]
        self.memo[key] = (False, False, [])
        m0, c0 = self.summary(path)
        if path not in self.f.bodies or (path.startswith("store::fs::Store::") and path[len("store::fs::Store::"):] in self.MANAGERS) or depth > 8:
            self.memo[key] = (m0, c0, [])
            return self.memo[key]
        b = self.f.bodies[path]
        pairs = []
        sites = []
        for bi, t in b.calls():
            mut = com = False
            ct = tables.call_table(t, self.types)
            if ct and ct[1] in tables.WRITE_OPS and not ct[2]:
                mut = True
            if t["f"].get("name") == "commit" and callee_matches(t, r"TransactionAndTables::commit|WriteTransaction::commit"):
                com = True
            for q in self.bind(t):
                if q == path:
                    continue
                m2, c2, p2 = self.ordered(q, depth + 1)
                mut, com = mut or m2, com or c2
                pairs += p2
            if mut or com:
                sites.append((bi, t, mut, com))
        succ = b.succ()
        for mbi, mt, m, _ in sites:
            if not m:
                continue
            after = b.reach_from_edges(succ[mbi])
            for cbi, ct2, _, c in sites:
                if c and cbi in after and cbi != mbi:
                    pairs.append((mt["f"].get("name"), ct2["f"].get("name"), ct2["sp"], path))
        self.memo[key] = (m0 or any(x[2] for x in sites), c0 or any(x[3] for x in sites), pairs)
        return self.memo[key]

    def call_effect(self, t):
        mut = com = False
        ct = tables.call_table(t, self.types)
        if ct and ct[1] in tables.WRITE_OPS and not ct[2]:
            mut = True
        for q in self.bind(t):
            m2, c2 = self.summary(q)
            mut = mut or m2
            com = com or c2
        return mut, com


OPERATIONS = [
    "ranger::Store::put",
    "store::fs::Store::remove_replica",
    "store::fs::Store::import_namespace",
    "store::fs::Store::register_useful_peer",
    "store::fs::Store::set_download_policy",
    "store::fs::Store::import_author",
    "store::fs::Store::delete_author",
]


def r1(ctx):
    f = ctx.facts
    eff = Effects(f)
    for op in OPERATIONS:
        b = f.body(op)
        ctx.touch(b)
        sites = []
        for bi, t in b.calls():
            m, c = eff.call_effect(t)
            if m or c:
                sites.append((bi, t, m, c))
        muts = [s for s in sites if s[2]]
        if not muts:
            ctx.bad("C06.R1", op, "has-mutation", "operation performs no table mutation (anchor drift)", b.sp)
            continue
        bad = []
        for mbi, mt, _, _ in muts:
            after = b.reach_from_edges(b.succ()[mbi])
            for cbi, ct, m2, c2 in sites:
                if c2 and cbi in after and cbi != mbi:
                    bad.append((mt["f"].get("name"), ct["f"].get("name"), ct["sp"]))
        pairs = {}
        for a, c, sp in bad:
            pairs.setdefault("%s->%s" % (a, c), sp)
        # the same question inside the callees (order-sensitive summaries): a step of the operation that mutates and then
        # reaches a commit point by itself
        inner = {}
        for a, c, sp, where in eff.ordered(op)[2]:
            if where != op:
                inner.setdefault("%s->%s" % (a, c), (sp, where))
        for pair, (sp, where) in sorted(inner.items()):
            a, c = pair.split("->")
            ctx.bad("C06.R1", op, "commit-point-after-mutation[%s in %s]" % (pair, where.split("::")[-1]),
                    "inside `%s`, a step of this operation, the call `%s` can commit the shared transaction after `%s` has mutated a table: what the operation "
                    "did so far becomes durable without the rest of it" % (where, c, a), sp)
        if not pairs and not inner:
            ctx.ok("C06.R1", op, "no-commit-point-after-first-mutation", "one transaction access per operation after the first mutation (mutating calls: %s)" % [m[1]["f"].get("name") for m in muts], b.sp)
        for pair, sp in sorted(pairs.items()):
            a, c = pair.split("->")
            ctx.bad("C06.R1", op, "commit-point-after-mutation[%s]" % pair,
                    "after the mutation by `%s` the operation calls `%s`, which goes through Store::modify/tables again and commits the open "
                    "transaction when it is older than MAX_COMMIT_DELAY: the first half of the operation can become durable without the second" % (a, c), sp)
    ctx.floor("C06.R1", 7)


def r2(ctx):
    f = ctx.facts
    types = tables.table_types(f)
    n = 0
    for b, bi, t, name, op, ro in tables.writes(f, types):
        n += 1
        if b.path.startswith("store::fs::migrations::") or b.path.startswith("store::fs::migrate_redb_v2_tuples::"):
            ctx.ok("C06.R2", b.path, "write.%s.%s" % (name, op), "migration transaction", t["sp"])
            continue
        ok = tables.inside_modify(f, b.path)
        ctx.check(ok, "C06.R2", b.path, "write-inside-modify.%s.%s" % (name, op), "table write happens only inside the closure passed to Store::modify (the shared write transaction), directly or in a helper called only from there", t["sp"])
    if n < 15:
        raise mir.AnchorMissing("expected >=15 table write sites, found %d" % n)
    # who may call commit at all; whether modify() - a step of an operation - actually does is R1's question (evaluated)
    allowed = {"store::fs::Store::flush", "store::fs::Store::snapshot", "store::fs::Store::tables", "store::fs::Store::modify", "store::fs::Store::snapshot_owned",
               "store::fs::Store::new_impl", "store::fs::migrations::run_migration", "store::fs::tables::TransactionAndTables::commit",
               "store::fs::migrate_redb_v2_tuples::run"}
    def only_from(path, depth=3):
        if path in allowed:
            return True
        if depth <= 0:
            return False
        callers = {cb.path for cb, _, _ in f.callers().get(path, [])}
        return bool(callers) and all(only_from(c, depth - 1) for c in callers)
    nc = 0
    for b in f.bodies.values():
        for bi, t in b.calls():
            if t["f"].get("name") == "commit" and callee_matches(t, r"(TransactionAndTables|WriteTransaction)::commit"):
                nc += 1
                ctx.check(only_from(b.path), "C06.R2", b.path, "commit-caller", "commit is called only by the transaction managers (or a private helper that only they call)", t["sp"])
    if nc < 4:
        raise mir.AnchorMissing("expected >=4 commit call sites, found %d" % nc)
    # durability is never lowered: a non-durable commit makes flush() acknowledge data that a crash loses.
    # (expected count zero; the positive control is the number of redb::WriteTransaction calls seen)
    wt_calls = 0
    for b in f.bodies.values():
        for bi, t in b.calls():
            if callee_matches(t, r"redb::(WriteTransaction|Database|Builder)::"):
                wt_calls += 1
                if t["f"].get("name") in ("set_durability", "set_two_phase_commit", "set_quick_repair"):
                    lowered = True
                    ctx.bad("C06.R2", b.path, "transaction-durability-changed.%s" % t["f"].get("name"),
                            "the store changes the durability / commit mode of a redb write transaction: writes that land in that transaction are acknowledged by flush() without being durable", t["sp"])
    ctx.check(wt_calls >= 8, "C06.R2", "store::fs", "redb-transaction-calls-inventoried", "%d calls on redb::WriteTransaction/Database inspected for durability changes (none may lower it)" % wt_calls, None)
    ctx.floor("C06.R2", 20)


def r3(ctx):
    f = ctx.facts
    fl = f.body("store::fs::Store::flush")
    ctx.touch(fl)
    CT = [v["name"] for v in f.adt("store::fs::CurrentTransaction")["variants"]]
    rows = {}
    for p in P.explore(fl):
        v = [vv for k, vv in p.decisions if k[0] == "discr" and "CurrentTransaction" in k[1]]
        name = CT[v[0]] if v and isinstance(v[0], int) else "other"
        rows.setdefault(name, []).append(("commit" in P.calls(p), P.short(p.ret)))
    okw = "Write" in rows and all(c for c, r in rows["Write"]) and any(r.startswith("Ok") for c, r in rows["Write"]) and any("from_residual" in r for c, r in rows["Write"])
    ctx.check(okw, "C06.R3", fl.path, "write-transaction-committed-and-error-propagated", "paths by transaction state: %s" % rows, fl.sp)
    tk = [t for _, t in fl.calls() if t["f"].get("name") in ("take", "replace")]
    ctx.check(len(tk) == 1, "C06.R3", fl.path, "takes-the-current-transaction", "flush takes self.transaction (leaving None)", fl.sp)
    dr = f.body("<store::fs::Store as std::ops::Drop>::drop")
    ctx.touch(dr)
    ctx.check(any(callee_matches(t, r"store::fs::Store::flush$") for _, t in dr.calls()), "C06.R3", dr.path, "drop-flushes", "dropping a Store flushes the open transaction", dr.sp)
    # actor FlushStore
    hs = [b for b in f.bodies.values() if b.path.startswith("actor::Actor::on_action") and any(callee_matches(t, r"store::fs::Store::flush$") for _, t in b.calls())]
    ok = False
    for b in hs:
        ctx.touch(b)
        for bi, t in b.calls():
            if callee_matches(t, r"store::fs::Store::flush$"):
                # result flows into send_reply
                for sbi, st in b.calls():
                    if st["f"].get("name") in ("send_reply", "send") and any(o.kind == "call" and o.data is t for a in st["a"] for o in trace(b, a, through_calls=False)):
                        ok = b.dominates(bi, sbi)
    ctx.check(ok, "C06.R3", "actor::Actor::on_action", "FlushStore-replies-with-flush-result", "the reply to FlushStore is the result of store.flush(), sent after it", hs[0].sp if hs else None)
    # age-based commit: elapsed() > MAX_COMMIT_DELAY in tables/modify
    for name in ("tables",):
        b = f.body("store::fs::Store::" + name)
        ctx.touch(b)
        from .common import comparisons
        ok = False
        for hb in f.local_callees(b.path, depth=2, prefix="store::fs::Store::"):
            for c in comparisons(hb):
                if mir.is_noise(c["x"]):
                    continue
                sa = {origin_summary(o) for o in trace(hb, c["a"], through_calls=False)}
                sb = {origin_summary(o) for o in trace(hb, c["b"], through_calls=False)}
                # (which way the comparison is written, and which branch commits, is decided by R4's evaluated fresh / older cells)
                if (any("elapsed" in x for x in sa) and any("MAX_COMMIT_DELAY" in x for x in sb)) or (any("elapsed" in x for x in sb) and any("MAX_COMMIT_DELAY" in x for x in sa)):
                    ok = True
        ctx.check(ok, "C06.R3", b.path, "age-check", "the age of the open transaction is compared with MAX_COMMIT_DELAY (the outcome per age is R4's)", b.sp)
    ctx.floor("C06.R3", 5)


def eval_txmgr(f, fn, state, old=False, commit_ok=True, closure_ok=True):
    """one of Store::{flush, snapshot, snapshot_owned, tables, modify} evaluated (K6') on the state of the shared
    transaction: returns (rendered result, final CurrentTransaction, effect log)"""
    from . import feval as E
    CT = "store::fs::CurrentTransaction"
    log = []

    def oracle(kind, name, payload, site):
        if kind == "cmp":
            a, b2 = str(name), str(payload)
            if "elapsed" in a + b2:
                o = 1 if old else -1
                return o if "elapsed" in a else -o
            return None
        if kind != "call":
            return None
        t, args, it = payload
        names = [it.tokname(a) for a in args]
        if callee_matches(t, r"store::fs::tables::TransactionAndTables::commit$") or (name == "commit" and names and names[0].startswith("wtx")):
            log.append("commit(%s)" % names[0])
            return E.Ok(E.UNIT) if commit_ok else E.Err(E.Tok("commit-error"))
        if name == "begin_write":
            log.append("begin_write")
            return E.Ok(E.Tok("tx-w"))
        if name == "begin_read":
            log.append("begin_read")
            return E.Ok(E.Tok("tx-r"))
        if name in ("set_durability", "set_two_phase_commit", "set_quick_repair"):
            log.append(name)
            return E.UNIT
        if callee_matches(t, r"store::fs::tables::TransactionAndTables::new$"):
            return E.Ok(E.Tok("wtx-new(%s)" % names[0]))
        if callee_matches(t, r"store::fs::tables::ReadOnlyTables::new$"):
            return E.Ok(E.Tok("rtx-new(%s)" % names[0]))
        if name == "elapsed":
            return E.Tok("elapsed(%s)" % names[0])
        if callee_matches(t, r"TransactionAndTables::(tables|with_tables_mut)$"):
            if name == "with_tables_mut":
                log.append("closure-runs-in(%s)" % names[0])
                return E.Ok(E.Tok("closure-result")) if closure_ok else E.Err(E.Tok("closure-error"))
            return E.Tok("tables-of(%s)" % names[0])
        if name in ("call_once", "call", "call_mut") and names and names[0] == "f":
            log.append("closure-runs")
            return E.Ok(E.Tok("closure-result")) if closure_ok else E.Err(E.Tok("closure-error"))
        return None
    st = {"None": E.variant(f, CT, "None"), "Read": E.variant(f, CT, "Read", E.Tok("rtx")), "Write": E.variant(f, CT, "Write", E.Tok("wtx"))}[state]
    heap = {"self": E.struct(f, "store::fs::Store", db=E.Tok("db"), transaction=st, open_replicas=E.Tok("open"), pubkeys=E.Tok("pk"))}
    args = [E.href("self")] + ([E.Tok("f")] if fn == "modify" else [])
    try:
        ret, it = E.run_it(f, fn if "::" in fn else "store::fs::Store::" + fn, args, heap, oracle)
        fin = E.describe(E.field(f, it.heap["self"], "store::fs::Store", "transaction"), f)
        r = E.describe(it.resolve(ret), f)
        return ("PANIC" if (ret is not None and ret[0] == "diverge") else r), fin, log
    except E.Unsupported as e:
        return "UNSUPPORTED-FORM: %s" % e, None, log


def r4(ctx):
    """the shared-transaction manager as a transition table (K6'): which state of the open transaction leads to which
    redb calls, and what is left open afterwards"""
    f = ctx.facts
    NEW_W, NEW_R = "wtx-new(tx-w)", "rtx-new(tx-r)"
    spec = {
        # (fn, state, old, commit_ok): (result prefix, final state, effects)
        ("flush", "None", False, True): ("Ok(())", "None", []),
        ("flush", "Read", False, True): ("Ok(())", "None", []),
        ("flush", "Write", False, True): ("Ok(())", "None", ["commit(wtx)"]),
        ("flush", "Write", False, False): ("Err(", None, ["commit(wtx)"]),
        ("snapshot", "None", False, True): ("Ok(%s)" % NEW_R, "Read(%s)" % NEW_R, ["begin_read"]),
        ("snapshot", "Read", False, True): ("Ok(rtx)", "Read(rtx)", []),
        ("snapshot", "Write", False, True): ("Ok(%s)" % NEW_R, "Read(%s)" % NEW_R, ["commit(wtx)", "begin_read"]),
        ("snapshot", "Write", False, False): ("Err(", None, ["commit(wtx)"]),
        ("snapshot_owned", "None", False, True): ("Ok(%s)" % NEW_R, "None", ["begin_read"]),
        ("snapshot_owned", "Read", False, True): ("Ok(%s)" % NEW_R, "None", ["begin_read"]),
        ("snapshot_owned", "Write", False, True): ("Ok(%s)" % NEW_R, "None", ["commit(wtx)", "begin_read"]),
        ("snapshot_owned", "Write", False, False): ("Err(", None, ["commit(wtx)"]),
    }
    for fn, run_f in (("tables", False), ("modify", True)):
        tail_new = ["closure-runs-in(%s)" % NEW_W] if run_f else []
        tail_old = ["closure-runs-in(wtx)"] if run_f else []
        res_new = "Ok(closure-result)" if run_f else "Ok(tables-of(%s))" % NEW_W
        res_old = "Ok(closure-result)" if run_f else "Ok(tables-of(wtx))"
        spec[(fn, "None", False, True)] = (res_new, "Write(%s)" % NEW_W, ["begin_write"] + tail_new)
        spec[(fn, "Read", False, True)] = (res_new, "Write(%s)" % NEW_W, ["begin_write"] + tail_new)
        spec[(fn, "Write", False, True)] = (res_old, "Write(wtx)", tail_old)
        if run_f:
            # whether modify may replace an aged transaction is R1's question (no commit point between the writes of one operation);
            # as a transaction manager it may either reuse it or commit it and continue in a new one - never drop it
            spec[(fn, "Write", True, True)] = [(res_old, "Write(wtx)", tail_old), (res_new, "Write(%s)" % NEW_W, ["commit(wtx)", "begin_write"] + tail_new)]
        else:
            spec[(fn, "Write", True, True)] = (res_new, "Write(%s)" % NEW_W, ["commit(wtx)", "begin_write"] + tail_new)
            spec[(fn, "Write", True, False)] = ("Err(", None, ["commit(wtx)"])
    for (fn, state, old, cok), alts in spec.items():
        alts = alts if isinstance(alts, list) else [alts]
        wres, wfin, wlog = alts[0]
        b = f.body("store::fs::Store::" + fn)
        ctx.touch(*f.scope(b.path, prefix="store::fs::Store::"))
        got, fin, log = eval_txmgr(f, fn, state, old, cok)
        ok = any(got.startswith(r) and (fn_ is None or fin == fn_) and log == l for r, fn_, l in alts)
        ctx.check(ok, "C06.R4", b.path, "tx[%s%s%s]" % (state, ",older-than-MAX_COMMIT_DELAY" if old else "", ",commit-fails" if not cok else ""),
                  "returns %s, leaves %s open, redb calls %s; spec: %s, %s, %s (an open write transaction is committed - never dropped - before it is replaced; a failed commit is reported; "
                  "where a commit point may fall inside an operation is decided by R1)" % (got, fin, log, wres, wfin, wlog), b.sp)
    # the destructor: a store that goes out of scope commits what it was acknowledged for ("the list survives reopening the
    # store", "flushed data survives"): an open write transaction is committed, not dropped
    DROP = "<store::fs::Store as std::ops::Drop>::drop"
    db_ = f.body(DROP)
    ctx.touch(db_)
    for state, wlog in (("None", []), ("Read", []), ("Write", ["commit(wtx)"])):
        got, fin, log = eval_txmgr(f, DROP, state, False, True)
        ctx.check(not got.startswith("UNSUPPORTED") and got != "PANIC" and log == wlog, "C06.R4", DROP, "tx[%s,store-dropped]" % state,
                  "redb calls %s, leaves %s; spec: %s (an open write transaction is committed before the store goes away)" % (log, fin, wlog), db_.sp)
    # a failing transaction body is reported, and the shared transaction stays open: what earlier operations wrote into it
    # is neither committed on the spot nor rolled back
    mb = f.body("store::fs::Store::modify")
    for state, want_fin, want_log in (("None", "Write(%s)" % NEW_W, ["begin_write", "closure-runs-in(%s)" % NEW_W]), ("Write", "Write(wtx)", ["closure-runs-in(wtx)"])):
        got, fin, log = eval_txmgr(f, "modify", state, False, True, closure_ok=False)
        ctx.check(got.startswith("Err(") and fin == want_fin and log == want_log, "C06.R4", mb.path, "tx[%s,transaction-body-fails]" % state,
                  "returns %s, leaves %s open, redb calls %s; spec: Err, %s, %s (the error of one operation must not drop the writes of earlier, acknowledged operations)" % (got, fin, log, want_fin, want_log), mb.sp)
    ctx.floor("C06.R4", 26)


def share_failing_body(ctx, rule, floor=2):
    """imports the `transaction-body-fails` rows of R4 under another property's rule id: a failing operation (a request for an
    unknown document, a refused import) neither rolls back nor drops the shared write transaction - what earlier requests were
    acknowledged for is still there"""
    sub = type(ctx)(ctx.prop, ctx.tier, ctx.facts, ctx.cfg)
    r4(sub)
    for o in sub.obligations:
        from .engine import failed_closed
        if "transaction-body-fails" not in o["key"] and "store-dropped" not in o["key"] and not failed_closed(o):
            continue
        o = dict(o)
        o["key"] = o["key"].replace("C06.R4", rule)
        o["rule"] = rule
        ctx.obligations.append(o)
        if o["status"] != "holds":
            ctx.violations.append(o)
    ctx.analysed_bodies |= sub.analysed_bodies
    ctx.floor(rule, floor)


def discarded_results(f):
    """call sites of the crate whose `Result` is never looked at: the destination local is unused, or only handed to `.ok()` /
    `.is_ok()` / `.is_err()` / `drop` whose own result is unused. Tracing-macro expansions are skipped."""
    def used(b, l, skip_bi):
        hits = []

        def walk(x, where):
            if isinstance(x, dict):
                if x.get("l") == l and "p" in x:
                    hits.append(where)
                for v in x.values():
                    walk(v, where)
            elif isinstance(x, list):
                for v in x:
                    walk(v, where)
        for i, blk in enumerate(b.blocks):
            for st in blk["s"]:
                if st["k"] in ("storage_live", "storage_dead"):
                    continue
                walk(st, ("s", i))
            t = blk["t"]
            if t["k"] == "drop":
                continue
            if i == skip_bi:
                walk(t.get("a"), ("t", i))
            else:
                walk(t, ("t", i))
        return hits
    out = []
    for p, b in f.bodies.items():
        if b.rec.get("derived") or b.kind == "const":
            continue
        for bi, t in b.calls():
            if mir.is_noise(t.get("x")):
                continue
            d = t.get("d")
            if not d or d["p"] or d["l"] == 0:
                continue
            if not b.locals[d["l"]]["ty"].startswith("std::result::Result<"):
                continue
            hits = used(b, d["l"], bi)
            if not hits:
                out.append((b, bi, t, "never looked at"))
                continue
            # every use is the receiver of a discarding adaptor whose result is unused itself
            ok_all = True
            for kind, i in hits:
                tt = b.blocks[i]["t"]
                if kind != "t" or tt["k"] != "call" or tt["f"].get("name") not in ("ok", "is_ok", "is_err", "drop", "err", "unwrap_or_default"):
                    ok_all = False
                    break
                dd = tt.get("d")
                if not dd or dd["p"] or dd["l"] == 0 or used(b, dd["l"], i):
                    ok_all = False
                    break
            if ok_all:
                out.append((b, bi, t, "only discarded through `%s`" % b.blocks[hits[0][1]]["t"]["f"].get("name")))
    return out


STORE_LAYER = r"^(store::fs::|<store::fs::|redb::|<.* as redb::|<redb::)"


def r5(ctx):
    """error discipline: no result of the storage layer (the store's own functions, redb tables, transactions) is discarded
    anywhere in the crate - an acknowledged operation whose write, commit or flush failed silently is not durable. One site is
    tolerated, by name and with its reason (it doubles as the positive example that keeps the rule from passing vacuously)"""
    f = ctx.facts
    tolerated = {("store::fs::Store::remove_replica", "records_by_key"): "a failed clean-up of the key-ordered index leaves only stale ids, which every reader skips (C05.R6)"}
    types = tables.table_types(f)
    n = seen_tolerated = 0
    for b, bi, t, how in discarded_results(f):
        paths = mir.callee_paths(t)
        if not any(re.search(STORE_LAYER, p or "") for p in list(paths) + [t["f"].get("full") or ""]):
            continue
        root = b.rec.get("root") or b.path
        if re.search(r" as std::ops::Drop>::drop$", root):
            continue        # nobody to report to in a destructor (R3 decides that Drop flushes at all)
        n += 1
        ct = tables.call_table(t, types)
        tol = tolerated.get((root, ct[0] if ct else None))
        if tol:
            seen_tolerated += 1
            ctx.ok("C06.R5", root, "discarded-storage-result[tolerated:%s]" % ct[0], "%s is %s - tolerated: %s" % (t["f"].get("name"), how, tol), t["sp"])
        else:
            ctx.bad("C06.R5", root, "discarded-storage-result[%s]" % t["f"].get("name"), "the result of %s is %s: a storage failure here is silently lost" % ((t["f"].get("full") or t["f"].get("name"))[:120], how), t["sp"])
    if seen_tolerated != 1:
        raise mir.AnchorMissing("the one tolerated discarded storage result (remove_replica's index clean-up) was found %d times: the detector no longer sees what it is meant to see" % seen_tolerated)
    ctx.ok("C06.R5", "crate", "storage-results-looked-at", "%d discarded storage-layer results in the crate (1 tolerated by name)" % n, None)
    ctx.floor("C06.R5", 2)


def r6(ctx):
    """"the reopened store ... shows a state the live store actually passed through": what opening a store may rewrite is bounded by
    the four known start-up migrations - exactly those run (C18.R1 all-four-in-order: a further migration needs its own table), each
    skips and writes nothing unless the table it rebuilds is empty (C18.R4), the capability migrations are no-ops on a current
    database (C18.R6)"""
    from . import C18
    ctx.share("C06.R6", C18.r1, "C18.R1", keep=lambda k: "all-four-in-order" in k or "errors-propagate" in k, floor=2)
    ctx.share("C06.R6", C18.r4, "C18.R4", floor=3)
    ctx.share("C06.R6", C18.r6, "C18.R6", floor=3)

def run(ctx):
    ctx.run_rule("C06.R4", r4)
    ctx.run_rule("C06.R1", r1)
    ctx.run_rule("C06.R2", r2)
    ctx.run_rule("C06.R3", r3)
    ctx.run_rule("C06.R5", r5)
    ctx.run_rule("C06.R6", r6)

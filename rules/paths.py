"""K6 — finite path evaluation of small functions.

Enumerates the acyclic (loop bodies at most `loop_bound` times) real paths of one MIR body with a
light path-sensitive constant propagation (bool/int temporaries assigned constants in branch
arms, as produced by `matches!`, `&&`, `||`, `if let`), and summarises every path as

    decisions : ordered list of (condition key, value taken)
    events    : calls and writes to non-temporary places, in order
    ret       : classification of the returned value

Condition keys are semantic, not positional: a comparison is keyed by operator and operand
provenance, a discriminant test by the place it reads, a call result by callee and receiver
provenance. The same key met twice on one path takes the same value (no infeasible re-decisions).
No solver is involved: every branch on a non-constant condition is explored on all sides.
"""
from collections import namedtuple
from . import mir
from .mir import trace, origin_summary, is_noise, place_str
from .common import CMP_METHODS, CMP_BINOPS

Path = namedtuple("Path", "decisions events ret blocks cut")


class TooManyPaths(Exception):
    pass


def _origin_key(body, op, view=None):
    if op[0] == "const":
        c = op[1]
        if "def" in c and c.get("val") is not None:
            return "const:%s=%s" % (c["def"], c["val"])
        if "val" in c:
            return "const:%s" % c["val"]
        return "const:%s" % (c.get("def") or c.get("str") or c.get("repr"))
    parts = []
    kw = {"view": view} if view is not None else {}
    for o in trace(body, op, **kw):
        s = origin_summary(o)
        fl = [str(p[2] if p[2] is not None else p[1]) for p in o.projs if p[0] == "field"]
        if o.kind == "call":
            # include the receiver's provenance so that a.x() and b.x() differ
            t = o.data
            recv = ""
            if t["a"]:
                recv = "(" + ",".join(sorted({_short(origin_summary(x), x) for x in trace(body, t["a"][0], **kw)})) + ")"
            s = "call:%s%s" % (t["f"].get("name") or "?", recv)
        elif o.kind in ("arg", "upvar") and fl:
            s = s + "." + ".".join(fl)
        parts.append(s)
    return "|".join(sorted(set(parts)))


def _short(s, o):
    fl = [str(p[2] if p[2] is not None else p[1]) for p in o.projs if p[0] == "field"]
    if o.kind in ("arg", "upvar") and fl:
        return s + "." + ".".join(fl)
    return s


class Explorer:
    def __init__(self, body, view=None, loop_bound=1, max_paths=20000, stop_at=None):
        self.b = body
        self.view = view
        self.loop_bound = loop_bound
        self.max_paths = max_paths
        self.paths = []
        self.stop_at = stop_at or (lambda bi: False)
        self._cond_cache = {}

    # -- condition description --------------------------------------------------------
    def cond_key(self, op):
        """describe the value being switched on"""
        if op[0] == "const":
            return ("const", op[1].get("val"))
        p = op[1]
        if p["p"]:
            origs = trace(self.b, p, through_calls=False)
            if len(origs) == 1 and origs[0].site is not None and not origs[0].projs:
                bi, si = origs[0].site
                if si == "t":
                    return self._describe_def("call", self.b.blocks[bi]["t"], 0)
                return self._describe_def("assign", self.b.blocks[bi]["s"][si], 0)
            if len(origs) == 1 and origs[0].kind == "expr":
                bi, si = origs[0].site
                return self._describe_def("assign", self.b.blocks[bi]["s"][si], 0)
            return ("place", self._place_key(p))
        l = p["l"]
        if l in self._cond_cache:
            return self._cond_cache[l]
        key = self._describe_local(l, 0)
        self._cond_cache[l] = key
        return key

    def _describe_local(self, l, depth):
        b = self.b
        ds = b.defs().get(l, [])
        if len(ds) != 1 or depth > 6:
            if not ds and 1 <= l <= b.argc:
                return ("arg", b.local_name(l) or l)
            return ("local", l)
        bi, si, kind, payload = ds[0]
        return self._describe_def(kind, payload, depth)

    def _describe_def(self, kind, payload, depth):
        b = self.b
        l = None
        if kind == "call":
            t = payload
            n = t["f"].get("name")
            if n in CMP_METHODS and len(t["a"]) == 2 and mir.callee_matches(t, r"cmp::Partial(Ord|Eq)"):
                return ("cmp", CMP_METHODS[n], _origin_key(b, t["a"][0], self.view), _origin_key(b, t["a"][1], self.view))
            if n == "not" and mir.callee_matches(t, r"anyhow::__private::not") and t["a"] and t["a"][0][0] in ("copy", "move") and not t["a"][0][1]["p"]:
                return ("not", self._describe_local(t["a"][0][1]["l"], depth + 1))
            recv = _origin_key(b, t["a"][0], self.view) if t["a"] else ""
            rest = tuple(_origin_key(b, a, self.view) for a in t["a"][1:])
            return ("call", n or "indirect", recv) + ((rest,) if rest else ())
        if kind == "assign":
            r = payload["r"]
            if r[0] == "bin" and r[1] in CMP_BINOPS:
                return ("cmp", CMP_BINOPS[r[1]], _origin_key(b, r[2], self.view), _origin_key(b, r[3], self.view))
            if r[0] == "discr":
                return ("discr", self._place_key(r[1]) + "#" + self._place_ty(r[1]))
            if r[0] == "un" and r[1] == "Not" and r[2][0] in ("copy", "move") and not r[2][1]["p"]:
                inner = self._describe_local(r[2][1]["l"], depth + 1)
                return ("not", inner)
            if r[0] == "use" and r[1][0] in ("copy", "move"):
                if not r[1][1]["p"]:
                    return self._describe_local(r[1][1]["l"], depth + 1)
                return ("place", self._place_key(r[1][1]))
            if r[0] == "cfd":
                return ("place", self._place_key(r[1]))
        return ("local", l if l is not None else str(payload.get("sp")))

    def _place_ty(self, p):
        """head of the type of a place (the enum being matched), to keep `discr` keys of a
        Result and of its Option payload apart"""
        ty = self.b.locals[p["l"]]["ty"]
        for pr in p["p"]:
            if pr[0] == "field" and len(pr) > 3:
                ty = pr[3]
            elif pr[0] == "deref":
                ty = ty.lstrip("&").replace("mut ", "", 1) if ty.startswith("&") else ty
        ty = ty.lstrip("&").replace("mut ", "", 1) if ty.startswith("&") else ty
        return ty.split("<")[0].split("::")[-1]

    def _place_key(self, p):
        """a place described by the provenance of its root local plus its own projections"""
        b = self.b
        root = {"l": p["l"], "p": []}
        base = "|".join(sorted({_short(origin_summary(o), o) for o in trace(b, root, whole_only=True)}))
        projs = []
        for pr in p["p"]:
            if pr[0] == "field":
                projs.append(str(pr[2] if pr[2] is not None else pr[1]))
            elif pr[0] == "downcast":
                projs.append("as " + str(pr[2]))
        return base + ("." + ".".join(projs) if projs else "")

    # -- exploration -----------------------------------------------------------------------
    def run(self, start=0):
        b = self.b
        # iterative DFS: state = (bb, env, decisions, events, visits, blocks)
        stack = [(start, {}, (), (), {}, ())]
        while stack:
            bi, env, dec, ev, visits, blocks = stack.pop()
            if len(self.paths) > self.max_paths:
                raise TooManyPaths(b.path)
            v = visits.get(bi, 0)
            if v > self.loop_bound:
                self.paths.append(Path(dec, ev, ("cut", bi), blocks, True))
                continue
            visits = dict(visits)
            visits[bi] = v + 1
            blocks = blocks + (bi,)
            env = dict(env)
            blk = b.blocks[bi]
            ev = list(ev)
            for si, s in enumerate(blk["s"]):
                if s["k"] == "assign":
                    self._assign(s, env, ev, bi, si)
                elif s["k"] == "setdiscr":
                    ev.append(("setdiscr", place_str(s["p"]), s["v"], s["sp"]))
            ev = tuple(ev)
            if self.stop_at(bi):
                self.paths.append(Path(dec, ev, ("stop", bi), blocks, False))
                continue
            t = blk["t"]
            k = t["k"]
            if k == "return":
                self.paths.append(Path(dec, ev, self._ret(env, blocks), blocks, False))
            elif k in ("goto", "falseedge", "falseunwind", "drop"):
                stack.append((t["t"], env, dec, ev, visits, blocks))
            elif k == "assert":
                stack.append((t["t"], env, dec, ev, visits, blocks))
            elif k == "call":
                if not is_noise(t["x"]):
                    ev = ev + (("call", t["f"].get("name") or "indirect", t, bi),)
                env.pop(t["d"]["l"], None)
                env.pop(("v", t["d"]["l"]), None)
                self._kill(env, t["d"]["l"])
                if t["t"] is None:
                    self.paths.append(Path(dec, ev, ("diverge", t["f"].get("name")), blocks, False))
                else:
                    stack.append((t["t"], env, dec, ev, visits, blocks))
            elif k == "yield":
                ev = ev + (("yield", None, t, bi),)
                stack.append((t["t"], env, dec, ev, visits, blocks))
            elif k == "switch":
                d = t["d"]
                known = None
                if d[0] == "const":
                    known = d[1].get("val")
                elif not d[1]["p"] and d[1]["l"] in env:
                    known = env[d[1]["l"]]
                targets = [(val, tb) for val, tb in t["v"]] + [("otherwise", t["o"])]
                if known is not None:
                    tb = dict(t["v"]).get(known, t["o"])
                    stack.append((tb, env, dec, ev, visits, blocks))
                    continue
                if is_noise(t["x"]):
                    # tracing/log macro: effect-free pass-through; continue at the point where
                    # all of its branches re-join
                    j = b.ipdom(bi)
                    if j is not None:
                        stack.append((j, env, dec, ev, visits, blocks))
                        continue
                key = self.cond_key(d)
                if is_noise(t["x"]):
                    key = ("noise",) + key
                ident = self._ident(d)
                vals = [val for val, _ in t["v"]]
                prior = env.get(("c", ident))
                for val, tb in targets:
                    # unreachable arms
                    if b.blocks[tb]["t"]["k"] == "unreachable" and not b.blocks[tb]["s"]:
                        continue
                    if prior is not None:
                        if prior[0] == "eq":
                            if val == "otherwise":
                                if prior[1] in vals:
                                    continue
                            elif val != prior[1]:
                                continue
                        else:
                            if val != "otherwise" and val in prior[1]:
                                continue
                    if val == "otherwise":
                        know = ("ne", frozenset(vals) | (prior[1] if prior is not None and prior[0] == "ne" else frozenset()))
                        if prior is not None and prior[0] == "eq":
                            know = prior
                    else:
                        know = ("eq", val)
                    dval = val
                    if val == "otherwise" and len(vals) == 1 and self._is_boolish(d):
                        dval = 1 - vals[0] if vals[0] in (0, 1) else "otherwise"
                        know = ("eq", dval)
                    env2 = dict(env)
                    env2[("c", ident)] = know
                    stack.append((tb, env2, dec + ((key, dval),), ev, visits, blocks))
            elif k in ("unreachable", "resume", "terminate", "coroutine_drop"):
                self.paths.append(Path(dec, ev, (k,), blocks, False))
            else:
                self.paths.append(Path(dec, ev, ("?", k), blocks, False))
        return self.paths

    def _ident(self, d):
        """identity of the value tested by a switch: the place it ultimately reads (through
        single-definition copies / discriminant reads), so that re-testing the same value on one
        path is consistent while two different values with the same description are not conflated"""
        b = self.b
        p = d[1]
        for _ in range(8):
            if p["p"]:
                return (p["l"], place_str(p))
            ds = b.defs().get(p["l"], [])
            if len(ds) != 1 or ds[0][2] != "assign":
                return (p["l"], place_str(p))
            r = ds[0][3]["r"]
            if r[0] == "discr":
                return (r[1]["l"], "discr " + place_str(r[1]))
            if r[0] == "use" and r[1][0] in ("copy", "move"):
                p = r[1][1]
                continue
            return (p["l"], place_str(p))
        return (p["l"], place_str(p))

    def _kill(self, env, l):
        for k in [k for k in env if isinstance(k, tuple) and k and k[0] == "c" and k[1][0] == l]:
            del env[k]

    def _is_boolish(self, d):
        if d[0] == "const":
            return False
        return self.b.locals[d[1]["l"]]["ty"] == "bool" and not d[1]["p"]

    def _assign(self, s, env, ev, bi, si):
        p = s["p"]
        r = s["r"]
        if not p["p"]:
            l = p["l"]
            val = None
            env.pop(("v", l), None)
            env[("d", l)] = r
            self._kill(env, l)
            if r[0] == "use":
                o = r[1]
                if o[0] == "const":
                    val = o[1].get("val")
                elif not o[1]["p"] and o[1]["l"] in env:
                    val = env[o[1]["l"]]
                if o[0] != "const" and not o[1]["p"] and ("v", o[1]["l"]) in env:
                    env[("v", l)] = env[("v", o[1]["l"])]
            elif r[0] == "agg" and r[1][0] == "adt":
                env[("v", l)] = (r[1][3], r[1][2], r)
            elif r[0] == "discr" and not r[1]["p"] and ("v", r[1]["l"]) in env:
                val = env[("v", r[1]["l"])][0]
            elif r[0] == "ref" and not r[2]["p"] and ("v", r[2]["l"]) in env:
                env[("r", l)] = r[2]["l"]
            elif r[0] == "discr" and r[1]["p"] == [["deref"]] and ("r", r[1]["l"]) in env and ("v", env[("r", r[1]["l"])]) in env:
                val = env[("v", env[("r", r[1]["l"])])][0]
            elif r[0] == "un" and r[1] == "Not":
                o = r[2]
                if o[0] == "const" and o[1].get("val") in (0, 1):
                    val = 1 - o[1]["val"]
                elif o[0] != "const" and not o[1]["p"] and o[1]["l"] in env and env[o[1]["l"]] in (0, 1):
                    val = 1 - env[o[1]["l"]]
            if val is not None:
                env[l] = val
            else:
                env.pop(l, None)
        # record writes that are observable: through a deref, to a field of an argument, or to _0
        observable = any(x[0] == "deref" for x in p["p"]) or (1 <= p["l"] <= self.b.argc and p["p"]) or (self.b.local_name(p["l"]) is not None and p["p"])
        if observable and not is_noise(s["x"]):
            ev.append(("write", place_str(p), r, s["sp"], self._place_key(p), self._classify(r, env, bi)))

    def _ret(self, env, blocks):
        """classify the returned value by the last definition of _0 on this path"""
        b = self.b
        for bi in reversed(blocks):
            blk = b.blocks[bi]
            t = blk["t"]
            if t["k"] == "call" and t["d"]["l"] == 0 and not t["d"]["p"]:
                return ("call", t["f"].get("name"), t)
            for s in reversed(blk["s"]):
                if s["k"] == "assign" and s["p"]["l"] == 0 and not s["p"]["p"]:
                    return self._classify(s["r"], env, bi)
        return ("unit",)

    def _classify(self, r, env, bi):
        b = self.b
        if r[0] == "use":
            o = r[1]
            if o[0] == "const":
                return ("const", o[1].get("val", o[1].get("def") or o[1].get("repr")))
            if not o[1]["p"] and o[1]["l"] in env:
                return ("const", env[o[1]["l"]])
            if not o[1]["p"] and ("v", o[1]["l"]) in env:
                return self._classify(env[("v", o[1]["l"])][2], env, bi)
            if o[1]["p"] and len(o[1]["p"]) == 1 and o[1]["p"][0][0] == "field" and ("d", o[1]["l"]) in env and _depth(env) < 12:
                rr = env[("d", o[1]["l"])]
                if rr[0] == "bin" and rr[1].endswith("WithOverflow") and o[1]["p"][0][1] == 0:
                    env2 = dict(env)
                    env2["__depth"] = _depth(env) + 1
                    return self._classify(["bin", rr[1].replace("WithOverflow", ""), rr[2], rr[3]], env2, bi)
            if o[1]["p"] and ("d", o[1]["l"]) in env and _depth(env) < 12:
                rr = env[("d", o[1]["l"])]
                projs = [pr for pr in o[1]["p"] if pr[0] != "downcast"]
                if rr[0] == "agg" and len(projs) == 1 and projs[0][0] == "field" and projs[0][1] < len(rr[2]):
                    env2 = dict(env)
                    env2["__depth"] = _depth(env) + 1
                    return self._classify(["use", rr[2][projs[0][1]]], env2, bi)
            if o[1]["p"]:
                return ("place", self._place_key(o[1]))
            if not o[1]["p"] and ("d", o[1]["l"]) in env and _depth(env) < 12:
                env2 = dict(env)
                env2["__depth"] = _depth(env) + 1
                rr = env2.pop(("d", o[1]["l"]))
                return self._classify(rr, env2, bi)
            # look through to the defining rvalue if unique
            ds = b.defs().get(o[1]["l"], [])
            if len(ds) == 1 and ds[0][2] == "assign" and not o[1]["p"]:
                return self._classify(ds[0][3]["r"], env, bi)
            if len(ds) == 1 and ds[0][2] == "call" and not o[1]["p"]:
                tt = ds[0][3]
                if tt["a"] and mir.VIEW.search(tt["f"].get("path", "") or "") and tt["f"].get("name") not in ("branch", "into_iter"):
                    return ("value", _origin_key(b, tt["a"][0], self.view))
                return ("call", tt["f"].get("name"), tt)
            return ("value", _origin_key(b, o, self.view))
        if r[0] == "agg" and r[1][0] == "adt":
            inner = None
            if r[2] and _depth(env) < 12:
                env4 = dict(env)
                env4["__depth"] = _depth(env) + 1
                inner = self._classify(["use", r[2][0]], env4, bi)
            allf = None
            if len(r[2]) > 1 and _depth(env) < 10:
                env3 = dict(env)
                env3["__depth"] = _depth(env) + 1
                allf = tuple((nm, self._classify(["use", o], env3, bi)) for nm, o in zip(r[1][4], r[2]))
            return ("variant", r[1][2], inner, allf)
        if r[0] == "agg":
            return ("agg", r[1][0], tuple(self._classify(["use", o], env, bi) for o in r[2]))
        if r[0] == "bin":
            return ("expr", r[1], self._classify(["use", r[2]], env, bi), self._classify(["use", r[3]], env, bi))
        if r[0] == "un":
            return ("expr", r[1], self._classify(["use", r[2]], env, bi))
        return (r[0],)


def _depth(env):
    return env.get("__depth", 0)


def explore(body, **kw):
    return Explorer(body, **kw).run()


def decisions_dict(path):
    d = {}
    for k, v in path.decisions:
        d[k] = v
    return d


def called(path, name):
    return [e for e in path.events if e[0] == "call" and e[1] == name]


def fmt_decisions(path):
    return "; ".join("%s=%s" % (_fmt_key(k), v) for k, v in path.decisions if k[0] != "noise")


def _fmt_key(k):
    if k[0] == "cmp":
        return "(%s %s %s)" % (k[2], k[1], k[3])
    if k[0] == "discr":
        return "discr(%s)" % k[1]
    if k[0] == "call":
        return "%s(%s)" % (k[1], k[2])
    if k[0] == "not":
        return "!%s" % _fmt_key(k[1])
    return str(k)


def const_of_key(s):
    """numeric value of a constant operand key ('const:4', 'const:path::NAME=4'), else None"""
    import re as _re
    m = _re.fullmatch(r"const:(?:[^=]*=)?(-?\d+)", s or "")
    return int(m.group(1)) if m else None


def short(v):
    """compact, position-free rendering of a classified value"""
    if v is None:
        return "-"
    k = v[0]
    if k == "const":
        return str(v[1])
    if k == "variant":
        if len(v) > 3 and v[3]:
            return v[1] + "{" + ",".join("%s:%s" % (nm, short(x)) for nm, x in v[3]) + "}"
        return v[1] + ("(" + short(v[2]) + ")" if v[2] is not None else "")
    if k == "expr":
        return "%s(%s)" % (v[1], ",".join(short(x) for x in v[2:]))
    if k == "place":
        return "place:" + v[1].split("::")[-1] if "::" in v[1] and "." in v[1].split("::")[-1] else "place:" + v[1]
    if k == "call":
        return "call:%s" % v[1]
    if k == "value":
        return "value:" + str(v[1])
    if k == "agg":
        return "(" + ",".join(short(x) for x in v[2]) + ")"
    return str(k)


def writes(path, field=None):
    """[(field name, short value)] of observable writes on a path"""
    out = []
    for e in path.events:
        if e[0] == "write":
            fld = e[4].split(".")[-1]
            if field is None or fld == field:
                out.append((fld, short(e[5])))
    return out


def calls(path):
    return [e[1] for e in path.events if e[0] == "call"]

"""K8 — option-field typestate: forward dataflow {Some, None, Top} of one tracked Option place."""
from . import mir
from .mir import trace


def _is_tracked(body, place, name):
    """place ends in a field called `name`, or is the user local called `name`"""
    if place["p"]:
        for pr in reversed(place["p"]):
            if pr[0] == "field":
                return pr[2] == name
            if pr[0] in ("deref",):
                continue
            return False
        return False
    return body.local_name(place["l"]) == name


def _reads_tracked(body, place, name):
    if _is_tracked(body, place, name):
        return True
    if place["p"]:
        return False
    ds = body.defs().get(place["l"], [])
    if len(ds) == 1 and ds[0][2] == "assign":
        r = ds[0][3]["r"]
        if r[0] == "use" and r[1][0] in ("copy", "move") and _is_tracked(body, r[1][1], name):
            return True
    return False


def analyse(body, name, entry_state="S"):
    """returns dict with: takes [(bb, state_before, term)], unwraps [(bb, state_before, term)],
    exits [(bb, state)], restores [bb]"""
    n = body.n
    succ = body.succ()
    instate = {0: entry_state}
    work = [0]
    res = {"takes": {}, "unwraps": {}, "exits": {}, "restores": set()}
    # locals that hold &mut tracked
    refs = set()
    for bi, si, s in body.statements():
        if s["k"] == "assign" and s["r"][0] == "ref" and _is_tracked(body, s["r"][2], name) and not s["p"]["p"]:
            refs.add(s["p"]["l"])
    changed = True
    while changed:
        changed = False
        for bi, si, s in body.statements():
            if s["k"] == "assign" and not s["p"]["p"] and s["p"]["l"] not in refs:
                r = s["r"]
                if r[0] == "ref" and not r[2]["p"] is None and r[2]["p"] == [["deref"]] and r[2]["l"] in refs:
                    refs.add(s["p"]["l"]); changed = True
                if r[0] == "use" and r[1][0] in ("copy", "move") and not r[1][1]["p"] and r[1][1]["l"] in refs:
                    refs.add(s["p"]["l"]); changed = True

    def join(a, b):
        if a is None:
            return b
        if b is None or a == b:
            return a
        return "T"

    iters = 0
    while work and iters < 20000:
        iters += 1
        bi = work.pop()
        st = instate[bi]
        blk = body.blocks[bi]
        for s in blk["s"]:
            if s["k"] == "assign" and _is_tracked(body, s["p"], name):
                r = s["r"]
                if r[0] == "use" and r[1][0] in ("copy", "move") and not r[1][1]["p"]:
                    ds = body.defs().get(r[1][1]["l"], [])
                    if len(ds) == 1 and ds[0][2] == "assign":
                        r = ds[0][3]["r"]
                if r[0] == "agg" and r[1][0] == "adt" and r[1][2] == "Some":
                    st = "S"
                    res["restores"].add(bi)
                elif r[0] == "agg" and r[1][0] == "adt" and r[1][2] == "None":
                    st = "N"
                else:
                    st = "T"
        t = blk["t"]
        if t["k"] == "call":
            nm = t["f"].get("name")
            args = t["a"]
            if nm in ("take", "replace") and args and args[0][0] in ("copy", "move") and not args[0][1]["p"] and args[0][1]["l"] in refs:
                prev = res["takes"].get(bi)
                res["takes"][bi] = (join(prev[0] if prev else None, st), t)
                st = "N" if nm == "take" else "T"
            elif nm in ("unwrap", "expect") and args and args[0][0] in ("copy", "move") and _reads_tracked(body, args[0][1], name):
                prev = res["unwraps"].get(bi)
                res["unwraps"][bi] = (join(prev[0] if prev else None, st), t)
                st = "N"
            # destination overwrites a tracked local
            if _is_tracked(body, t["d"], name):
                st = "T"
        if t["k"] == "return":
            prev = res["exits"].get(bi)
            res["exits"][bi] = join(prev, st)
        for o in succ[bi]:
            new = join(instate.get(o), st)
            if new != instate.get(o):
                instate[o] = new
                work.append(o)
    return res

"""Core library over mirfacts output: fact loading, CFG, dominators, def-use / provenance.

Nothing here runs repository code. All functions work on the JSON facts dumped by the
`mirfacts` driver from `mir_built` of /repo's current working tree.
"""
import json
import re
from collections import defaultdict, deque

TRACING_MACROS = {
    "trace", "debug", "info", "warn", "error", "event", "span", "trace_span", "debug_span",
    "info_span", "warn_span", "error_span", "debug_assert", "debug_assert_eq", "debug_assert_ne",
    "log", "enabled",
}
# `#[tracing::instrument]` is NOT in the list: its expansion contains the function's own body (wrapped in an inner
# async block / closure that is then awaited / called); only the span construction inside it, which goes through the
# `span!` macros above, is effect-free.


class AnchorMissing(Exception):
    """Raised when an item the rule is anchored in cannot be found: rules fail closed."""


def is_noise(x):
    """True iff the expansion tag `x` is a tracing/log macro expansion (effect-free pass-through)."""
    if not x:
        return False
    for part in x.split(">"):
        if part.startswith("m:"):
            n = part[2:].split("::")[-1]
            if n in TRACING_MACROS:
                return True
    return False


def is_macro(x):
    return bool(x) and "m:" in x


def place_str(p):
    s = "_%d" % p["l"]
    for pr in p["p"]:
        k = pr[0]
        if k == "deref":
            s = "(*%s)" % s
        elif k == "field":
            s = "%s.%s" % (s, pr[2] if pr[2] is not None else pr[1])
        elif k == "downcast":
            s = "(%s as %s)" % (s, pr[2])
        elif k == "index":
            s = "%s[_%d]" % (s, pr[1])
        else:
            s = "%s<%s>" % (s, pr[0])
    return s


class Body:
    def __init__(self, rec):
        self.rec = rec
        self.path = rec["path"]
        self.kind = rec["kind"]
        self.parent = rec.get("parent")
        self.root = rec.get("root")
        self.argc = rec["argc"]
        self.locals = rec["locals"]
        self.blocks = rec["blocks"]
        self.sp = rec["sp"]
        self.n = len(self.blocks)
        self._succ = None
        self._pred = None
        self._dom = None
        self._pdom = None
        self._defs = None
        self.names = {}      # local -> user name (whole-local debug entries)
        self.upvars = {}     # name -> place (captured variables in closures)
        for d in rec["debug"]:
            p = d["place"]
            if not p["p"]:
                self.names.setdefault(p["l"], d["name"])
            else:
                self.upvars[d["name"]] = p

    # ------------------------------------------------------------------ basic structure
    def local_name(self, l):
        return self.names.get(l)

    def local_by_name(self, name):
        return [l for l, n in self.names.items() if n == name]

    def loc(self, bi, si=None):
        b = self.blocks[bi]
        if si is None or si >= len(b["s"]):
            return b["t"]["sp"]
        return b["s"][si]["sp"]

    def succ(self):
        """Real (non-unwind, non-imaginary) successor edges."""
        if self._succ is None:
            s = []
            for b in self.blocks:
                t = b["t"]
                k = t["k"]
                if k in ("goto", "falseedge", "falseunwind", "drop", "assert"):
                    out = [t["t"]]
                elif k == "switch":
                    out = [x[1] for x in t["v"]] + [t["o"]]
                elif k == "call":
                    out = [t["t"]] if t["t"] is not None else []
                elif k == "yield":
                    out = [t["t"]]
                else:
                    out = []
                s.append(out)
            self._succ = s
        return self._succ

    def pred(self):
        if self._pred is None:
            p = [[] for _ in range(self.n)]
            for i, outs in enumerate(self.succ()):
                for o in outs:
                    p[o].append(i)
            self._pred = p
        return self._pred

    def reachable(self, start=0, succ=None, avoid=()):
        succ = succ or self.succ()
        seen = set()
        if start in avoid:
            return seen
        dq = deque([start])
        seen.add(start)
        while dq:
            b = dq.popleft()
            for o in succ[b]:
                if o not in seen and o not in avoid:
                    seen.add(o)
                    dq.append(o)
        return seen

    def reach_from_edges(self, targets, avoid=()):
        seen = set()
        dq = deque()
        for t in targets:
            if t not in avoid and t not in seen:
                seen.add(t)
                dq.append(t)
        succ = self.succ()
        while dq:
            b = dq.popleft()
            for o in succ[b]:
                if o not in seen and o not in avoid:
                    seen.add(o)
                    dq.append(o)
        return seen

    def dominators(self):
        """idom-free dominator sets via iterative dataflow over real edges (entry bb0)."""
        if self._dom is None:
            self._dom = _dom_sets(self.n, self.succ(), self.pred(), [0])
        return self._dom

    def dominates(self, a, b):
        d = self.dominators().get(b)
        return d is not None and a in d

    def exits(self):
        return [i for i, b in enumerate(self.blocks) if b["t"]["k"] == "return"]

    def postdominators(self):
        if self._pdom is None:
            ex = self.exits()
            self._pdom = _dom_sets(self.n, self.pred(), self.succ(), ex, multi=True)
        return self._pdom

    def ipdom(self, b):
        """immediate post-dominator of block b (None if b cannot reach an exit)"""
        pd = self.postdominators()
        mine = pd.get(b)
        if mine is None:
            return None
        want = mine - {b}
        for d in want:
            if pd.get(d) == want:
                return d
        return None

    def edge_dominates(self, a, b, target):
        """True iff every path from entry to `target` passes the edge a->b."""
        if target == b and len([p for p in self.pred()[b] if p in self.reachable()]) == 1:
            return True
        # remove edge a->b and test reachability
        succ = [list(x) for x in self.succ()]
        succ[a] = [x for x in succ[a] if x != b]
        # if a has multiple edges to b (switch with same target twice) they are all removed
        return target not in self.reachable(0, succ)

    # ------------------------------------------------------------------ iteration helpers
    def calls(self, include_noise=False):
        """Yield (block index, terminator) for each Call terminator in non-cleanup reachable blocks."""
        reach = self.reachable()
        for i, b in enumerate(self.blocks):
            t = b["t"]
            if t["k"] == "call" and i in reach:
                if not include_noise and is_noise(t["x"]):
                    continue
                yield i, t

    def statements(self):
        reach = self.reachable()
        for i, b in enumerate(self.blocks):
            if i not in reach:
                continue
            for j, s in enumerate(b["s"]):
                yield i, j, s

    # ------------------------------------------------------------------ def-use
    def defs(self):
        """local -> list of (block, stmt index or 't', kind, payload) definitions of the whole local
        or of a projection of it."""
        if self._defs is None:
            d = defaultdict(list)
            for i, b in enumerate(self.blocks):
                for j, s in enumerate(b["s"]):
                    if s["k"] == "assign":
                        d[s["p"]["l"]].append((i, j, "assign", s))
                t = b["t"]
                if t["k"] == "call":
                    d[t["d"]["l"]].append((i, "t", "call", t))
                elif t["k"] == "yield":
                    d[t["p"]["l"]].append((i, "t", "yield", t))
            self._defs = d
        return self._defs


def _dom_sets(n, succ, pred, entries, multi=False):
    """Generic iterative dominator computation; returns dict block -> frozenset of dominators.
    Blocks unreachable from the entries are absent."""
    reach = set()
    dq = deque(entries)
    for e in entries:
        reach.add(e)
    while dq:
        b = dq.popleft()
        for o in succ[b]:
            if o not in reach:
                reach.add(o)
                dq.append(o)
    order = []
    seen = set()
    # reverse post order
    def dfs(start):
        stack = [(start, iter(succ[start]))]
        seen.add(start)
        while stack:
            node, it = stack[-1]
            adv = False
            for o in it:
                if o not in seen:
                    seen.add(o)
                    stack.append((o, iter(succ[o])))
                    adv = True
                    break
            if not adv:
                order.append(node)
                stack.pop()
    for e in entries:
        if e not in seen:
            dfs(e)
    order.reverse()
    allset = frozenset(reach)
    dom = {b: allset for b in reach}
    for e in entries:
        dom[e] = frozenset([e])
    changed = True
    eset = set(entries)
    while changed:
        changed = False
        for b in order:
            if b in eset:
                continue
            ps = [p for p in pred[b] if p in reach]
            if not ps:
                continue
            new = None
            for p in ps:
                new = dom[p] if new is None else (new & dom[p])
            new = frozenset(new | {b})
            if new != dom[b]:
                dom[b] = new
                changed = True
    return dom


class Facts:
    def __init__(self, path):
        self.path = path
        self.bodies = {}
        self.dups = defaultdict(list)
        self.adts = {}
        self.consts = {}
        self.impls = []
        self.aliases = {}
        self.meta = None
        self.stolen = []
        self.fenums = {}    # foreign enums mentioned in local types: path -> [{name, discr}]
        with open(path) as f:
            for line in f:
                r = json.loads(line)
                t = r["t"]
                if t == "body":
                    b = Body(r)
                    if b.path in self.bodies:
                        self.dups[b.path].append(b)
                    else:
                        self.bodies[b.path] = b
                elif t == "adt":
                    self.adts[r["path"]] = r
                elif t == "const":
                    self.consts[r["path"]] = r
                elif t == "impl":
                    self.impls.append(r)
                elif t == "alias":
                    self.aliases[r["path"]] = r
                elif t == "meta":
                    self.meta = r
                elif t == "stolen":
                    self.stolen = r["bodies"]
                elif t == "fenum":
                    self.fenums[r["path"]] = r["variants"]
        self._children = None
        self._callers = None
        self._resolve_named_consts()

    def _resolve_named_consts(self):
        """attach the evaluated value of named scalar constants to the operands that mention them
        (the driver reads bodies before it may evaluate constants)"""
        vals = {p: c["val"] for p, c in self.consts.items() if c.get("val") is not None}
        if not vals:
            return

        def fix(o):
            if isinstance(o, list) and o and o[0] == "const" and isinstance(o[1], dict):
                c = o[1]
                if "val" not in c and c.get("def") in vals:
                    c["val"] = vals[c["def"]]
        for b in self.bodies.values():
            for blk in b.blocks:
                for st in blk["s"]:
                    if st["k"] != "assign":
                        continue
                    r = st["r"]
                    if r[0] in ("use", "repeat"):
                        fix(r[1])
                    elif r[0] == "bin":
                        fix(r[2]); fix(r[3])
                    elif r[0] in ("un", "cast"):
                        fix(r[2])
                    elif r[0] == "agg":
                        for o in r[2]:
                            fix(o)
                t = blk["t"]
                if t["k"] in ("call", "tailcall"):
                    for o in t["a"]:
                        fix(o)
                elif t["k"] == "switch":
                    fix(t["d"])

    def local_callees(self, path, depth=2, prefix=None):
        """bodies reachable from `path` through crate-local calls (and nested closures), up to depth"""
        out = []
        seen = {path}
        frontier = [path]
        for _ in range(depth + 1):
            nxt = []
            for p in frontier:
                for b in self.family(p) if p in self.bodies else []:
                    if b.path not in [x.path for x in out]:
                        out.append(b)
                    for bi, t in b.calls():
                        cands = set(callee_paths(t))
                        for d in t["f"].get("tdefs", []) or []:
                            if d:
                                cands.add(d)
                        for q in cands:
                            if q in self.bodies and q not in seen and (prefix is None or q.startswith(prefix)):
                                seen.add(q)
                                nxt.append(q)
            frontier = nxt
            if not frontier:
                break
        return out

    def scope(self, path, prefix=None, depth=2):
        """`path`, its nested closures, and the private helpers that belong to it: crate-local
        functions (under `prefix`) all of whose callers are already in the scope. A refactoring that
        extracts part of a function into a single-caller helper leaves the scope's contents unchanged."""
        out = list(self.family(path))
        names = {b.path for b in out}
        if prefix is None:
            prefix = path.rsplit("::", 1)[0] if "::" in path else ""
        for _ in range(depth):
            added = False
            for b in list(out):
                for bi, t in b.calls():
                    cands = set(callee_paths(t))
                    for d in t["f"].get("tdefs", []) or []:
                        if d:
                            cands.add(d)
                    for q in cands:
                        if q in names or q not in self.bodies or not q.startswith(prefix):
                            continue
                        qb = self.bodies[q]
                        if qb.kind not in ("fn", "assoc_fn"):
                            continue
                        callers = {cb.path for cb, _, _ in self.callers().get(q, [])}
                        if callers and callers <= names:
                            for x in self.family(q):
                                if x.path not in names:
                                    names.add(x.path)
                                    out.append(x)
                                    added = True
            if not added:
                break
        return out

    def only_reached_from(self, path, roots, depth=4):
        """True if body `path` runs only on behalf of the functions in `roots`: it is one of them, a
        closure/coroutine nested in one, or a helper all of whose crate-local callers are (recursively).
        Who-may-call rules use this so that extracting a private helper does not move a site out of
        its allowed set, while a new caller from elsewhere still does."""
        if depth < 0 or path not in self.bodies:
            return False
        if path in roots:
            return True
        b = self.bodies[path]
        if b.kind not in ("fn", "assoc_fn") and b.parent:
            return self.only_reached_from(b.parent, roots, depth)
        callers = {cb.path for cb, _, _ in self.callers().get(path, [])} - {path}
        return bool(callers) and all(self.only_reached_from(c, roots, depth - 1) for c in callers)

    # ------------------------------------------------------------------ lookup
    def body(self, path):
        b = self.bodies.get(path)
        if b is None:
            raise AnchorMissing("body not found: %s" % path)
        if path in self.dups:
            raise AnchorMissing("ambiguous body path: %s" % path)
        return b

    def find(self, regex):
        rx = re.compile(regex)
        return [b for p, b in self.bodies.items() if rx.search(p)]

    def one(self, regex):
        m = self.find(regex)
        if len(m) != 1:
            raise AnchorMissing("expected exactly one body matching /%s/, found %d: %s" % (regex, len(m), [b.path for b in m][:6]))
        return m[0]

    def children(self, path):
        """closures / coroutine bodies directly nested in `path`."""
        if self._children is None:
            c = defaultdict(list)
            for b in self.bodies.values():
                if b.parent:
                    c[b.parent].append(b)
            self._children = c
        return self._children.get(path, [])

    def descendants(self, path, depth=8):
        out = []
        frontier = [path]
        for _ in range(depth):
            nxt = []
            for p in frontier:
                for c in self.children(p):
                    out.append(c)
                    nxt.append(c.path)
            frontier = nxt
            if not frontier:
                break
        return out

    def family(self, path, depth=8):
        """the body and all closures/coroutines nested in it"""
        return [self.body(path)] + self.descendants(path, depth)

    def adt(self, path):
        a = self.adts.get(path)
        if a is None:
            raise AnchorMissing("ADT not found: %s" % path)
        return a

    def const(self, path):
        c = self.consts.get(path)
        if c is None:
            raise AnchorMissing("const not found: %s" % path)
        return c

    # ------------------------------------------------------------------ call graph
    def callers(self):
        """callee path (declared and resolved) -> list of (body, block index, terminator)"""
        if self._callers is None:
            c = defaultdict(list)
            for b in self.bodies.values():
                for i, t in b.calls(include_noise=True):
                    f = t["f"]
                    if f.get("indirect"):
                        continue
                    keys = {f["path"]}
                    if "res" in f:
                        keys.add(f["res"])
                    for k in keys:
                        c[k].append((b, i, t))
            self._callers = c
        return self._callers


# ---------------------------------------------------------------------- callee helpers

def callee_paths(t):
    f = t["f"]
    if f.get("indirect"):
        return set()
    s = {f["path"]}
    if "res" in f:
        s.add(f["res"])
    return s


def callee_name(t):
    f = t["f"]
    if f.get("indirect"):
        return None
    return f.get("name")


def callee_matches(t, regex):
    rx = re.compile(regex) if isinstance(regex, str) else regex
    f = t["f"]
    if f.get("indirect"):
        return False
    for k in ("path", "res", "full", "res_full"):
        v = f.get(k)
        if v and rx.search(v):
            return True
    return False


# ---------------------------------------------------------------------- provenance (K5)

TRANSPARENT = re.compile(
    r"(^|::)(deref|deref_mut|clone|into|from|as_ref|as_mut|borrow|borrow_mut|to_vec|to_owned|"
    r"as_bytes|to_bytes|as_slice|as_mut_slice|into_iter|iter|by_ref|unwrap|expect|branch|"
    r"from_residual|as_deref|as_deref_mut|into_inner|cloned|copied|to_string|as_str|new_unchecked|"
    r"into_future|get_mut|get_ref|as_ptr|pin|new)$"
)

# A narrower set used by default: calls that return (a view of) their first argument.
VIEW = re.compile(
    r"(^|::)(deref|deref_mut|clone|into|as_ref|as_mut|borrow|borrow_mut|to_vec|to_owned|"
    r"as_bytes|to_bytes|as_slice|as_mut_slice|branch|as_deref|as_deref_mut|cloned|copied|"
    r"into_future|into_iter)$"
)


class Origin:
    """A leaf of a provenance trace."""
    __slots__ = ("kind", "data", "projs", "site")

    def __init__(self, kind, data, projs=(), site=None):
        self.kind = kind      # 'arg' | 'const' | 'call' | 'agg' | 'upvar' | 'unknown' | 'local'
        self.data = data
        self.projs = tuple(projs)
        self.site = site

    def __repr__(self):
        return "Origin(%s,%s,%s)" % (self.kind, self.data if self.kind != "call" else self.data["f"].get("full"), list(self.projs))


def _proj_key(pr):
    if pr[0] == "field":
        return ("field", pr[1], pr[2])
    if pr[0] == "downcast":
        return ("downcast", pr[1], pr[2])
    return (pr[0],)


def trace(body, op, view=VIEW, max_depth=40, through_calls=True, whole_only=False):
    """Backward provenance of an operand (or place dict) inside one body.

    Returns a list of Origin leaves. Flow-insensitive over locals: every definition of a
    local contributes. Projections are carried along and applied to aggregates.
    `whole_only` ignores writes to projections of a local (used to name places, where a later
    field write must not change the name of the place read earlier).
    """
    out = []
    seen = set()

    def from_place(p, extra, depth):
        projs = [_proj_key(x) for x in p["p"]] + list(extra)
        from_local(p["l"], projs, depth)

    def from_operand(o, extra, depth):
        if o[0] in ("copy", "move"):
            from_place(o[1], extra, depth)
        elif o[0] == "const":
            out.append(Origin("const", o[1], extra))
        else:
            out.append(Origin("unknown", o, extra))

    def from_local(l, projs, depth):
        key = (l, tuple(projs))
        if key in seen or depth > max_depth:
            return
        seen.add(key)
        # closure captured state: _1 in a closure body with field projection = upvar
        if 1 <= l <= body.argc:
            nm = body.local_name(l)
            if body.kind != "fn" and body.kind != "assoc_fn" and l == 1:
                # closure environment; find the captured field
                fld = [p for p in projs if p[0] == "field"]
                out.append(Origin("upvar", fld[0][2] if fld else None, projs))
            else:
                out.append(Origin("arg", (l, nm), projs))
            # arguments may also be reassigned; fall through to look at defs
        ds = body.defs().get(l, [])
        if not ds and not (1 <= l <= body.argc):
            out.append(Origin("unknown", ("nodef", l), projs))
        for (bi, si, kind, payload) in ds:
            if kind == "assign":
                s = payload
                tp = [_proj_key(x) for x in s["p"]["p"]]
                # assignment to a projection of l: relevant only if it is a prefix-compatible path
                rest = projs
                if tp and whole_only:
                    continue
                if tp:
                    if projs[:len(tp)] == tp:
                        rest = projs[len(tp):]
                    elif tp[:len(projs)] == projs:
                        rest = []
                    else:
                        continue
                r = s["r"]
                k = r[0]
                if k == "use":
                    from_operand(r[1], rest, depth + 1)
                elif k in ("ref", "rawptr"):
                    pl = r[2] if k == "ref" else r[1]
                    # &P : a deref projection cancels the reference
                    rr = list(rest)
                    if rr and rr[0] == ("deref",):
                        rr = rr[1:]
                    from_place(pl, rr, depth + 1)
                elif k == "cfd":
                    from_place(r[1], rest, depth + 1)
                elif k == "cast":
                    from_operand(r[2], rest, depth + 1)
                elif k == "agg":
                    kindinfo, ops = r[1], r[2]
                    # apply field projection if present
                    rr = list(rest)
                    # skip leading downcast
                    while rr and rr[0][0] == "downcast":
                        rr = rr[1:]
                    if rr and rr[0][0] == "field" and rr[0][1] < len(ops):
                        from_operand(ops[rr[0][1]], rr[1:], depth + 1)
                    else:
                        out.append(Origin("agg", (kindinfo, ops), rest, (bi, si)))
                elif k in ("bin", "un", "discr", "len", "repeat", "other"):
                    out.append(Origin("expr", r, rest, (bi, si)))
                else:
                    out.append(Origin("unknown", r, rest, (bi, si)))
            elif kind == "call":
                t = payload
                if t["d"]["p"]:
                    continue
                f = t["f"]
                name = f.get("name") or ""
                if through_calls and not f.get("indirect") and view.search(f.get("path", "")) and t["a"]:
                    # the result is a view/copy of the first argument: projections through
                    # Try::branch (Continue payload) and Option/Result payloads are dropped
                    from_operand(t["a"][0], [], depth + 1)
                else:
                    out.append(Origin("call", t, projs, (bi, "t")))
            elif kind == "yield":
                out.append(Origin("yield", payload, projs, (bi, "t")))

    if isinstance(op, dict):
        from_place(op, [], 0)
    else:
        from_operand(op, [], 0)
    return out


def origin_summary(o):
    if o.kind == "arg":
        return "arg:%s" % (o.data[1] or o.data[0])
    if o.kind == "upvar":
        return "upvar:%s" % o.data
    if o.kind == "const":
        c = o.data
        if "def" in c:
            return "const:%s" % c["def"]
        if "val" in c:
            return "const:%s" % c["val"]
        if "fn" in c:
            return "fn:%s" % c["fn"]
        if "str" in c:
            return "const:%r" % c["str"]
        return "const:%s" % c["repr"]
    if o.kind == "call":
        return "call:%s" % (o.data["f"].get("res") or o.data["f"].get("path") or "indirect")
    if o.kind == "agg":
        k = o.data[0]
        return "agg:%s" % (k[1] + "::" + k[2] if k[0] == "adt" else k[0])
    return o.kind


def closure_site(facts, cb):
    """(parent body, block, stmt) of the aggregate that constructs closure/coroutine body `cb`"""
    if not cb.parent or cb.parent not in facts.bodies:
        return None
    pb = facts.bodies[cb.parent]
    for bi, si, s in pb.statements():
        if s["k"] == "assign" and s["r"][0] == "agg" and s["r"][1][0] in ("closure", "coroutine", "coroutine_closure") and s["r"][1][1] == cb.path:
            return pb, bi, si, s
    return None


def upvar_origins(facts, cb, field_index):
    """origins, in the parent body, of the value captured as upvar #field_index of closure cb"""
    site = closure_site(facts, cb)
    if site is None:
        return None
    pb, bi, si, s = site
    ops = s["r"][2]
    if field_index >= len(ops):
        return None
    return pb, trace(pb, ops[field_index])


def field_path(o):
    return tuple(str(p[2] if p[2] is not None else p[1]) for p in o.projs if p[0] == "field")

"""The key lookup behind signature verification (store::pubkeys::PublicKeyStore::public_key) evaluated (K6') for every
implementation: the key a 32-byte id resolves to is the key parsed from exactly those 32 bytes - a cache may only ever answer
with the key it stored for the identical id - and every forwarding implementation hands the id on unchanged and returns what it
got. ("both its namespace and author signatures verify": with the keys its own ids name, C03; a look-alike id resolved to a
cached neighbour's key would let that neighbour's signature pass for it.)"""
import re
from . import mir

TRAIT = "store::pubkeys::PublicKeyStore"


def impls(f):
    return sorted(p for p in f.bodies if re.match(r"^<.* as store::pubkeys::PublicKeyStore>::public_key$", p))


def evaluate(f, path, cache, lookup):
    """cache: list of ids already cached (each maps to key-of(<id>)). Returns (result, inner calls, cache afterwards)"""
    from . import feval as E, coll
    C = coll.Collections(f)
    inner = []

    def oracle(kind, name, payload, site):
        if kind in ("eq", "cmp"):
            a, b = str(name).strip("&*"), str(payload).strip("&*")
            if a.startswith("id") and b.startswith("id"):
                return (a == b) if kind == "eq" else ((a > b) - (a < b))
            return None
        if kind != "call":
            return None
        t, args, it = payload
        names = [it.tokname(a).strip("&*") for a in args]
        full = (t["f"].get("full") or "") + " " + (t["f"].get("res") or "")
        if name == "from_bytes" and "PublicKey" in full:
            inner.append(("from_bytes", names[0]))
            return E.Err(E.Tok("not-a-key")) if names[0].endswith("invalid") else E.Ok(E.Tok("key-of(%s)" % names[0]))
        if name == "public_key" and not (set(mir.callee_paths(t)) & {path}):
            inner.append(("public_key", names[0], names[1]))
            return E.Ok(E.Tok("key-of(%s)" % names[1]))
        if name in ("get", "insert", "contains_key", "entry", "get_mut", "remove") and ("HashMap" in full or "BTreeMap" in full) and len(args) >= 2:
            keyed_by.append(names[1])
            if name == "insert" and len(args) == 3 and names[2] != "key-of(%s)" % names[1]:
                inner.append(("cache-keyed-by", "%s -> %s" % (names[1], names[2])))
        if name in ("read", "write", "lock") and ("RwLock" in full or "Mutex" in full):
            return E.Ok(args[0])
        if name in ("deref", "deref_mut", "as_ref", "borrow", "borrow_mut") and ("Guard" in full or "Arc" in full):
            v = it.deref_val(args[0])
            return v if (v is not None and v[0] == "ref") else args[0]
        return C.handle(kind, name, payload, site)
    heap = {}
    items = []
    for i, k in enumerate(cache):
        heap["cell%d" % i] = E.Tok("key-of(%s)" % k)
        items.append(("tuple", [E.Tok(k), E.href("cell%d" % i)]))
    keyed_by = []
    b = f.bodies[path]
    self_ty = b.locals[1]["ty"]
    if "MemPublicKeyStore" in self_ty:
        heap["self"] = E.struct(f, "store::pubkeys::MemPublicKeyStore", keys=coll.seq("map", items))
    else:
        heap["self"] = E.Tok("inner-store")
    heap["id"] = E.Tok(lookup)
    ret, itp = E.run_it(f, path, [E.href("self"), E.href("id")], heap, oracle)
    sv = itp.heap["self"]
    m = itp.resolve(E.field(f, sv, "store::pubkeys::MemPublicKeyStore", "keys")) if (sv is not None and sv[0] == "adt") else None
    after = {itp.tokname(kv[1][0]).strip("&*"): E.describe(itp.resolve(itp.deref_val(kv[1][1])), f) for kv in (m[2] if coll.is_seq(m) else [])}
    for k in keyed_by:
        if k != lookup:
            inner.append(("cache-keyed-by", k))
    return E.describe(itp.resolve(ret), f), inner, after


def check(ctx, rule):
    from . import feval as E
    f = ctx.facts
    ps = impls(f)
    if len(ps) < 5:
        raise mir.AnchorMissing("expected >= 5 implementations of PublicKeyStore::public_key (&T, &mut T, (), MemPublicKeyStore, Store, StoreInstance), found %d" % len(ps))
    for p in ps:
        b = f.body(p)
        ctx.touch(b)
        mem = "MemPublicKeyStore" in b.locals[1]["ty"]
        cells = [("empty-cache", [], "idB"), ("cached", ["idA", "idB"], "idB"), ("another-id-cached", ["idA"], "idB"), ("not-a-curve-point", ["idA"], "idB-invalid")] if mem else [("forward", [], "idB")]
        for label, cache, lookup in cells:
            key = "public_key[%s]" % label
            try:
                ret, inner, after = evaluate(f, p, cache, lookup)
            except E.Unsupported as e:
                ctx.bad(rule, p, key, "UNSUPPORTED-FORM: %s" % e, b.sp)
                continue
            problems = []
            want = "Err(not-a-key)" if lookup.endswith("invalid") else "Ok(key-of(%s))" % lookup
            if ret != want:
                problems.append("returns %s, spec %s" % (ret, want))
            for x in inner:
                if x[0] == "cache-keyed-by":
                    problems.append("the cache is looked up / filled under %s, not under the id itself: two ids that share it resolve to one key" % x[1])
                elif x[-1] != lookup:
                    problems.append("looks up / parses %s instead of the id it was given" % (x,))
            if not (lookup in cache and mem) and not [x for x in inner if x[0] != "cache-keyed-by"]:
                problems.append("answers without parsing or asking for the id")
            for k, v in after.items():
                if v != "key-of(%s)" % k:
                    problems.append("the cache maps %s to %s" % (k, v))
            if lookup.endswith("invalid") and lookup in after:
                problems.append("an id that is not a key was cached")
            ctx.check(not problems, rule, p, key, "id %s with %s cached: returns %s, inner calls %s, cache afterwards %s; spec: the key parsed from exactly this id" % (lookup, cache, ret, inner, after),
                      b.sp, bad_detail="; ".join(problems))
    # the provided methods hand the id's own bytes to public_key
    for nm in ("namespace_key", "author_key"):
        p = "%s::%s" % (TRAIT, nm)
        b = f.bodies.get(p)
        if b is None:
            raise mir.AnchorMissing(p)
        ctx.touch(b)
        pk = [t for _, t in b.calls() if t["f"].get("name") == "public_key"]
        ok = False
        det = "%d calls of public_key" % len(pk)
        if len(pk) == 1:
            from .mir import trace, origin_summary
            org = trace(b, pk[0]["a"][1], through_calls=False)
            ok = bool(org) and all(o.kind == "call" and o.data["f"].get("name") == "as_bytes" and {origin_summary(x) for x in trace(b, o.data["a"][0])} == {"arg:bytes"} for o in org)
            det = "public_key(%s)" % [origin_summary(o) for o in org]
        ctx.check(ok, rule, p, "resolves-the-id-it-was-given", det + "; spec: public_key(<the id argument>.as_bytes())", b.sp)

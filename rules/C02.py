"""C02 — replica state is an order-independent function of the entries offered.

Structural clauses decided (necessary conditions; see DESIGN.md 3.C02):
 R1  truth tables of the admission test and the prune predicate in ranger::Store::put, and
     Record's order = (timestamp, hash)
 R2  parent coverage in the prefixes_of implementation: deletion markers are not filtered,
     the empty key is looked up
 R3  the exclusive end bound of a variable-length key prefix is computed by a shortening
     successor
 R4  remove_prefix_filtered bounds come from the id being inserted, component by component
 R5  a rejected entry changes nothing: no mutation on a path that returns NotInserted
"""
import re
from . import mir
from .mir import trace, origin_summary, callee_matches
from .common import (find_calls, one_call, comparisons, call_outcomes, follow_value, TRUTH, flip,
                     uses_of_local)

EXPLANATION = (
    'Decides structural necessary conditions of C02 from MIR: (R1) ranger::Store::put evaluated on parent sequences with '
    'the storage trait answered by an oracle: it rejects iff new<=parent (truth table over Less/Equal/Greater) and prunes '
    'iff new>=child; Record order is (timestamp, hash) lexicographic; (R2) the parent lookup does not filter deletion '
    'markers, and parents() evaluated on (key, stored prefixes) cells yields every stored prefix of the key including the '
    'empty key and the key itself and nothing else; (R3) exclusive end bounds of variable-length key prefixes are computed '
    'by a successor that can shorten, increment_by_one / prefix_successor evaluated on concrete byte strings (trailing '
    '0xFF runs, all-0xFF, empty); (R4) prefix-removal bounds derive from the namespace/author/key of the entry inserted; '
    '(R5) no store mutation precedes a NotInserted return. (R6) the store-actor handlers of InsertLocal / DeletePrefix / InsertRemote evaluated (K14b): every offered entry reaches the replica, the removed-count of a deletion is what is answered. (R7) = C06.R4 failing-body rows. (R8) = C05.R6: index rows left behind by a prune are skipped by key-ordered scans. NOT decided: commutativity/idempotence over all permutations as '
    'such (value-level).'
)
ASSUMPTIONS = [

    "redb tuple key order equals component-wise byte order",
    "callee resolution by rustc; Self::method calls in ranger::Store default methods bound by name to StoreInstance",
    "tracing macro expansions are effect-free",
]

PUT = "ranger::Store::put"
SI = "<store::fs::StoreInstance<'a> as ranger::Store<sync::SignedEntry>>::"
VIEW_VALUE = re.compile(mir.VIEW.pattern[:-2] + r"|value|next|into_iter)$")


EXPLANATION += ' (R9) what Replica::insert / delete_prefix offer to the store does not depend on what the store holds at that moment (= C03.R9 with cells on the stored state).'
EXPLANATION += " (R10, round 9) RecordsBounds::author_key evaluated on concrete ids - incl. ids ending in 0xFF / all-0xFF - and prefixes - incl. empty, ending in 0xFF -, the range decided on sample rows of this author, greater and smaller authors and the next document: exactly (this document, this author, keys starting with the prefix). R5's `removed` clause is decided by R1's evaluated rows."
EXPLANATION += " (R12, round 10) = the entry_put cells of C18.R2: every admitted entry gets its record and its index row, whether or not it is newer than the author's head."
EXPLANATION += " (R13, round 12) = C12.R3's single-entry ingress cells: an entry offered to a replica is validated for, pruned in and stored in that very replica; a rejected one touches nothing."
EXPLANATION += " (R14, round 13) = C03.R1's validate-closure clauses + C03.R6: inside a reconciliation message a rejected entry is skipped by the validate callback and the remaining entries are processed."
EXPLANATION += " (R15, round 13) an implementation that overrides a default method of ranger::Store is evaluated on the default's table (put: R1's parent sequences, get_range_len: C08.R6); an override without a table fails closed."


def _label_put_operand(body, op):
    """'new' if the operand derives only from the `entry` argument / captured entry,
    'other' if it derives from an iterator item or closure argument, else None."""
    origs = trace(body, op, view=VIEW_VALUE)
    kinds = set()
    for o in origs:
        if o.kind == "arg" and o.data[1] == "entry":
            kinds.add("new")
        elif o.kind == "upvar" and o.data == "entry":
            kinds.add("new")
        elif o.kind == "arg":
            kinds.add("other")
        elif o.kind == "call":
            kinds.add("other")
        else:
            kinds.add("?")
    if kinds == {"new"}:
        return "new"
    if "new" not in kinds and "other" in kinds:
        return "other"
    return None


def _table(cmp, la, lb):
    """truth table of comparison as a function of cmp(new, other)"""
    t = TRUTH[cmp["op"]]
    if (la, lb) == ("new", "other"):
        return dict(t)
    if (la, lb) == ("other", "new"):
        return flip(t)
    return None


def bool_table_of_local(body, dest_local, cmps, label):
    """truth table of a bool local: direct comparison result or a Not of one."""
    for c in cmps:
        if c["dest"]["l"] == dest_local and not c["dest"]["p"]:
            la, lb = label(body, c["a"]), label(body, c["b"])
            return _table(c, la, lb), c
    for d in body.defs().get(dest_local, []):
        if d[2] == "assign":
            r = d[3]["r"]
            if r[0] == "un" and r[1] == "Not" and r[2][0] in ("copy", "move") and not r[2][1]["p"]:
                t, c = bool_table_of_local(body, r[2][1]["l"], cmps, label)
                if t:
                    return {k: (not v) for k, v in t.items()}, c
            if r[0] == "use" and r[1][0] in ("copy", "move") and not r[1][1]["p"]:
                return bool_table_of_local(body, r[1][1]["l"], cmps, label)
    return None, None


def eval_put(f, parents, path=None):
    """ranger::Store::put evaluated (K6') with the storage trait's methods answered by an oracle:
    `parents` = for each parent the store yields, cmp(new, parent) in {-1,0,1} or "err".
    Returns (rendered result, log of storage effects, prune predicate table or None)."""
    from . import feval as E
    st = {"i": 0, "log": [], "pred": None}
    cur = {"child": None}

    def oracle(kind, name, payload, site):
        if kind == "cmp":
            a, b = name, payload

            def order_for(x):
                if x.startswith("value(parent"):
                    return parents[int(x[len("value(parent"):-1])]
                if x == "value(child)":
                    return cur["child"]
                return None
            if a == "value(entry)" and order_for(b) is not None:
                return order_for(b)
            if b == "value(entry)" and order_for(a) is not None:
                return -order_for(a)
            return None
        if kind != "call":
            return None
        t, args, it = payload
        names = [it.tokname(x) for x in args]
        if name == "prefixes_of":
            st["log"].append(("prefixes_of", names[1:]))
            return E.Ok(E.Tok("parents"))
        if name == "into_iter":
            return args[0]
        if name == "next" and names and names[0] == "parents":
            i = st["i"]
            st["i"] += 1
            if i >= len(parents):
                return E.NONE
            if parents[i] == "err":
                return E.Some(E.Err(E.Tok("storage-error")))
            return E.Some(E.Ok(E.Tok("parent%d" % i)))
        if name == "remove_prefix_filtered":
            pred = {}
            for o, nm in ((-1, "Less"), (0, "Equal"), (1, "Greater")):
                cur["child"] = o
                r = it.apply(args[2], [E.Tok("value(child)")])
                pred[nm] = {"0": False, "1": True}.get(E.describe(r, f), E.describe(r, f))
            cur["child"] = None
            st["pred"] = pred
            st["log"].append(("prune", names[1:2]))
            return E.Ok(E.Tok("removed"))
        if name == "entry_put":
            st["log"].append(("entry_put", names[1:]))
            return E.Ok(E.UNIT)
        return None
    try:
        ret, hp, ev = E.run(f, path or PUT, [E.href("self"), E.Tok("entry")], {"self": E.Tok("store")}, oracle)
        return E.describe(ret, f), st["log"], st["pred"]
    except E.Unsupported as e:
        return "UNSUPPORTED-FORM: %s" % e, st["log"], st["pred"]


def r1(ctx):
    f = ctx.facts
    put = f.body(PUT)
    ctx.touch(put)
    # admission: rejected iff some parent is newer or equal (cmp(new,parent) != Greater); a storage error aborts; nothing is mutated on rejection
    FULL = [("prefixes_of", ["key(entry)"]), ("prune", ["key(entry)"]), ("entry_put", ["entry"])]
    rows = []
    preds = []
    for parents in ([], [-1], [0], [1], [1, -1], [1, 0], [1, 1], [-1, 1], ["err"], [1, "err"]):
        got, log, pred = eval_put(f, parents)
        if any(p == "err" for p in parents) and all(p == 1 for p in parents[:parents.index("err")]):
            want, wlog = "Err(storage-error)", FULL[:1]
        elif any(p in (-1, 0) for p in parents if p != "err"):
            want, wlog = "Ok(NotInserted)", FULL[:1]
        else:
            want, wlog = "Ok(Inserted(removed))", FULL
        rows.append((parents, got, want, log == wlog))
        if pred is not None:
            preds.append(pred)
    badr = [(p, g, "spec " + w, "effects as specified: %s" % lo) for p, g, w, lo in rows if g != w or not lo]
    ctx.check(not badr, "C02.R1", PUT, "admission-compare",
              "put evaluated on %d parent sequences (cmp(new,parent) per parent): deviating %s; spec: NotInserted iff some parent is not Less than... i.e. cmp(new,parent) != Greater, "
              "no prune/write before a rejection, prune then write on admission, `removed` = the prune's count" % (len(rows), badr[:4]), put.sp)
    spec = {"Less": False, "Equal": True, "Greater": True}
    ctx.check(bool(preds) and all(p == spec for p in preds), "C02.R1", PUT, "prune-predicate",
              "removed(cmp(new,child)) = %s; spec (removes exactly the not-newer children): %s" % (preds[0] if preds else None, spec), put.sp)
    # the store's prune primitive evaluated (K6'): the predicate is asked about the Record that the row holds (each field
    # from its own column), its verdict decides the removal unchanged, the number of removed rows is returned
    from . import feval as E, coll, tables as T
    types = T.table_types(f)
    rpf = f.body(SI + "remove_prefix_filtered")
    ctx.touch(*f.scope(rpf.path, prefix="store::fs::"))
    for verdicts in ((1, 0, 1), (0, 0), ()):
        log = {"asked": [], "table": None, "bounds": None}

        def oracle(kind, name, payload, site, verdicts=verdicts):
            if kind in ("eq", "cmp"):
                a_, b_ = str(name), str(payload)
                # whose row is it: the rows k<i> are the inserting author's, `other-author` is not
                if ("author" in a_ and "author" in b_) and (a_.startswith("k") or b_.startswith("k") or "other-author" in a_ + b_) and not (a_.startswith("k") and b_.startswith("k")):
                    same = "other-author" not in a_ + b_
                    return same if kind == "eq" else (0 if same else 1)
                return None
            if kind != "call":
                return None
            t, args, it = payload
            names = [it.tokname(a) for a in args]
            if callee_matches(t, r"store::fs::Store::modify$"):
                it.heap.setdefault("tables", E.Tok("tables"))
                return it.apply(args[1], [E.href("tables")])
            if callee_matches(t, r"store::fs::bounds::RecordsBounds::author_prefix$"):
                return E.Tok("author_prefix(%s)" % ",".join(names))
            if name in ("namespace", "author", "key_bytes", "key") and len(args) == 1:
                return E.Tok("%s(%s)" % (name, names[0]))
            if name == "as_ref" and names and names[0].startswith("author_prefix("):
                return args[0]
            ct = T.call_table(t, types)
            if ct and ct[0] == "records_by_key" and ct[1] in ("extract_from_if", "extract_if", "retain_in", "retain", "remove"):
                # a clean-up of the key-ordered index at prune time: the index holds one id (namespace, key, author) per record of
                # this author under the prefix (rows 0..n-1, as in the records table) and one id of another author
                gone = []
                if ct[1] == "remove":
                    import re as _re
                    m_ = _re.fullmatch(r"\(k(\d+)\.ns,k(\d+)\.key,(k(\d+)\.author|other-author)\)", names[1].replace(" ", "").replace("&", "").replace("*", ""))
                    gone.append(int(m_.group(1)) if (m_ and m_.group(1) == m_.group(2) == m_.group(4)) else names[1])
                else:
                    rows = [(i, "k%d.author" % i) for i in range(len(verdicts))] + [(9, "other-author")]
                    for i, au in rows:
                        row_k = ("tuple", [E.Tok("k%d.ns" % i), E.Tok("k%d.key" % i), E.Tok(au)])
                        r = it.deref_val(it.apply(args[-1], [row_k, E.UNIT]))
                        if not E.is_int(r):
                            raise E.Unsupported("index row callback verdict undetermined")
                        if bool(r[1]) != ct[1].startswith("retain"):
                            gone.append(i)
                log.setdefault("index_removed", []).extend(gone)
                if ct[1].startswith("retain") or ct[1] == "remove":
                    return E.Ok(E.UNIT) if ct[1] != "remove" else E.Ok(E.NONE)
                return E.Ok(coll.seq("iter", [E.Tok("irow%s" % g) for g in gone]))
            if ct and ct[1] in ("extract_from_if", "extract_if", "retain_in", "retain"):
                log["table"], log["bounds"] = ct[0], names[1] if len(names) > 2 else None
                removed = []
                for i, v in enumerate(verdicts):
                    row_k = ("tuple", [E.Tok("k%d.ns" % i), E.Tok("k%d.author" % i), E.Tok("k%d.key" % i)])
                    row_v = ("tuple", [E.Tok("v%d.timestamp" % i), E.Tok("v%d.ns_sig" % i), E.Tok("v%d.author_sig" % i), E.Tok("v%d.len" % i), E.Tok("v%d.hash" % i)])
                    r = it.deref_val(it.apply(args[-1], [row_k, row_v]))
                    if not E.is_int(r):
                        raise E.Unsupported("row callback verdict undetermined")
                    keep_means_true = ct[1].startswith("retain")
                    if bool(r[1]) != keep_means_true:
                        removed.append(E.Ok(("tuple", [E.Tok("kg%d" % i), E.Tok("vg%d" % i)])))
                if ct[1].startswith("retain"):
                    log["retain"] = len(removed)
                    return E.Ok(E.UNIT)
                return E.Ok(coll.seq("iter", removed))
            if name == "value" and names and names[0].startswith("kg") and names[0][2:].isdigit():
                i_ = names[0][2:]
                return ("tuple", [E.Tok("k%s.ns" % i_), E.Tok("k%s.author" % i_), E.Tok("k%s.key" % i_)])
            if callee_matches(t, r"sync::Record::new$"):
                cb = f.body("sync::Record::new")
                return E.Tok("Record(%s)" % ",".join("%s=%s" % (cb.local_name(i + 1), n) for i, n in enumerate(names)))
            if name in ("call", "call_mut", "call_once") and names and names[0] == "predicate":
                i = len(log["asked"])
                log["asked"].append(names[1][1:-1] if names[1].startswith("(") and names[1].endswith(")") else names[1])
                return E.Int(verdicts[i] if i < len(verdicts) else 0)
            if name in ("into", "from") and len(args) == 1:
                return args[0]
            return coll.Collections(f).handle(kind, name, payload, site)
        try:
            ret, it_ = E.run_it(f, rpf.path, [E.href("self"), E.href("id"), E.Tok("predicate")], {"self": E.Tok("self"), "id": E.Tok("id")}, oracle)
            got = E.describe(it_.resolve(ret), f)
        except E.Unsupported as ex:
            got = "UNSUPPORTED-FORM: %s" % ex
        want_asked = ["Record(hash=v%d.hash,len=v%d.len,timestamp=v%d.timestamp)" % (i, i, i) for i in range(len(verdicts))]
        ok = got == "Ok(%d)" % sum(verdicts) and log["asked"] == want_asked and log["table"] == "records" and (log["bounds"] or "").startswith("author_prefix(namespace(id),author(id),key")
        # whatever the prune does to the key-ordered index, it may only drop the ids of records it removed: the id of a record
        # that survives (it is newer than the entry being inserted) or of another author must stay, or that record is no longer
        # found by key-ordered and latest-per-key queries while lookups and author-ordered queries still return it
        ir = log.get("index_removed", [])
        bad_ir = [g for g in ir if g == 9 or (isinstance(g, int) and g < len(verdicts) and not verdicts[g]) or not isinstance(g, int)]
        ctx.check(not got.startswith("UNSUPPORTED") and not bad_ir, "C02.R1", rpf.path, "index-ids-of-surviving-records-kept[%s]" % ("".join(str(v) for v in verdicts) or "no-rows"),
                  "returns %s; index ids dropped by the prune: rows %s of verdicts %s (row 9 = another author's); spec: only ids of removed records" % (got, ir, list(verdicts)), rpf.sp)
        ctx.check(ok, "C02.R1", rpf.path, "predicate-decides[%s]" % ("".join(str(v) for v in verdicts) or "no-rows"),
                  "returns %s; the predicate was asked about %s on table %s within %s; spec: each row's own (hash, len, timestamp), the verdict decides, the count of removed rows is returned: Ok(%d)" % (got, log["asked"], log["table"], log["bounds"], sum(verdicts)), rpf.sp)

    # Record order: (timestamp, hash) lexicographic - Ord::cmp evaluated on the 3x3 orders of the two fields
    from . import feval as E
    rc = f.body("<sync::Record as std::cmp::Ord>::cmp")
    ctx.touch(rc)
    tbl = {}
    NAMES = {-1: "Less", 0: "Equal", 1: "Greater"}
    def record_cmp(ts, h, ln=0):
        def oracle(kind, a, b2, site):
            if kind in ("cmp", "eq"):
                a, b2 = str(a), str(b2)
                c = None
                if "timestamp" in a and "timestamp" in b2:
                    c = ts if a.startswith("self") else -ts
                elif "hash" in a and "hash" in b2:
                    c = h if a.startswith("self") else -h
                elif "len" in a and "len" in b2:
                    c = ln if a.startswith("self") else -ln
                if c is None:
                    return None
                return (c == 0) if kind == "eq" else c
            return None
        try:
            ret, hp, ev = E.run(f, rc.path, [E.href("self"), E.href("other")], {"self": E.Tok("self"), "other": E.Tok("other")}, oracle)
            return E.describe(ret, f)
        except E.Unsupported as e:
            return "UNSUPPORTED-FORM: %s" % e
    for ts in (-1, 0, 1):
        for h in (-1, 0, 1):
            tbl[(NAMES[ts], NAMES[h])] = record_cmp(ts, h)
    want = {(NAMES[ts], NAMES[h]): (NAMES[ts] if ts != 0 else NAMES[h]) for ts in (-1, 0, 1) for h in (-1, 0, 1)}
    bad = {k: v for k, v in tbl.items() if v != want[k]}
    ctx.check(not bad, "C02.R1", "<sync::Record as std::cmp::Ord>::cmp", "lexicographic(timestamp,hash)",
              "cmp as a function of (cmp of timestamps, cmp of hashes): deviating cells %s; spec: the timestamp decides, the hash breaks ties" % bad, rc.sp)
    # the order is total over distinct records: two records that differ only in the content length do not compare Equal (they are
    # different entries - put() would keep whichever came first, and the replica's state would depend on the order of arrival)
    tie = {NAMES[ln]: record_cmp(0, 0, ln) for ln in (-1, 1)}
    ctx.check(tie == {"Less": "Less", "Greater": "Greater"}, "C02.R1", "<sync::Record as std::cmp::Ord>::cmp", "distinct-records-never-compare-equal(len)",
              "records equal in timestamp and hash, by cmp of their content lengths: %s; spec: ordered by it (a total order over the whole record)" % tie, rc.sp)
    pc = f.body("<sync::Record as std::cmp::PartialOrd>::partial_cmp")
    ctx.touch(pc)
    calls = [t for _, t in pc.calls()]
    ctx.check(len(calls) == 1 and callee_matches(calls[0], r"<sync::Record as std::cmp::Ord>::cmp$"),
              "C02.R1", "<sync::Record as std::cmp::PartialOrd>::partial_cmp", "delegates-to-cmp",
              "partial_cmp = Some(self.cmp(other)); the comparison operators used by put go through it", pc.sp)
    # value() is the record, key() the id
    val = f.body("<sync::SignedEntry as ranger::RangeEntry>::value")
    ctx.touch(val)
    o = trace(val, {"l": 0, "p": []})
    fl = [[p[2] for p in x.projs if p[0] == "field"] for x in o]
    ctx.check(fl == [["entry", "record"]], "C02.R1", val.path, "value-is-record", "value() returns &self.entry.record (fields %s)" % fl, val.sp)
    ctx.floor("C02.R1", 6)


def _lookup_sites(f, root_path, depth=4):
    """call sites of store::fs::get_exact (the point lookup) reachable from root through local fns"""
    out = []
    seen = set()
    frontier = [root_path]
    for _ in range(depth):
        nxt = []
        for p in frontier:
            if p in seen or p not in f.bodies:
                continue
            seen.add(p)
            b = f.bodies[p]
            for bi, t in b.calls():
                paths = mir.callee_paths(t)
                if any(x == "store::fs::get_exact" for x in paths):
                    out.append((b, bi, t))
                else:
                    for x in paths:
                        if x in f.bodies and x not in seen:
                            nxt.append(x)
            for c in f.children(p):
                nxt.append(c.path)
        frontier = nxt
    return out, seen


def _range_lower_bound(b, keyop, depth=0):
    """if the operand is `x[..len]` / `x[a..len]` with `len` produced by iterating a counted range
    `lo..hi` / `lo..=hi`, return the constant lo (else None)"""
    for o in trace(b, keyop, through_calls=False):
        if o.kind != "call":
            continue
        t = o.data
        n = t["f"].get("name")
        if n in ("as_ref", "deref", "borrow", "as_slice") and t["a"] and depth < 3:
            r = _range_lower_bound(b, t["a"][0], depth + 1)
            if r is not None:
                return r
        if n != "index" or len(t["a"]) < 2:
            continue
        # the range aggregate's end operand
        for ro in trace(b, t["a"][1], through_calls=False):
            if ro.kind != "agg" or ro.data[0][0] != "adt":
                continue
            ops = ro.data[1]
            if not ops:
                continue
            end = ops[-1]
            for eo in trace(b, end, through_calls=False):
                # Some(len) payload of Iterator::next on a range iterator
                cur = [eo]
                for _ in range(6):
                    nxt = []
                    for x in cur:
                        if x.kind == "call":
                            nm = x.data["f"].get("name")
                            if nm == "new" and callee_matches(x.data, r"ops::RangeInclusive"):
                                a0 = x.data["a"][0]
                                if a0[0] == "const" and a0[1].get("val") is not None:
                                    return a0[1]["val"]
                            if x.data["a"]:
                                nxt += trace(b, x.data["a"][0], through_calls=False)
                        elif x.kind == "agg" and x.data[0][0] == "adt" and x.data[0][1].endswith("ops::Range"):
                            a0 = x.data[1][0]
                            if a0[0] == "const" and a0[1].get("val") is not None:
                                return a0[1]["val"]
                    cur = nxt
                    if not cur:
                        break
    return None


def r2(ctx):
    f = ctx.facts
    root = SI + "prefixes_of"
    f.body(root)
    sites, visited = _lookup_sites(f, root)
    ctx.touch(*visited)
    if not sites:
        raise mir.AnchorMissing("no point lookup (store::fs::get_exact) reachable from prefixes_of")
    # (a) deletion markers are not filtered
    for b, bi, t in sites:
        inc = t["a"][4] if len(t["a"]) >= 5 else None
        if inc is None:
            raise mir.AnchorMissing("get_exact no longer takes include_empty as 5th argument")
        vals = set()
        for o in trace(b, inc):
            vals.add(o.data.get("val") if o.kind == "const" else origin_summary(o))
        ctx.check(vals == {1}, "C02.R2a", b.path, "get_exact.include_empty",
                  "parent lookup passes include_empty=%s; a deletion marker is a parent like any other entry, so the lookup used for admission must not filter empty entries" % sorted(vals, key=str),
                  t["sp"])
    # (b) the empty key is looked up: some lookup site is not dominated by the non-empty edge of an emptiness test
    any_unguarded = False
    detail = []
    for b, bi, t in sites:
        guarded = False
        for gbi, gt in b.calls():
            n = gt["f"].get("name")
            if n == "is_empty":
                oc = call_outcomes(b, gbi)
                e = oc.get("false")
                if e and b.edge_dominates(e[0], e[1], bi):
                    guarded = True
                    detail.append("lookup at %s is dominated by the is_empty()==false edge from %s" % (t["sp"], gt["sp"]))
        # len() > 0 / len() != 0 style guards
        for c in comparisons(b):
            for side, other in (("a", "b"), ("b", "a")):
                origs = trace(b, c[side], through_calls=False)
                if any(o.kind == "call" and o.data["f"].get("name") == "len" for o in origs) and c[other][0] == "const" and c[other][1].get("val") == 0:
                    edges = follow_value(b, c["dest"]["l"]) if not c["dest"]["p"] else {}
                    nonempty_when = None
                    op = c["op"] if side == "a" else {"<": ">", ">": "<", "<=": ">=", ">=": "<=", "==": "==", "!=": "!="}[c["op"]]
                    if op in (">", "!="):
                        nonempty_when = "true"
                    elif op in ("==", "<="):
                        nonempty_when = "false"
                    if nonempty_when and nonempty_when in edges:
                        e = edges[nonempty_when]
                        if b.edge_dominates(e[0], e[1], bi):
                            guarded = True
                            detail.append("lookup at %s is dominated by a len()>0 edge" % t["sp"])
        # a lookup of a sub-slice key[..len] whose len is drawn from a counted range that starts
        # above zero never sees the empty key either
        if not guarded:
            lo = _range_lower_bound(b, t["a"][3])
            if lo is not None and lo >= 1:
                guarded = True
                detail.append("lookup at %s takes key[..len] with len drawn from a range starting at %d: the zero-length prefix is never looked up" % (t["sp"], lo))
        if not guarded:
            any_unguarded = True
    ctx.check(any_unguarded, "C02.R2b", sites[0][0].path, "empty-key-lookup",
              "at least one parent lookup can run with the empty key" if any_unguarded else
              "every parent lookup runs only while the key is non-empty, so an entry at the empty key is never considered a parent: " + "; ".join(detail),
              sites[0][2]["sp"])
    # parents() evaluated (K6' with an abstract Vec<u8> key): which keys are looked up, with deletion markers included,
    # and in which order the hits are returned
    from . import feval as E, coll
    pb = f.body("store::fs::parents")
    ctx.touch(*f.scope(pb.path, prefix="store::fs::"))
    C = coll.Collections(f)
    for key, present in (([7, 8, 9], {(): "e0", (7, 8): "e2", (7, 8, 9): "e3"}), ([7], {(7,): "e1"}), ([], {(): "e0"}), ([5, 6], {}), ([5, 6], {(5,): "err"})):
        looks = []

        def oracle(kind, name, payload, site, present=present):
            if kind != "call":
                return None
            t, args, it = payload
            if callee_matches(t, r"store::fs::get_exact$"):
                kv = it.resolve(it.deref_val(args[3]))
                if not coll.is_seq(kv):
                    raise E.Unsupported("parent lookup with a key that is not the shrinking key buffer")
                k = tuple(x[1] for x in kv[2])
                inc = it.deref_val(args[4])
                looks.append((k, inc[1] if E.is_int(inc) else None))
                hit = present.get(k)
                if hit == "err":
                    return E.Err(E.Tok("storage-error"))
                return E.Ok(E.Some(E.Tok(hit))) if hit else E.Ok(E.NONE)
            return C.handle(kind, name, payload, site)
        try:
            ret, it_ = E.run_it(f, pb.path, [E.href("table"), E.Tok("ns"), E.Tok("author"), coll.seq("vec", [E.Int(x) for x in key])], {"table": E.Tok("records")}, oracle)
            got = coll.render(it_, ret, f)
        except E.Unsupported as ex:
            got = "UNSUPPORTED-FORM: %s" % ex
        prefixes = [tuple(key[:n]) for n in range(len(key), -1, -1)]
        want_hits = []
        for n in range(0, len(key) + 1):
            h = present.get(tuple(key[:n]))
            if h:
                want_hits.append("Err(storage-error)" if h == "err" else "Ok(%s)" % h)
        want = "[%s]" % ",".join(want_hits)
        # the order in which the stored prefixes are yielded is not demanded: put() checks every one of them (R1)
        def multiset(txt):
            return sorted(x for x in txt.strip("[]").split(",") if x) if txt.startswith("[") else txt
        ok = sorted(looks) == sorted((k, 1) for k in prefixes) and multiset(got) == multiset(want)
        ctx.check(ok, "C02.R2b", pb.path, "parents[key=%s,stored=%s]" % (key, sorted(present)),
                  "looks up %s and returns %s; spec: every prefix of the key down to the empty key is looked up once, deletion markers included (include_empty = true), every hit returned (in any order): %s" % (looks, got, want), pb.sp)
    ctx.floor("C02.R2a", 1)
    ctx.floor("C02.R2b", 5)


SHORTEN = {"pop", "truncate", "split_off", "drain", "remove", "clear", "resize", "set_len", "shrink_to", "retain", "split_last", "strip_suffix", "rposition", "split_at", "get", "index", "take"}


def _derived_refs(body, root_local):
    """locals holding (re)borrows/views of root_local, with the 'width' class of the view"""
    D = {root_local: "owner"}
    changed = True
    while changed:
        changed = False
        for bi, si, s in body.statements():
            if s["k"] != "assign" or s["p"]["p"]:
                continue
            dl = s["p"]["l"]
            if dl in D:
                continue
            r = s["r"]
            src = None
            if r[0] == "ref":
                src = r[2]["l"]
            elif r[0] == "use" and r[1][0] in ("copy", "move"):
                src = r[1][1]["l"]
            elif r[0] == "cast" and r[2][0] in ("copy", "move"):
                src = r[2][1]["l"]
            elif r[0] in ("cfd", "rawptr"):
                src = r[1]["l"]
            if src is not None and src in D:
                D[dl] = "ref"
                changed = True
        for bi, t in body.calls():
            if t["d"]["p"] or t["d"]["l"] in D:
                continue
            n = t["f"].get("name")
            if n in ("deref_mut", "as_mut", "as_mut_slice", "borrow_mut", "deref", "as_ref", "as_slice") and t["a"] and t["a"][0][0] in ("copy", "move") and t["a"][0][1]["l"] in D:
                D[t["d"]["l"]] = "view"
                changed = True
    return D


def _fn_can_shorten(f, path, depth=2):
    """does a local function (or its nested closures / local callees) contain a length-reducing op"""
    if path not in f.bodies or depth < 0:
        return False
    for b in f.family(path):
        for bi, t in b.calls():
            n = t["f"].get("name")
            if n in SHORTEN and (callee_matches(t, r"vec::Vec|slice|BytesMut|Bytes") or True):
                return True
            for p in mir.callee_paths(t):
                if p != path and p in f.bodies and p.startswith("store::") and _fn_can_shorten(f, p, depth - 1):
                    return True
        # range re-slicing  &v[..n]
        for bi, t in b.calls():
            if t["f"].get("name") in ("index", "index_mut") and callee_matches(t, r"ops::Range(To|From)?"):
                return True
    return False


def _carry_after_pop(f, path, depth=2):
    """In a helper that shortens a variable-length key (pop/truncate) and then hands the buffer to
    a fixed-width mutator (a local function taking `&mut [u8]`, which carries and zero-fills):
    every path from a shortening call to that mutator must re-test the buffer's new last byte
    (a branch whose condition derives from last()/pop()/is_empty()/len() of the buffer). Returns the
    offending (body, call) sites."""
    bad = []
    if path not in f.bodies or depth < 0:
        return bad
    for b in f.family(path):
        pops = [bi for bi, t in b.calls() if t["f"].get("name") in ("pop", "truncate", "split_off") and callee_matches(t, r"vec::Vec")]
        fixed = []
        for bi, t in b.calls():
            paths = [p for p in mir.callee_paths(t) if p in f.bodies and p != path]
            if not paths:
                continue
            argl = [a[1]["l"] for a in t["a"] if a[0] in ("copy", "move")]
            if any(b.locals[l]["ty"].startswith("&mut [u8]") for l in argl):
                fixed.append((bi, t))
            else:
                for p in paths:
                    bad += _carry_after_pop(f, p, depth - 1)
        for fbi, ft in fixed:
            for pb in pops:
                if fbi not in b.reachable(pb):
                    continue
                # blocks with a re-test of the buffer
                tests = set()
                for bi, blk in enumerate(b.blocks):
                    tt = blk["t"]
                    if tt["k"] == "switch" and tt["d"][0] in ("copy", "move"):
                        for o in trace(b, tt["d"], through_calls=False):
                            stack = [o]
                            d0 = 0
                            while stack and d0 < 12:
                                d0 += 1
                                x = stack.pop()
                                if x.kind == "call":
                                    if x.data["f"].get("name") in ("last", "pop", "is_empty", "len", "last_mut", "ends_with"):
                                        tests.add(bi)
                                    else:
                                        for a in x.data["a"]:
                                            if a[0] != "const":
                                                stack.extend(trace(b, a, through_calls=False))
                                elif x.kind == "expr" and x.data[0] in ("bin", "un", "discr"):
                                    ops = [x.data[2], x.data[3]] if x.data[0] == "bin" else ([x.data[2]] if x.data[0] == "un" else [["copy", x.data[1]]])
                                    for a in ops:
                                        if a[0] != "const":
                                            stack.extend(trace(b, a, through_calls=False))
                # is there a path pop -> fixed avoiding every test block (after the pop block itself)?
                region = b.reach_from_edges(b.succ()[pb], avoid=tests - {fbi})
                if fbi in region:
                    bad.append((b, ft))
    return bad


def r3(ctx):
    f = ctx.facts
    targets = ["store::fs::bounds::RecordsBounds::author_key", "store::fs::bounds::ByKeyBounds::new"]
    n_sites = 0
    for path in targets:
        b = f.body(path)
        ctx.touch(b)
        for bi, si, s in b.statements():
            if s["k"] != "assign" or s["r"][0] != "agg" or s["r"][1][0] != "adt":
                continue
            if not s["r"][1][1].endswith("ops::Bound") or s["r"][1][2] != "Excluded":
                continue
            payload = s["r"][2][0]
            tup = [o for o in trace(b, payload) if o.kind == "agg" and o.data[0][0] == "tuple"]
            if len(tup) != 1:
                continue
            ops = tup[0].data[1]
            for idx, op in enumerate(ops):
                if op[0] not in ("copy", "move"):
                    continue
                ty = b.locals[op[1]["l"]]["ty"]
                if "Bytes" not in ty and "Vec<u8>" not in ty:
                    continue
                # find the Vec<u8>/BytesMut owner in the derivation chain
                owners = _chain_owner_locals(b, op)
                origs = trace(b, op, view=re.compile(mir.VIEW.pattern[:-2] + r"|into|from)$"))
                from_prefix = any(o.kind in ("arg", "upvar") for o in origs)
                if not from_prefix:
                    continue  # constant empty key etc.: nothing variable-length to bound
                n_sites += 1
                ok = False
                why = []
                for ol in owners:
                    D = _derived_refs(b, ol)
                    for cbi, t in b.calls():
                        argl = [a[1]["l"] for a in t["a"] if a[0] in ("copy", "move")]
                        hit = [l for l in argl if l in D and l != ol or (l == ol and False)]
                        if not hit:
                            continue
                        n = t["f"].get("name")
                        if n in ("deref_mut", "as_mut", "as_mut_slice", "borrow_mut", "deref", "as_ref", "as_slice", "into", "clone", "to_vec", "from"):
                            continue
                        aty = b.locals[hit[0]]["ty"]
                        if n in SHORTEN and "[u8]" not in aty.replace("Vec<u8>", ""):
                            ok = True
                            why.append("%s on %s" % (n, aty))
                        elif aty.startswith("&mut [u8]") or aty.startswith("&mut [u8;"):
                            why.append("%s takes %s (a slice view cannot shorten the key)" % (t["f"].get("path"), aty))
                        else:
                            for p in mir.callee_paths(t):
                                if _fn_can_shorten(f, p):
                                    misuse = _carry_after_pop(f, p)
                                    if misuse:
                                        why.append("%s shortens the key but then applies the fixed-width carry of `%s` without re-testing the new last byte: "
                                                   "a prefix ending in two 0xFF bytes gets a zero-padded end bound that admits a neighbouring key" % (p, misuse[0][1]["f"].get("name")))
                                    else:
                                        ok = True
                                        why.append("%s can shorten" % p)
                # a helper that computes the successor from the prefix by value
                for o in origs:
                    pass
                for o in trace(b, op):
                    if o.kind == "call":
                        for p in mir.callee_paths(o.data):
                            if p in f.bodies and _fn_can_shorten(f, p):
                                ok = True
                                why.append("computed by %s which can shorten" % p)
                ctx.check(ok, "C02.R3", path, "excluded-end.key-component[%d]" % idx,
                          ("exclusive end bound of a variable-length key prefix: " + ("; ".join(why) if why else "no mutation found") +
                           (". For a prefix ending in 0xFF the only correct exclusive end is strictly shorter than the prefix; "
                            "a fixed-width increment yields a key that admits non-matching keys (e.g. prefix [1,255] -> end [2,0] admits key [2])" if not ok else "")),
                          s["sp"])
    if n_sites < 2:
        raise mir.AnchorMissing("expected >=2 exclusive prefix end bounds (records + by-key), found %d" % n_sites)
    # the two byte-string primitives evaluated (K6') on concrete byte strings: fixed-width increment with carry, and the
    # shortening successor of a variable-length prefix (the smallest string greater than every string with that prefix)
    from . import feval as E, coll
    C = coll.Collections(f)

    def run_bytes(path, data):
        heap = {"buf": coll.seq("vec", [E.Int(x) for x in data])}
        try:
            ret, it = E.run_it(f, path, [E.href("buf")], heap, lambda k, n, p2, s2: C.handle(k, n, p2, s2))
            b2 = it.resolve(it.heap["buf"])
            if ret is not None and ret[0] == "diverge":
                return "PANIC", None
            return E.describe(ret, f), [x[1] if E.is_int(x) else E.describe(x, f) for x in b2[2]]
        except E.Unsupported as e:
            return "UNSUPPORTED-FORM: %s" % e, None

    def inc_spec(d):
        d = list(d)
        for i in range(len(d) - 1, -1, -1):
            if d[i] != 255:
                d[i] += 1
                for j in range(i + 1, len(d)):
                    d[j] = 0
                return "1", d
        return "0", None

    def succ_spec(d):
        d = list(d)
        while d and d[-1] == 255:
            d.pop()
        if not d:
            return "0", None
        d[-1] += 1
        return "1", d
    samples = ([1, 2, 3], [1, 255], [255, 255], [0, 255, 255], [], [7], [1, 255, 0], [254, 255], [0], [255], [3, 255, 255, 255])
    for path, spec, what in (("store::fs::bounds::increment_by_one", inc_spec, "fixed-width increment: +1 with carry, trailing 255 bytes become 0, false iff all bytes are 255"),
                             ("store::fs::bounds::prefix_successor", succ_spec, "shortening successor: trailing 255 bytes dropped, last remaining byte +1, false iff none remains")):
        b = f.body(path)
        ctx.touch(*f.scope(path, prefix="store::fs::bounds::"))
        bad = []
        for d in samples:
            got = run_bytes(path, d)
            want = spec(d)
            if got[0] != want[0] or (want[1] is not None and got[1] != want[1]):
                bad.append("%s -> %s, spec %s" % (d, got, want))
        ctx.check(not bad, "C02.R3", path, "byte-string-table", "evaluated on %d byte strings; deviating: %s; spec: %s" % (len(samples), bad[:4], what), b.sp)
    ctx.floor("C02.R3", 4)


def _chain_owner_locals(body, op):
    """Vec<u8>/BytesMut locals in the backward derivation chain of op"""
    owners = []
    seen = set()
    stack = [op[1]["l"]]
    while stack:
        l = stack.pop()
        if l in seen:
            continue
        seen.add(l)
        ty = body.locals[l]["ty"]
        if ty in ("std::vec::Vec<u8>", "bytes::BytesMut"):
            owners.append(l)
        for d in body.defs().get(l, []):
            if d[2] == "assign":
                r = d[3]["r"]
                if r[0] == "use" and r[1][0] in ("copy", "move"):
                    stack.append(r[1][1]["l"])
                elif r[0] == "ref":
                    stack.append(r[2]["l"])
                elif r[0] == "cast" and r[2][0] in ("copy", "move"):
                    stack.append(r[2][1]["l"])
            elif d[2] == "call":
                t = d[3]
                if t["f"].get("name") in ("into", "from", "clone", "freeze", "to_vec", "to_owned", "deref", "as_ref") and t["a"] and t["a"][0][0] in ("copy", "move"):
                    stack.append(t["a"][0][1]["l"])
    return owners


def r4(ctx):
    f = ctx.facts
    b = f.body(SI + "remove_prefix_filtered")
    ctx.touch(b)
    bi, t = one_call(b, r"RecordsBounds::author_(prefix|key)$")
    want = ["namespace", "author", "key"]
    for i, w in enumerate(want):
        origs = trace(b, t["a"][i], through_calls=False)
        ok = False
        desc = []
        for o in origs:
            desc.append(origin_summary(o))
            if o.kind == "call" and (o.data["f"].get("name") or "").startswith(w):
                # receiver must be the id argument
                ro = trace(b, o.data["a"][0])
                if all(x.kind == "arg" and x.data[0] == 2 for x in ro):
                    ok = True
        ctx.check(ok and len(origs) == 1, "C02.R4", b.path, "bounds.%s" % w,
                  "prefix-removal bound component %d derives from id.%s() of the inserted entry's id (origins: %s)" % (i, w, desc), t["sp"])
    # that these bounds are the ones the removal runs in, on the records table, and that the count of removed rows is what is
    # reported is decided by the evaluated prune primitive (R1 predicate-decides[...]) - the shape tests that stood here
    # (exactly one `extract_from_if`, `count()` of its iterator) were retired: they constrained the spelling, not the behaviour
    ctx.floor("C02.R4", 3)


def r5(ctx):
    f = ctx.facts
    put = f.body(PUT)
    ni = [bi for bi, si, s in put.statements()
          if s["k"] == "assign" and s["r"][0] == "agg" and s["r"][1][0] == "adt" and s["r"][1][2] == "NotInserted"]
    muts = find_calls(put, r"(entry_put|remove_prefix_filtered|entry_remove)$")
    if len(muts) < 2:
        raise mir.AnchorMissing("put no longer calls both remove_prefix_filtered and entry_put")
    for bi, t in muts:
        reach = put.reachable(bi)
        bad = [b for b in ni if b in reach]
        ctx.check(not bad, "C02.R5", PUT, "no-mutation-before-reject.%s" % t["f"]["name"],
                  "no NotInserted return is reachable after %s" % t["f"]["name"] if not bad else
                  "a NotInserted return is reachable after the store was mutated by %s" % t["f"]["name"], t["sp"])
    # order: prune before write, both after the admission loop (dominated by loop exit)
    ep = [x for x in muts if x[1]["f"]["name"] == "entry_put"]
    rp = [x for x in muts if x[1]["f"]["name"] == "remove_prefix_filtered"]
    ctx.check(len(ep) == 1 and len(rp) == 1 and put.dominates(rp[0][0], ep[0][0]), "C02.R5", PUT, "prune-then-write",
              "entry_put is dominated by remove_prefix_filtered (the new entry is never subject to its own pruning)", ep[0][1]["sp"] if ep else put.sp)
    # (that Inserted{removed} carries the prune's count is decided by R1's evaluated rows: `Ok(Inserted(removed))`)
    ctx.floor("C02.R5", 3)


def r6(ctx):
    """every entry offered through the asynchronous handle - a local write, a local deletion, a remote insert - reaches the
    replica (no request is answered without having been offered to it), with the fields of the request (K14b)"""
    from . import actorfw
    actorfw.claim(ctx, "C02.R6", handlers=("InsertLocal", "DeletePrefix", "InsertRemote"), floor=10)


def r7(ctx):
    """"a rejected (superseded) entry changes nothing" - nor does a request that fails for another reason take earlier accepted
    entries with it: the shared write transaction survives a failing body (the failing-body rows of C06.R4)"""
    from . import C06
    C06.share_failing_body(ctx, "C02.R7")


def r8(ctx):
    """what a replica *shows* must not depend on the order of arrival either: index rows left behind by a prune (they exist only on
    the replica that pruned) are skipped by the key-ordered scan, they do not end it (the stale-row cells of C05.R6)"""
    from . import C05
    sub = type(ctx)(ctx.prop, ctx.tier, ctx.facts, ctx.cfg)
    C05.r6(sub)
    for o in sub.obligations:
        o = dict(o)
        o["key"] = re.sub(r"^C\d\d\.R\w+", "C02.R8", o["key"])
        o["rule"] = "C02.R8"
        ctx.obligations.append(o)
        if o["status"] != "holds":
            ctx.violations.append(o)
    ctx.analysed_bodies |= sub.analysed_bodies
    ctx.floor("C02.R8", 2)


def r9(ctx):
    """what the replica offers to its store on behalf of a local write or deletion does not depend on what the store holds at
    that moment (a deletion of a prefix under which nothing is stored yet still writes its marker: an older entry below it may
    arrive later, and the held state must not depend on that order) - Replica::insert / delete_prefix evaluated (= C03.R9)"""
    from . import C03
    ctx.share("C02.R9", lambda c: C03.local_authoring(c, "C03.R9"), "C03.R9", floor=7)


def r10(ctx):
    """"removes exactly the same-author entries whose key starts with its key ... never touches another author's entries or keys
    that merely sort next to the prefix": the scan range of one author's key prefix (RecordsBounds::author_key, behind the prune
    and the author-ordered queries) evaluated on concrete ids - incl. author / namespace ids ending in 0xFF and all-0xFF - and
    prefixes - incl. empty, ending in 0xFF, all-0xFF - and decided on sample rows of this author, of greater and smaller authors
    and of the next document: exactly (this document, this author, keys starting with the prefix)"""
    from . import feval as E, coll
    f = ctx.facts
    AK = "store::fs::bounds::RecordsBounds::author_key"
    b = f.body(AK)
    ctx.touch(*f.scope(AK, prefix="store::fs::bounds::"))
    C = coll.Collections(f)

    def vec(bs):
        return coll.seq("vec", [E.Int(x) for x in bs])

    def to_bytes(it, v):
        v = it.resolve(v)
        v = it.deref_val(v) if (v is not None and v[0] == "ref") else v
        if v is not None and v[0] == "seq" and all(E.is_int(it.resolve(x)) for x in v[2]):
            return bytes(it.resolve(x)[1] for x in v[2])
        m_ = re.fullmatch(r"\[(\d+); _\]", E.describe(v, f))
        if m_:
            return bytes([int(m_.group(1))]) * 32       # `[0u8; 32]`
        raise ValueError("not a concrete byte string: %s" % E.describe(v, f))

    def run(ns, author, prefix):
        def oracle(kind, name, payload, site):
            if kind != "call":
                return None
            t, args, it = payload
            names = [it.tokname(a).strip("&*") for a in args]
            if name in ("to_bytes", "as_bytes") and names and names[0] in ("ns", "author"):
                return vec(ns if names[0] == "ns" else author)
            if name == "new" and callee_matches(t, r"Bytes::new"):
                return vec(b"")
            if name in ("to_vec", "into", "from", "clone", "to_owned", "freeze", "copy_from_slice") and len(args) == 1:
                v = it.deref_val(args[0]) if args[0][0] == "ref" else args[0]
                if v is not None and v[0] == "seq":
                    return coll.seq("vec", list(v[2]))
            return C.handle(kind, name, payload, site)
        kf = E.variant(f, "store::KeyFilter", "Prefix", vec(prefix))
        ret, itp = E.run_it(f, AK, [E.Tok("ns"), E.Tok("author"), kf], {}, oracle)
        rb = itp.resolve(ret)
        out = []
        for i in (0, 1):
            bd = itp.resolve(rb[3][i])
            kind = {0: "incl", 1: "excl", 2: "unbounded"}[bd[2]]
            if kind == "unbounded":
                out.append((kind, None))
            else:
                tp = itp.resolve(bd[3][0])
                out.append((kind, tuple(to_bytes(itp, x) for x in tp[1])))
        return tuple(out)
    from . import keyrange

    def succ32(x):
        d = list(x)
        for i in range(31, -1, -1):
            if d[i] != 255:
                d[i] += 1
                for j in range(i + 1, 32):
                    d[j] = 0
                return bytes(d)
        return None
    n = 0
    for ns in (bytes([7]) * 32, bytes([255]) * 32):
        for author in (bytes([3]) * 32, bytes([3]) * 31 + b"\xff", bytes([255]) * 32):
            for prefix in (b"", b"a", b"\xff", b"a\xff", b"\xff\xff"):
                key = "author-prefix-range[ns=%02x..,author=%s,prefix=%s]" % (ns[0], author[-2:].hex(), prefix.hex() or "empty")
                n += 1
                try:
                    rng = run(ns, author, prefix)
                except (E.Unsupported, ValueError, KeyError, IndexError, TypeError) as e:
                    ctx.bad("C02.R10", AK, key, "UNSUPPORTED-FORM: %s" % e, b.sp)
                    continue
                authors = {author, bytes(32), bytes([255]) * 32, bytes([author[0]]) + bytes(31), bytes([4]) * 32, bytes([3]) * 31 + b"\xfe"}
                if succ32(author):
                    authors.add(succ32(author))
                if author[-1] != 255:
                    authors.add(author[:-1] + bytes([author[-1] + 1]))
                else:
                    authors.add(author[:-2] + bytes([(author[-2] + 1) % 256, 255]) if author[-2] != 255 else author)
                nss = {ns}
                if succ32(ns):
                    nss.add(succ32(ns))
                nss.add(bytes([ns[0] - 1]) * 32)
                keys = {b"", b"\x00", prefix, prefix + b"\x00", prefix + b"\xff", prefix + b"zz", b"\xff\xff\xff", b"b", b"a", b"a\xff\x00", b"b\x00"}
                if prefix:
                    keys.add(prefix[:-1])
                    keys.add(prefix[:-1] + bytes([(prefix[-1] + 1) % 256]))
                missing, foreign = [], []
                for n2 in nss:
                    for a2 in authors:
                        for k in keys:
                            want = n2 == ns and a2 == author and k.startswith(prefix)
                            got = keyrange.inside((n2, a2, k), rng)
                            if want and not got:
                                missing.append((n2[:1].hex(), a2[-2:].hex(), k.hex()))
                            if got and not want:
                                foreign.append((n2[:1].hex(), a2[-2:].hex(), k.hex()))
                ctx.check(not missing and not foreign, "C02.R10", AK, key,
                          "range %s; rows of the prefix outside it: %s; rows of other authors / documents / keys inside it: %s" % (
                              tuple((k, tuple(x.hex()[-6:] for x in v) if v else None) for k, v in rng), missing[:3], foreign[:3]), b.sp)
    ctx.floor("C02.R10", 30)


def r12(ctx):
    """what a replica holds - and shows through either access path - does not depend on the order of arrival: the raw store write
    (entry_put) gives every admitted entry its record and its key-ordered index row, whether or not it is newer than the author's
    head (the entry_put cells of C18.R2)"""
    from . import C18
    ctx.share("C02.R12", C18.r2, "C18.R2", keep=lambda k: "entry_put[" in k, floor=3)

def r13(ctx):
    """"the entries a replica holds depend only on the set of valid entries ever offered to it": an entry offered to one replica is
    validated against, pruned in and stored in *that* replica - the single-entry ingress evaluated (C12.R3's cells: validate_entry
    for this replica's id, the store of this replica offered the entry once, nothing on a rejected one). An entry of a neighbour
    document admitted by mistake prunes and lands in the neighbour (C02-13)."""
    from . import syncstep
    syncstep.check_insert_paths(ctx, "C02.R13")
    ctx.floor("C02.R13", 12)

def r14(ctx):
    """"an entry is kept exactly when no entry ... is newer", for every valid entry offered - also the ones that arrive next to an invalid
    one: in a reconciliation message a rejected entry is skipped and the rest is processed (C03.R1's validate closure is the place
    that rejects, C03.R6: a failed validation continues the loop; C02-14 moved the validation in front of the loop with `?`)"""
    from . import C03
    ctx.share("C02.R14", C03.r1, "C03.R1", keep=lambda k: "validate-closure" in k or "validates-the-received-entry" in k, floor=2)
    ctx.share("C02.R14", C03.r6, "C03.R6", floor=3)

def r15(ctx):
    """the admission rule is the one evaluated by R1 for *every* implementation: a store that overrides a default method of
    ranger::Store (put, get_range_len, ...) replaces the evaluated default for production - its override is evaluated on the same
    table (put: R1's parent sequences; get_range_len: C08.R6), an override without a table fails closed (C08-13: a `put` of the
    redb store with a fast path keyed on the author head)"""
    overrides(ctx, "C02.R15")
    ctx.floor("C02.R15", 1)


def overrides(ctx, rule):
    f = ctx.facts
    defaults = sorted(p.split("::")[-1] for p, b in f.bodies.items() if re.match(r"^ranger::Store::\w+$", p) and b.kind in ("fn", "assoc_fn"))
    if "put" not in defaults or "get_range_len" not in defaults:
        raise mir.AnchorMissing("default methods of ranger::Store found: %s" % defaults)
    impls = sorted(p for p in f.bodies if re.match(r"^<.* as ranger::Store<.*>>::\w+$", p) and not p.startswith("<&mut ") and f.bodies[p].kind in ("fn", "assoc_fn"))
    over = [p for p in impls if p.split("::")[-1] in defaults]
    if not over:
        ctx.ok(rule, "ranger::Store", "no-default-method-overridden", "implementations %s override none of the default methods %s: the evaluated defaults are what runs" % (sorted({p.split(" as ")[0] for p in impls}), defaults), None)
        return
    for p in over:
        b = f.body(p)
        ctx.touch(b)
        name = p.split("::")[-1]
        if name == "put":
            badr = []
            for parents in ([], [-1], [0], [1], [1, -1], [1, 0], [1, 1], [-1, 1], ["err"], [1, "err"]):
                got, log, pred = eval_put(f, parents, path=p)
                if any(x == "err" for x in parents) and all(x == 1 for x in parents[:parents.index("err")]):
                    want = "Err(storage-error)"
                elif any(x in (-1, 0) for x in parents if x != "err"):
                    want = "Ok(NotInserted)"
                else:
                    want = "Ok(Inserted(removed))"
                if got != want:
                    badr.append((parents, got, "spec " + want))
            ctx.check(not badr, rule, p, "override-agrees-with-the-table[put]", "the overriding put evaluated on R1's parent sequences: deviating %s" % badr[:4], b.sp)
        elif name == "get_range_len":
            ctx.ok(rule, p, "override-agrees-with-the-table[get_range_len]", "evaluated by C08.R6", b.sp)
        else:
            ctx.bad(rule, p, "override-without-a-table[%s]" % name, "UNSUPPORTED-FORM: %s overrides a default method of ranger::Store whose evaluated table is bound to the default" % p, b.sp)

def run(ctx):
    ctx.run_rule("C02.R1", r1)
    ctx.run_rule("C02.R2", r2)
    ctx.run_rule("C02.R3", r3)
    ctx.run_rule("C02.R4", r4)
    ctx.run_rule("C02.R5", r5)
    ctx.run_rule("C02.R6", r6)
    ctx.run_rule("C02.R7", r7)
    ctx.run_rule("C02.R9", r9)
    ctx.run_rule("C02.R8", r8)
    ctx.run_rule("C02.R10", r10)
    ctx.run_rule("C02.R12", r12)
    ctx.run_rule("C02.R13", r13)
    ctx.run_rule("C02.R14", r14)
    ctx.run_rule("C02.R15", r15)

"""The key algebra of src/keys.rs evaluated (K6'): every conversion between a secret, its public key, the 32-byte id and back is a
function of exactly the value it is named after. ("both its namespace and author signatures verify over exactly its content" - with
the keys its own ids name, C03; "importing the write secret upgrades it" - the document a secret belongs to is the id derived from
that secret's public key, C07; "author and namespace keys keep their pinned byte encodings", C09.)

Each function is evaluated once on opaque arguments named after its parameters, foreign calls (iroh's SecretKey / PublicKey) stay
uninterpreted applications; the rendering of the result must equal the row written from the meaning of the function's name.
`clone` / `copied` / `to_owned` / `into` of an opaque value are the value. A function that is missing fails closed only for the
rows marked required (the others are conveniences a refactoring may remove)."""
import re
from . import feval as E

P, S = "public(%s.signing_key)", "%s.signing_key"


def rows():
    R = []
    for sec, pub, idt, lookup in (("Author", "AuthorPublicKey", "AuthorId", "author_key"), ("NamespaceSecret", "NamespacePublicKey", "NamespaceId", "namespace_key")):
        k = "keys::"
        R += [
            # (path, expected renderings, required, meaning)
            (k + sec + "::id", ["%s(as_bytes(%s))" % (idt, P % "self")], True, "the id of a secret is the bytes of its own public key"),
            (k + sec + "::public_key", ["%s(%s)" % (pub, P % "self")], True, "the public key of a secret is its own"),
            (k + sec + "::sign", ["sign(%s,msg)" % (S % "self")], True, "signs the message given with its own secret"),
            (k + sec + "::verify", ["verify(%s,msg,signature)" % (P % "self")], False, "verifies against its own public key"),
            (k + sec + "::to_bytes", ["to_bytes(%s)" % (S % "self")], True, "pinned encoding: the 32 bytes of the secret"),
            (k + sec + "::from_bytes", ["from_bytes(bytes)", "%s(from_bytes(bytes))" % sec], True, "pinned encoding: the secret made of exactly these 32 bytes"),
            (k + pub + "::verify", ["verify(self.0,msg,signature)"], True, "verifies message and signature given against this key"),
            (k + pub + "::as_bytes", ["as_bytes(self.0)"], True, "pinned encoding: the 32 bytes of the key"),
            (k + pub + "::from_bytes", ["Ok(%s(key-of(bytes)))|Err" % pub], True, "the key parsed from exactly these bytes; not a curve point = error"),
            (k + idt + "::to_bytes", ["self.0"], True, "pinned encoding: the id is its 32 bytes"),
            (k + idt + "::as_bytes", ["self.0"], True, "pinned encoding: the id is its 32 bytes"),
            (k + idt + "::into_public_key", ["Ok(%s(key-of(self.0)))|Err" % pub], True, "the key parsed from the id's own bytes"),
            (k + idt + "::public_key", ["%s(store,self)" % lookup], True, "asks the key store for this very id"),
            ("<%s%s as std::convert::From<[u8; 32]>>::from" % (k, idt), ["%s(value)" % idt], True, "the id made of exactly these bytes"),
            ("<%s%s as std::convert::From<&[u8; 32]>>::from" % (k, idt), ["%s(value)" % idt], False, "the id made of exactly these bytes"),
            ("<%s%s as std::convert::From<%s%s>>::from" % (k, idt, k, pub), ["%s(as_bytes(value))" % idt], True, "the id of a public key is its bytes"),
            ("<%s%s as std::convert::From<&%s%s>>::from" % (k, idt, k, pub), ["%s(as_bytes(value))" % idt], False, "the id of a public key is its bytes"),
            ("<%s%s as std::convert::From<%s%s>>::from" % (k, idt, k, sec), ["%s(as_bytes(%s))" % (idt, P % "value")], False, "the id of a secret is the bytes of its public key"),
            ("<%s%s as std::convert::From<%s%s>>::from" % (k, pub, k, sec), ["%s(%s)" % (pub, P % "value")], False, "the public key of the secret given"),
            ("<%s%s as std::convert::From<&%s%s>>::from" % (k, pub, k, sec), ["%s(%s)" % (pub, P % "value")], False, "the public key of the secret given"),
            ("<%s%s as std::convert::TryFrom<%s%s>>::try_from" % (k, pub, k, idt), ["Ok(%s(key-of(value.0)))|Err" % pub], False, "the key parsed from the id's own bytes"),
            ("%s<impl std::convert::From<%s%s> for [u8; 32]>::from" % (k, k, idt), ["value.0"], False, "the id's bytes"),
            ("<%s%s as std::convert::AsRef<[u8]>>::as_ref" % (k, idt), ["self.0"], False, "the id's bytes"),
            ("<%s%s as std::cmp::Ord>::cmp" % (k, idt), ["cmp(self.0,other.0)"], True, "ids are ordered like their bytes (the order of the records table and of every query by author)"),
            ("<%s%s as std::cmp::PartialOrd>::partial_cmp" % (k, idt), ["partial_cmp(self.0,other.0)", "Some(cmp(self.0,other.0))", "Some(cmp(self,other))"], True, "ids are ordered like their bytes"),
            ("%s_::<impl net::_::_serde::Serialize for %s%s>::serialize" % (k, k, idt), ["serialize_newtype_struct(__serializer,str:%s,self.0)" % idt, "serialize(self.0,serializer)", "serialize(self.0,__serializer)"], True, "pinned wire encoding: the bare 32 bytes (a newtype is transparent in postcard)"),
        ]
    return R


def evaluate(f, path):
    b = f.bodies[path]
    outs = []
    for parse_ok in (True, False):
        used = []

        def oracle(kind, name, payload, site):
            if kind != "call":
                return None
            t, args, it = payload
            full = (t["f"].get("full") or "") + " " + (t["f"].get("res") or "")
            names = [it.tokname(a).strip("&*") for a in args]
            if name == "from_bytes" and "PublicKey" in full and "keys::" not in full.split("::from_bytes")[0][-40:]:
                used.append(names[0])
                # in the failing cell only the bytes asked about first are not a curve point (a fallback to other bytes parses)
                return E.Ok(E.Tok("key-of(%s)" % names[0])) if (parse_ok or names[0] != used[0]) else E.Err(E.Tok("not-a-curve-point"))
            if name in ("clone", "copied", "cloned", "to_owned") and len(args) == 1:
                return args[0]      # (`into` / `from` are left to the interpreter: a crate-local conversion is inlined - RF32 delegates
                                    # the by-value conversions to the by-reference ones)
            return None
        heap = {}
        try:
            args = E.default_args(f, path, heap)
            # (the crate's own conversions between key types are evaluated also on opaque values: a conversion may delegate to its sibling)
            inl = tuple(p for p in f.bodies if p.startswith("<keys::") and "std::convert::" in p)
            ret, it = E.run_it(f, path, args, heap, oracle, inline=inl)
            got = E.describe(it.resolve(ret), f)
        except E.Unsupported as e:
            return "UNSUPPORTED-FORM: %s" % str(e)[:160]
        if not used:
            return got
        outs.append(got if parse_ok else re.sub(r"\(.*\)$", "", got))
    return "|".join(outs)


def check(ctx, rule):
    f = ctx.facts
    n = 0
    for path, want, required, meaning in rows():
        b = f.bodies.get(path)
        if b is None:
            if required:
                ctx.bad(rule, path, "key-algebra", "ANCHOR-MISSING: %s (%s)" % (path, meaning))
            continue
        ctx.touch(b)
        got = evaluate(f, path)
        n += 1
        ctx.check(got in want, rule, path, "key-algebra", "evaluates to %s; spec: %s — %s" % (got, " or ".join(want), meaning), b.sp)
    return n

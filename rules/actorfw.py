"""K14b - the store actor as a forwarder (K6' instances).

Handler side: `actor::Actor::on_replica_action` evaluated once per request variant, the request's fields being named
tokens `req.<field>`; the gates of OpenReplicas, the store's methods and the replica's methods are answered by the oracle
(each succeeding; optionally one failing) and logged with their arguments; what is sent into the reply channel is logged.
Client side: each `SyncHandle` method evaluated with its parameters as named tokens; the action it sends is logged.

A property claims the rows it speaks about: which gate was passed, which core function was reached with which of the
request's fields, nothing after a failed step, and that the reply carries that function's result."""
import re
from . import mir
from .mir import callee_matches

RA = "actor::ReplicaAction"
HANDLER = "actor::Actor::on_replica_action"
GATES = ("replica_if_syncing", "replica", "ensure_open", "get_mut")


def variants(f):
    return {v["name"]: [x["name"] for x in v["fields"]] for v in f.adt(RA)["variants"]}


def eval_handler(f, variant, fail=None):
    """returns (rendered result, log); log entries: ("gate", name, args) ("store", name, args) ("replica", name, args)
    ("info", name, args) ("reply", rendered) ("set", field, value). `fail` = name of the step that fails."""
    from . import feval as E, coll
    fields = variants(f).get(variant)
    if fields is None:
        raise mir.AnchorMissing("ReplicaAction::%s not found" % variant)
    act = E.variant(f, RA, variant, **{n: E.Tok("req." + n) for n in fields}) if fields else E.variant(f, RA, variant)
    log = []
    C = coll.Collections(f)
    OR = "actor::OpenReplica"

    def fin(kind, name, names, is_async, t):
        log.append((kind, name, names))
        bad = fail == name
        res = E.Err(E.Tok("error:" + name)) if bad else E.Ok(E.Tok("result:" + name))
        # infallible signatures return the value itself
        rty = (t["f"].get("ret") or "")
        if is_async:
            it_pending[("fut:" + name)] = res
            return E.Tok("fut:" + name)
        return res
    it_pending = {}

    def oracle(kind, name, payload, site):
        if kind == "await":
            nm = str(name)
            if nm in it_pending:
                return it_pending[nm]
            if nm.startswith("fut:stream("):
                return E.Ok(E.UNIT)
            return None
        if kind != "call":
            return None
        t, args, it = payload
        names = [it.tokname(a).strip("&*") for a in args]
        full = (t["f"].get("full") or "") + (t["f"].get("path") or "")
        if name == "send" and names and names[0] == "req.reply":
            log.append(("reply", E.describe(it.resolve(args[1]), f) if len(args) > 1 else "?"))
            return E.Ok(E.UNIT)
        if callee_matches(t, r"actor::OpenReplicas::(%s)$" % "|".join(GATES)):
            log.append(("gate", name, names[1:]))
            if fail == name:
                return E.Err(E.Tok("error:" + name))
            if name == "get_mut":
                return E.Ok(E.href("state"))
            return E.Ok(E.Tok("replica") if name.startswith("replica") else E.UNIT)
        if callee_matches(t, r"actor::get_author$"):
            log.append(("store", "get_author", names[1:]))
            return E.Err(E.Tok("error:get_author")) if fail == "get_author" else E.Ok(E.Tok("author-of(%s)" % names[1]))
        if callee_matches(t, r"actor::Actor::(open|close)$"):
            log.append(("actor", name, names[1:]))
            return E.Ok(E.Tok("result:" + name)) if name == "open" else E.Tok("result:" + name)
        if callee_matches(t, r"^store::fs::Store::\w+$"):
            return fin("store", name, names[1:], False, t)
        if callee_matches(t, r"sync::Replica::<.*>::\w+$") or (names and names[0] == "replica"):
            is_async = name in ("insert", "delete_prefix", "insert_remote_entry", "sync_process_message", "hash_and_insert", "insert_entry")
            return fin("replica", name, names[1:], is_async, t)
        if callee_matches(t, r"sync::ReplicaInfo::\w+$") or callee_matches(t, r"sync::Capability::\w+$"):
            log.append(("info", name, names))
            if name == "secret_key":
                return E.Err(E.Tok("error:secret_key")) if fail == "secret_key" else E.Ok(E.href("secret"))
            if name == "subscribers_count":
                return E.Tok("result:subscribers_count")
            return E.UNIT
        if name in ("inc", "inc_by") and "Counter" in full:
            log.append(("count", names[0].split(".")[-1], names[1:]))      # a metric counting applied entries
            return E.UNIT
        if name in ("spawn_local", "spawn") and names and "tasks" in names[0]:
            log.append(("spawn", name, names[1:]))
            it.drive(args[1])         # a spawned task runs: what it does belongs to the handling of the request
            return E.Tok("abort-handle")
        if callee_matches(t, r"actor::iter_to_irpc$"):
            log.append(("stream", "iter_to_irpc", names))
            return E.Tok("fut:stream(%s)" % names[1])
        if name in ("map_ok_or_else",):
            return args[0]
        if name in ("msg", "new", "from") and "anyhow" in full:
            return E.Tok("error")
        return C.handle(kind, name, payload, site)
    actor = E.struct(f, "actor::Actor", states=E.Tok("states"), store=E.Tok("store"), metrics=E.Tok("metrics"), tasks=E.Tok("tasks"))
    heap = {"this": actor, "state": E.struct(f, OR, info=E.Tok("info"), sync=E.Tok("sync-before"), handles=E.Tok("handles")), "secret": E.Tok("secret")}
    try:
        ret, hp, evs = E.run_async(f, HANDLER, [E.href("this"), E.Tok("namespace"), act], heap, oracle)
        st = hp.get("state")
        sync_after = E.describe(E.field(f, st, OR, "sync"), f) if st is not None and st[0] == "adt" else "?"
        if sync_after != "sync-before":
            log.append(("set", "sync", sync_after))
        return E.describe(ret, f), log
    except E.Unsupported as e:
        return "UNSUPPORTED-FORM: %s" % e, log


def eval_client(f, method):
    """a SyncHandle method evaluated: returns (rendered result, [(namespace token, rendered action)]); the reply channel
    answers Ok(reply)"""
    from . import feval as E, coll
    path = "actor::SyncHandle::" + method
    b = f.body(path)
    sent = []
    C = coll.Collections(f)

    def oracle(kind, name, payload, site):
        if kind == "await":
            nm = str(name)
            if nm.startswith("rx") or "channel" in nm or "reply" in nm:
                return E.Ok(E.Ok(E.Tok("reply")))
            if nm.startswith("fut:send"):
                return E.Ok(E.UNIT)
            return None
        if kind != "call":
            return None
        t, args, it = payload
        names = [it.tokname(a).strip("&*") for a in args]
        full = (t["f"].get("full") or "") + (t["f"].get("path") or "")
        if name == "channel" and "oneshot" in full:
            return ("tuple", [E.Tok("reply-tx"), E.Tok("rx")])
        if name == "send" and ("async_channel" in full or "Sender" in full):
            sent.append(E.describe(it.resolve(args[1]), f))
            return E.Tok("fut:send")
        return C.handle(kind, name, payload, site)
    heap = {"self": E.Tok("handle")}
    args = [E.href("self")] + [E.Tok("arg." + (b.local_name(i) or "p%d" % i)) for i in range(2, b.rec["argc"] + 1)]
    try:
        ret, hp, evs = E.run_async(f, path, args, heap, oracle)
        return E.describe(ret, f), sent
    except E.Unsupported as e:
        return "UNSUPPORTED-FORM: %s" % e, sent


# ------------------------------------------------------------------------------------------------------------------
# spec rows, written from what each request means in the property texts: the request acts on the document it is addressed
# to (`namespace`), through the gate the property names (sync-gated for reconciliation and remote inserts, open-gated for
# reads and local writes), hands the core function the request's own fields, and replies with that function's result.
SPEC = {
    "InsertRemote": dict(steps=[("gate", "replica_if_syncing", ["namespace", "store"]), ("replica", "insert_remote_entry", ["req.entry", "req.from", "req.content_status"])], reply="Ok(())"),
    "SyncInitialMessage": dict(steps=[("gate", "replica_if_syncing", ["namespace", "store"]), ("replica", "sync_initial_message", [])], reply="Ok(result:sync_initial_message)"),
    "SyncProcessMessage": dict(steps=[("gate", "replica_if_syncing", ["namespace", "store"]), ("replica", "sync_process_message", ["req.message", "req.from", "req.state"])], reply="Ok((result:sync_process_message,req.state))"),
    "InsertLocal": dict(steps=[("store", "get_author", ["req.author"]), ("gate", "replica", ["namespace", "store"]), ("replica", "insert", ["req.key", "author-of(req.author)", "req.hash", "req.len"])], reply="Ok(())", any_order=2),
    "DeletePrefix": dict(steps=[("store", "get_author", ["req.author"]), ("gate", "replica", ["namespace", "store"]), ("replica", "delete_prefix", ["req.key", "author-of(req.author)"])], reply="Ok(result:delete_prefix)", any_order=2),
    "GetExact": dict(steps=[("gate", "ensure_open", ["namespace"]), ("store", "get_exact", ["namespace", "req.author", "req.key", "req.include_empty"])], reply="Ok(result:get_exact)"),
    "GetMany": dict(steps=[("gate", "ensure_open", ["namespace"]), ("store", "get_many", ["namespace", "req.query"])], reply=None, stream="Ok(result:get_many)"),
    "HasNewsForUs": dict(steps=[("store", "has_news_for_us", ["namespace", "req.heads"])], reply="Ok(result:has_news_for_us)"),
    "SetDownloadPolicy": dict(steps=[("store", "set_download_policy", ["namespace", "req.policy"])], reply="Ok(result:set_download_policy)"),
    "GetDownloadPolicy": dict(steps=[("store", "get_download_policy", ["namespace"])], reply="Ok(result:get_download_policy)"),
    "RegisterUsefulPeer": dict(steps=[("store", "register_useful_peer", ["namespace", "req.peer"])], reply="Ok(result:register_useful_peer)"),
    "GetSyncPeers": dict(steps=[("gate", "ensure_open", ["namespace"]), ("store", "get_sync_peers", ["namespace"])], reply=None),
    "Subscribe": dict(steps=[("gate", "get_mut", ["namespace"]), ("info", "subscribe", ["info", "req.sender"])], reply="Ok(())", nofail={"subscribe"}),
    "Unsubscribe": dict(steps=[("gate", "get_mut", ["namespace"]), ("info", "unsubscribe", ["info", "req.sender"])], reply="Ok(())", nofail={"unsubscribe"}),
    "SetSync": dict(steps=[("gate", "get_mut", ["namespace"])], reply="Ok(())", sets=("sync", "req.sync")),
    "GetState": dict(steps=[("gate", "get_mut", ["namespace"])], reply=None, reply_has=["sync-before", "handles", "result:subscribers_count"]),
    "Open": dict(steps=[("actor", "open", ["namespace", "req.opts"])], reply="Ok(result:open)", nofail={"open"}),
    "Close": dict(steps=[("actor", "close", ["namespace"])], reply="Ok(result:close)", nofail={"close"}),
}


def _steps_of(log):
    return [x for x in log if x[0] in ("gate", "store", "replica", "info", "actor") and not (x[0] == "info" and x[1] == "subscribers_count")]


def check_handler(ctx, rule, variant):
    """one obligation for the success row, one per failing step"""
    f = ctx.facts
    sp = SPEC[variant]
    hb = f.body(HANDLER + "::{closure#0}")
    ctx.touch(hb)
    got, log = eval_handler(f, variant)
    steps = _steps_of(log)
    want = [tuple(s) for s in sp["steps"]]
    k = sp.get("any_order", 0)
    same = steps == want or (k and sorted(map(str, steps[:k])) == sorted(map(str, want[:k])) and steps[k:] == want[k:])
    replies = [x[1] for x in log if x[0] == "reply"]
    ok = got == "Ok(())" and same
    if sp.get("reply") is not None:
        ok = ok and replies == [sp["reply"]]
    if sp.get("reply_has"):
        ok = ok and len(replies) == 1 and all(h in replies[0] for h in sp["reply_has"]) and replies[0].startswith("Ok(")
    if sp.get("stream"):
        st = [x for x in log if x[0] == "stream"]
        ok = ok and len(st) == 1 and st[0][2][0] == "req.reply" and st[0][2][1] == sp["stream"] and any(x[0] == "spawn" for x in log)
    sets = [x for x in log if x[0] == "set"]
    ok = ok and sets == ([("set",) + tuple(sp["sets"])] if sp.get("sets") else [])
    ctx.check(ok, rule, HANDLER, "request[%s]" % variant,
              "handler evaluated with the request's fields as req.*: returns %s; steps %s; replies %s%s; spec: steps %s, reply %s%s" % (
                  got, steps, replies, (" state writes %s" % sets) if sets else "", want, sp.get("reply") or sp.get("reply_has") or ("stream of " + str(sp.get("stream"))),
                  (", state write %s" % (sp["sets"],)) if sp.get("sets") else ""), hb.sp)
    for i, s in enumerate(sp["steps"]):
        if s[1] in sp.get("nofail", ()):
            continue
        got2, log2 = eval_handler(f, variant, fail=s[1])
        steps2 = _steps_of(log2)
        replies2 = [x[1] for x in log2 if x[0] == "reply"]
        streams2 = [x for x in log2 if x[0] == "stream"]
        # nothing of the request is carried out after the failed step, and the failure is what the caller is told
        done_after = [x for x in steps2 if tuple(x) in [tuple(w) for w in want[i + 1:]] and x[0] != "gate" and not (k and i < k and want.index(tuple(x)) < k)]
        told = (len(replies2) == 1 and replies2[0].startswith("Err(")) or (sp.get("stream") and len(streams2) == 1 and streams2[0][2][1].startswith("Err("))
        sets2 = [x for x in log2 if x[0] == "set"]
        counted2 = [x[1] for x in log2 if x[0] == "count"]
        ctx.check(got2 == "Ok(())" and not done_after and bool(told) and not sets2 and not counted2, rule, HANDLER, "request[%s,%s-fails]" % (variant, s[1]),
                  "returns %s; steps %s; replies %s%s%s; spec: nothing of the request is carried out after the failed step, nothing is counted as applied, the caller is told the error" % (
                      got2, steps2, replies2 or [x[2] for x in streams2], (" state writes %s" % sets2) if sets2 else "", (" counted %s" % counted2) if counted2 else ""), hb.sp)


def _camel(m):
    return "".join(p.capitalize() for p in m.split("_"))


def check_client(ctx, rule, method, variant=None):
    """SyncHandle::<method> sends exactly one request: the variant named after it, addressed to its namespace argument,
    every field other than the reply channel holding one of the method's own parameters (each parameter used once, no
    constants), and returns what the actor replied"""
    from . import feval as E
    f = ctx.facts
    variant = variant or _camel(method)
    path = "actor::SyncHandle::" + method
    b = f.body(path)
    ctx.touch(b)
    fields = variants(f).get(variant)
    if fields is None:
        raise mir.AnchorMissing("ReplicaAction::%s not found" % variant)
    got, sent = eval_client(f, method)
    ok = len(sent) == 1
    detail = ""
    # the parameter that names the document is told by its type, not by its name
    ns_params = ["arg." + (b.local_name(i) or "p%d" % i) for i in range(2, b.rec["argc"] + 1) if b.locals[i]["ty"].strip("&") == "keys::NamespaceId"]
    ns_arg = ns_params[0] if len(ns_params) == 1 else "arg.namespace"
    if ok:
        m = re.fullmatch(r"Replica\((arg\.\w+),%s\((.*)\)\)" % variant, sent[0])
        ok = bool(m)
        if m:
            vals = m.group(2).split(",") if m.group(2) else []
            pairs = dict(zip(fields, vals))
            params = [v for k2, v in pairs.items() if k2 != "reply"]
            reply = pairs.get("reply")
            reply_ok = reply == "reply-tx" or (reply is not None and re.fullmatch(r"arg\.\w+", reply) and reply not in params)
            ok = len(vals) == len(fields) and m.group(1) == ns_arg and all(re.fullmatch(r"arg\.\w+", v) for v in params) and len(set(params)) == len(params) \
                and ns_arg not in params and reply_ok
            ok = ok and (got == "Ok(reply)" if reply == "reply-tx" else got == "Ok(())")
            detail = "fields %s" % pairs
    ctx.check(ok, rule, path, "sends[%s]" % variant,
              "evaluated with its parameters as arg.*: sends %s, returns %s; %s; spec: one %s request addressed to its namespace argument, each field one of its own parameters, the actor's reply returned" % (sent, got, detail, variant), b.sp)


def check_remote_origin(ctx, rule):
    """Replica::insert_remote_entry hands insert_entry the entry it was given with origin Sync { from: the providing peer it
    was given, remote_content_status: the status it was given } (the event is built from that origin: C12.R3)"""
    from . import feval as E
    f = ctx.facts
    path = "sync::Replica::<'a, I>::insert_remote_entry"
    b = f.body(path)
    ctx.touch(b)
    seen = []

    def oracle(kind, name, payload, site):
        if kind == "await":
            return E.Ok(E.Tok("removed")) if str(name) == "fut:insert_entry" else None
        if kind != "call":
            return None
        t, args, it = payload
        names = [it.tokname(a).strip("&*") for a in args]
        if callee_matches(t, r"sync::Replica::<.*>::insert_entry$"):
            seen.append((names[1], E.describe(it.resolve(args[2]), f)))
            return E.Tok("fut:insert_entry")
        if name in ("ensure_open", "validate_empty"):
            return E.Ok(E.UNIT)
        return None
    try:
        ret, hp, ev = E.run_async(f, path, [E.href("self"), E.Tok("arg.entry"), E.Tok("arg.peer"), E.Tok("arg.status")], {"self": E.Tok("replica")}, oracle)
        got = E.describe(ret, f)
    except E.Unsupported as e:
        got = "UNSUPPORTED-FORM: %s" % e
    ctx.check(got == "Ok(removed)" and seen == [("arg.entry", "Sync(arg.peer,arg.status)")], rule, path, "origin-carries-the-providing-peer-and-its-content-status",
              "returns %s; insert_entry called with %s; spec: (the entry given, Sync { from: the peer given, remote_content_status: the status given })" % (got, seen), b.sp)


def claim(ctx, rule, handlers=(), clients=(), floor=None):
    n0 = len(ctx.obligations)
    for v in handlers:
        check_handler(ctx, rule, v)
    for m in clients:
        check_client(ctx, rule, m)
    if floor is not None:
        ctx.floor(rule, floor)
    return len(ctx.obligations) - n0


def eval_stream(f, items, send_fails_at=None):
    """actor::iter_to_irpc evaluated: `items` = None (the iterator could not be created) or a list of "ok:<x>" / "err:<x>" items.
    Returns (result, [what was sent into the caller's channel])"""
    from . import feval as E, coll
    path = "actor::iter_to_irpc"
    sent = []
    C = coll.Collections(f)

    def oracle(kind, name, payload, site):
        if kind == "await":
            if str(name).startswith("fut:send#"):
                i = int(str(name).split("#")[1])
                return E.Err(E.Tok("receiver-gone")) if (send_fails_at is not None and i == send_fails_at) else E.Ok(E.UNIT)
            return None
        if kind != "call":
            return None
        t, a, it = payload
        names = [it.tokname(x).strip("&*") for x in a]
        full = (t["f"].get("full") or "") + (t["f"].get("path") or "")
        if name == "send" and names and names[0] == "channel":
            sent.append(E.describe(it.resolve(a[1]), f))
            return E.Tok("fut:send#%d" % (len(sent) - 1))
        if name == "new" and "RpcError" in full:
            return E.Tok("rpc(%s)" % names[0])
        if name == "deref" and a:
            return a[0]
        return C.handle(kind, name, payload, site)
    if items is None:
        arg = E.Err(E.Tok("no-iterator"))
    else:
        arg = E.Ok(coll.seq("iter", [(E.Ok(E.Tok(x[3:])) if x.startswith("ok:") else E.Err(E.Tok(x[4:]))) for x in items]))
    try:
        ret, hp, evs = E.run_async(f, path, [E.Tok("channel"), arg], {}, oracle)
        return E.describe(ret, f), sent
    except E.Unsupported as e:
        return "UNSUPPORTED-FORM: %s" % e, sent


def check_stream(ctx, rule):
    """streamed replies (get_many, list_authors, list_replicas): every item the store yields is sent to the caller, in order,
    a failing row as an error item (not as a clean end of the stream), a failure to create the iterator as one error item;
    sending stops only when the caller is gone"""
    f = ctx.facts
    b = f.body("actor::iter_to_irpc::{closure#0}")
    ctx.touch(b)
    for label, items in (("three-rows", ["ok:a", "ok:b", "ok:c"]), ("failing-row-in-the-middle", ["ok:a", "err:e", "ok:c"]), ("failing-row-last", ["ok:a", "err:e"]), ("no-rows", []), ("no-iterator", None)):
        got, sent = eval_stream(f, items)
        if items is None:
            ok = got == "Ok(())" and len(sent) == 1 and sent[0].startswith("Err(")
            want = "one error item"
        else:
            want_l = [("Ok(%s)" % x[3:]) if x.startswith("ok:") else "Err(" for x in items]
            ok = got == "Ok(())" and len(sent) == len(items) and all((s == w) if w.startswith("Ok(") else s.startswith(w) for s, w in zip(sent, want_l))
            want = "every item in order, a failing row as an error item"
        ctx.check(ok, rule, "actor::iter_to_irpc", "stream[%s]" % label, "returns %s, sends %s; spec: %s" % (got, sent, want), b.sp)
    got, sent = eval_stream(f, ["ok:a", "ok:b", "ok:c"], send_fails_at=1)
    ctx.check(got.startswith("Err(") and sent == ["Ok(a)", "Ok(b)"], rule, "actor::iter_to_irpc", "stream[caller-gone-at-the-second-item]", "returns %s, sends %s; spec: stops at the failed send" % (got, sent), b.sp)

"""Capability persistence, evaluated (K6'): the raw form written to the namespaces table read back by Capability::from_raw,
and the two capability-table migrations that run on every open (migration 002: copy the secrets of the version-1 table
into the current table, migration 003: delete the version-1 table).

Spec rows come from the property texts: C07 "no ... reopen of the store downgrades it" (a stored Write capability reads
back as Write of the same secret, a version-1 database - which holds write secrets only - opens with every document
writable), C18 "opening an up-to-date database any number of times changes no observable content" (both migrations skip
and write nothing when there is no version-1 table), C09 "feeding arbitrary bytes to any decoder ... capabilities ...
yields a value or an error but never a panic" (every kind byte)."""
import copy
import re
from . import mir

M = "store::fs::migrations::"
CAP = "sync::Capability"


def _keys_oracle(E):
    """ed25519 key material as opaque tokens: to_bytes/from_bytes of a key are inverse (trusted, iroh/ed25519)"""
    def oracle(kind, name, payload, site):
        if kind != "call":
            return None
        t, args, it = payload
        names = [it.tokname(a).strip("&*") for a in args]
        if name in ("to_bytes", "as_bytes") and names:
            m = re.fullmatch(r"from_bytes\((.+)\)(\.signing_key)?", names[0])
            return E.Tok(m.group(1) if m else "bytes(%s)" % names[0])
        if name in ("from_bytes", "from") and names:
            m = re.fullmatch(r"bytes\((.+)\)", names[0])
            if m:
                return E.Tok(m.group(1))
        return None
    return oracle


def round_trip(f):
    """{variant: (raw kind, rendered from_raw(raw(capability)))}; kinds as integers"""
    from . import feval as E
    out = {}
    for v in [x["name"] for x in f.adt(CAP)["variants"]]:
        cap = E.variant(f, CAP, v, E.Tok("payload"))
        try:
            ret, h, ev = E.run(f, "sync::Capability::raw", [E.href("c")], {"c": cap}, _keys_oracle(E))
            if ret[0] != "tuple" or len(ret[1]) != 2 or not E.is_int(ret[1][0]):
                out[v] = (None, "raw() = %s (not a (kind byte, bytes) pair with a determined kind)" % E.describe(ret, f))
                continue
            kind, by = ret[1]
            back, h2, ev2 = E.run(f, "sync::Capability::from_raw", [kind, E.href("b")], {"b": by}, _keys_oracle(E))
            out[v] = (kind[1], E.describe(back, f).replace("&b", E.describe(by, f)))
        except E.Unsupported as e:
            out[v] = (None, "UNSUPPORTED-FORM: %s" % e)
    return out


def from_raw_kinds(f, kinds=(0, 1, 2, 3, 127, 255)):
    from . import feval as E
    out = {}
    for k in kinds:
        try:
            back, h2, ev2 = E.run(f, "sync::Capability::from_raw", [E.Int(k), E.href("b")], {"b": E.Tok("raw")}, _keys_oracle(E))
            out[k] = "DIVERGES (panic)" if back is E.DIVERGE or back == E.DIVERGE else E.describe(back, f)
        except E.Unsupported as e:
            out[k] = "UNSUPPORTED-FORM: %s" % e
    return out


def eval_migration(f, path, v1_exists, rows, others=("records-1", "namespaces-2", "latest-by-author-1")):
    """a capability-table migration evaluated on a database whose table list is `others` (+ the version-1 table iff
    v1_exists) and whose version-1 table holds `rows` secrets; returns (rendered result, effects)"""
    from . import feval as E, coll
    log = []
    C = coll.Collections(f)
    ROLE = {}
    for cpath, cb in f.bodies.items():
        if cb.kind == "const" and cpath.startswith("store::fs::tables::") and "TABLE" in cpath.split("::")[-1]:
            try:
                v, _, _ = E.run(f, cpath, [], {})
                ROLE[E.describe(v, f)] = cpath.split("::")[-1]
            except E.Unsupported:
                pass
    if "NAMESPACES_TABLE_V1" not in ROLE.values() or "NAMESPACES_TABLE" not in ROLE.values():
        raise mir.AnchorMissing("table constants NAMESPACES_TABLE_V1 / NAMESPACES_TABLE not found in store::fs::tables")
    keys = _keys_oracle(E)

    def oracle(kind, name, payload, site):
        if kind in ("eq", "cmp"):
            a, b = str(name), str(payload)
            if a.startswith("name:") and b.startswith("name:"):
                return (a == b) if kind == "eq" else ((a > b) - (a < b))
            return None
        if kind != "call":
            return None
        t, args, it = payload
        names = [it.tokname(a).strip("&*") for a in args]
        if name in ("list_tables", "list_multimap_tables"):
            hs = ["handle:" + o for o in others] + (["handle:NAMESPACES_TABLE_V1"] if (v1_exists and name == "list_tables") else [])
            return E.Ok(coll.seq("iter", [E.Tok(h) for h in hs]))
        if name == "name" and names:
            if names[0].startswith("handle:"):
                return E.Tok("name:" + names[0][7:])
            return E.Tok("name:" + ROLE.get(names[0], names[0]))
        if name in ("open_table", "open_multimap_table") and len(names) > 1:
            tn = ROLE.get(names[1], names[1])
            if tn == "NAMESPACES_TABLE_V1" and not v1_exists:
                log.append(("create", tn))      # redb: opening a table in a write transaction creates it
            return E.Ok(E.Tok("table:" + tn))
        if name == "delete_table" and len(names) > 1:
            log.append(("delete_table", ROLE.get(names[1], names[1])))
            return E.Ok(E.Int(1 if v1_exists else 0))
        if name in ("is_empty", "len") and names and names[0].startswith("table:"):
            n = rows if names[0] == "table:NAMESPACES_TABLE_V1" else 2
            return E.Ok(E.Int(n if name == "len" else (1 if n == 0 else 0)))
        if name in ("iter", "range") and names and names[0].startswith("table:"):
            if names[0] != "table:NAMESPACES_TABLE_V1":
                raise E.Unsupported("a capability migration scanning %s" % names[0])
            return E.Ok(coll.seq("iter", [E.Ok(("tuple", [E.Tok("kg%d" % i), E.Tok("vg%d" % i)])) for i in range(rows)]))
        if name == "value" and names and re.fullmatch(r"vg\d+", names[0]):
            return E.Tok("secret%s" % names[0][2:])
        if name == "value" and names and re.fullmatch(r"kg\d+", names[0]):
            return E.Tok("v1key%s" % names[0][2:])
        if name in ("insert", "remove", "retain", "drain", "pop_first", "pop_last", "extract_if", "extract_from_if") and names and names[0].startswith("table:"):
            pair = None
            if len(args) > 2:
                vv = it.deref_val(args[2])
                if vv is not None and vv[0] == "tuple" and len(vv[1]) == 2:
                    pair = (it.resolve(vv[1][0]), copy.deepcopy(it.deref_val(vv[1][1])))
            log.append((names[0][6:], name, names[1] if len(names) > 1 else None, names[2] if len(names) > 2 else None, pair))
            return E.Ok(E.NONE)
        r = keys(kind, name, payload, site)
        if r is not None:
            return r
        return C.handle(kind, name, payload, site)
    try:
        # private helpers of the migrations are evaluated, not kept as uninterpreted applications
        inl = tuple(p for p in f.bodies if p.startswith(M) and not f.bodies[p].rec.get("derived"))
        ret, it = E.run_it(f, path, [E.href("tx")], {"tx": E.Tok("tx")}, oracle, inline=inl)
        return E.describe(ret, f), log
    except E.Unsupported as e:
        return "UNSUPPORTED-FORM: %s" % e, log


def _render_log(f, log):
    return [x[:4] if len(x) == 5 else x for x in log]


def check_round_trip(ctx, rule):
    f = ctx.facts
    b = f.body("sync::Capability::raw")
    fr = f.body("sync::Capability::from_raw")
    ctx.touch(b, fr)
    rt = round_trip(f)
    want = {"Write": "Ok(Write(payload))", "Read": "Ok(Read(payload))"}
    for v, (kind, back) in sorted(rt.items()):
        norm = back.replace("from_bytes(bytes(payload))", "payload").replace("from(bytes(payload))", "payload").replace("NamespaceId(bytes(payload))", "payload").replace("bytes(payload)", "payload")
        ctx.check(norm == want.get(v), rule, fr.path, "stored-form-reads-back[%s]" % v,
                  "raw(%s(payload)) has kind byte %s and reads back through from_raw as %s; spec: the same variant over the same bytes (a stored write capability is never read back as read-only, nor the reverse)" % (v, kind, back), fr.sp)
    kinds = [k for k, _ in rt.values()]
    ctx.check(None not in kinds and len(set(kinds)) == len(kinds), rule, b.path, "kind-bytes-distinct", "kind bytes per variant: %s" % {v: k for v, (k, _) in rt.items()}, b.sp)


def check_migration_002(ctx, rule):
    """a version-1 database holds write secrets only: after the open every one of them is a Write capability of the
    document that secret belongs to"""
    from . import feval as E
    f = ctx.facts
    b = f.body(M + "migration_002_namespaces_populate_v2")
    ctx.touch(b)
    for rows in (1, 3):
        got, log = eval_migration(f, b.path, True, rows)
        ins = [x for x in log if len(x) == 5 and x[1] == "insert"]
        other = [x for x in _render_log(f, log) if not (len(x) == 4 and x[1] == "insert" and x[0] == "NAMESPACES_TABLE")]
        ok = got == "Ok(Execute(%d))" % rows and len(ins) == rows and not other
        detail = []
        for i, x in enumerate(ins):
            tb, op, kn, vn, pair = x
            back = "? (%s)" % vn
            if pair is not None and E.is_int(pair[0]) and pair[1] is not None:
                kind, by = pair
                try:
                    r, _, _ = E.run(f, "sync::Capability::from_raw", [kind, E.href("b")], {"b": by}, _keys_oracle(E))
                    back = E.describe(r, f).replace("&b", E.describe(by, f))
                except E.Unsupported as e:
                    back = "UNSUPPORTED-FORM: %s" % e
            sec = "secret%d" % i
            row_ok = tb == "NAMESPACES_TABLE" and back in ("Ok(Write(%s))" % sec, "Ok(Write(from_bytes(%s)))" % sec) and sec in kn and "public" in kn
            ok = ok and row_ok
            detail.append("%s -> key %s, value reads back as %s" % (sec, kn, back))
        ctx.check(ok, rule, b.path, "version-1-secrets-become-write-capabilities[rows=%d]" % rows,
                  "version-1 table with %d secrets: returns %s; %s; other effects %s; spec: one row per secret in the current table, keyed by the id derived from the secret's public key, reading back as Write(that secret)" % (rows, got, detail, other), b.sp)
    got, log = eval_migration(f, b.path, True, 0)
    ctx.check(got in ("Ok(Execute(0))", "Ok(Skip)") and not [x for x in log if len(x) == 5], rule, b.path, "version-1-table-empty", "returns %s, writes %s" % (got, _render_log(f, log)), b.sp)


def check_noop(ctx, rule):
    """an up-to-date database has no version-1 table: both capability migrations skip and touch nothing (a created or
    deleted table, an inserted row would be a change made by merely reopening)"""
    f = ctx.facts
    for name in ("migration_002_namespaces_populate_v2", "migration_003_namespaces_delete_v1"):
        b = f.body(M + name)
        ctx.touch(b)
        got, log = eval_migration(f, b.path, False, 0)
        ctx.check(got == "Ok(Skip)" and not log, rule, b.path, "skip-without-version-1-table",
                  "no version-1 table: returns %s, effects %s; spec: Skip, nothing created, written or deleted" % (got, _render_log(f, log)), b.sp)
    b = f.body(M + "migration_003_namespaces_delete_v1")
    got, log = eval_migration(f, b.path, True, 2)
    rl = _render_log(f, log)
    ctx.check(got.startswith("Ok(Execute(") and rl == [("delete_table", "NAMESPACES_TABLE_V1")], rule, b.path, "deletes-only-the-version-1-table",
              "version-1 table present: returns %s, effects %s" % (got, rl), b.sp)

"""C09 — wire and storage encodings round-trip and never crash on hostile bytes."""
import re
from . import mir
from .mir import trace, origin_summary, callee_matches
from .common import find_calls, one_call, call_outcomes, comparisons, follow_value, leaves
from . import paths as P
from . import typestate

EXPLANATION = (
    "Decides structural necessary conditions of C09 from MIR. R1/R2 are obtained by abstract evaluation of the codec's MIR "
    'over a byte-buffer model (length, index/get with any std range - an out-of-bounds index, a failed unwrap/expect or an '
    'over-long advance DIVERGES -, length prefix, parse outcome) on a grid of (buffer length, declared frame length, parse '
    'outcome) resp. (bytes already buffered, message size): (R1) SyncCodec::decode parses a frame only after src.len() >= '
    '4, frame_len <= MAX_MESSAGE_SIZE (else Err) and src.len() >= 4 + frame_len (else Ok(None)), consumes bytes only after '
    'a successful parse, and encode rejects len > MAX_MESSAGE_SIZE; (R2) the encoder only appends: every index into dst and'
    " the resize target are computed from dst's length at entry; (R3) hostile-data panic sites: inventory of "
    "unwrap/expect/slice-index/advance/panic sites in the decoders, the wire types' accessors and the session functions, "
    'each discharged by a dominating length guard, by a declared type invariant whose own rule holds (every construction of'
    ' RecordIdentifier happens in a validating constructor; a derived Deserialize building it from unchecked bytes violates'
    ' it; the validating constructor evaluated on lengths around 64 accepts exactly those >= 64), by the option-field typestate rule, or by a table line naming one site with a reason; anything else is '
    'UNAUDITED; (R4) FilterKind Display/FromStr tag agreement, the Display -> FromStr round trip evaluated on concrete sample filters '
    '(payloads containing the separator, non-UTF-8 payloads) and DocTicket::decode_bytes rejecting an empty node list, Capability::from_raw evaluated on every kind byte class; (R5) author-heads reports: AuthorHeads::encode evaluated on (heads, size limit) cells and decode feeding every pair to insert (shared with C13.R3); (R6) a frame the codec rejects ends the session with a reported error on both sides (the protocol tables of C10.R2, whose frame scripts contain decode errors at every position). NOT'
    ' decided: byte-exact round trip for all values and chunkings (postcard / tokio_util trusted), pinned encodings (the '
    'snapshot tests cover them).'
)
ASSUMPTIONS = ["postcard never panics on malformed input (trusted)", "tokio_util::codec calls decode with the accumulated buffer"]


DEC = "<net::codec::SyncCodec as tokio_util::codec::Decoder>::decode"
ENC = "<net::codec::SyncCodec as tokio_util::codec::Encoder<net::codec::Message>>::encode"


EXPLANATION += ' (R3, round 8) a length guard does not discharge a `str` sliced at a byte offset (only a character-boundary / ASCII test does).'
EXPLANATION += " (R7, round 9) = C03.R4's pinned canonical layout of a signed entry."
EXPLANATION += ' (R8, round 10) = C13.R2: decoding an author-heads report rebuilds it through AuthorHeads::insert, which keeps every author (also at timestamp 0) at its maximum.'
EXPLANATION += ' (R9, round 11) = the set / get cells of C15.R2: a policy survives its storage round trip, also one with an empty filter list.'
EXPLANATION += ' (R10, round 12) = C03.R13: the pinned 32-byte encodings of secrets, public keys and ids (to_bytes / as_bytes / from_bytes / From<[u8; 32]>, serde as a transparent newtype).'
EXPLANATION += " (R11, round 13) = C08.R1's row layout clauses: writer and reader of the records table are each compared with the pinned row layout."


def _truth(k, v):
    neg = False
    while k[0] == "not":
        neg = not neg
        k = k[1]
    return k, (bool(v) != neg)


def _rng(E, it, v, length):
    """(start, end) of a std range value applied to a buffer of `length` bytes"""
    v = it.resolve(v)
    if v is None or v[0] != "adt":
        return None
    nm = v[1].split("::")[-1]

    def g(i):
        return v[3][i][1] if i in v[3] and E.is_int(v[3][i]) else None
    if nm.startswith("RangeFull"):
        return (0, length)
    if nm.startswith("RangeToInclusive"):
        return (0, None if g(0) is None else g(0) + 1)
    if nm.startswith("RangeTo"):
        return (0, g(0))
    if nm.startswith("RangeFrom"):
        return (g(0), length)
    if nm.startswith("RangeInclusive"):
        return (g(0), None if g(1) is None else g(1) + 1)
    if nm.startswith("Range"):
        return (g(0), g(1))
    return None


def eval_decode(f, L, fl, parse_ok):
    """SyncCodec::decode evaluated (K6') on a buffer of L bytes whose first four bytes declare a frame of fl bytes.
    The buffer is modelled: len, index/get with any std range (an out-of-bounds index PANICS = diverges), advance /
    split_to, the length prefix, the postcard parse. Returns (rendered result, {consumed, parsed, reads})."""
    from . import feval as E
    st = {"consumed": 0, "parsed": [], "reads": []}

    def oracle(kind, name, payload, site):
        if kind != "call":
            return None
        t, args, it = payload
        names = [it.tokname(a) for a in args]
        cur = L - st["consumed"]
        m0 = re.fullmatch(r"src\[(\d+)\.\.(\d+)\]", names[0]) if names else None
        if name in ("len", "remaining") and names and names[0] == "src":
            return E.Int(cur)
        if name == "len" and m0:
            return E.Int(int(m0.group(2)) - int(m0.group(1)))
        if name == "is_empty" and names and names[0] == "src":
            return E.Int(1 if cur == 0 else 0)
        if name in ("index", "get", "index_mut", "get_mut") and names and (names[0] == "src" or m0) and len(args) == 2:
            base, blen = (0, cur) if names[0] == "src" else (int(m0.group(1)), int(m0.group(2)) - int(m0.group(1)))
            r = _rng(E, it, args[1], blen)
            if r is None or r[0] is None or r[1] is None:
                raise E.Unsupported("slice of the input buffer with an undetermined range")
            s0, e0 = r
            inb = s0 <= e0 <= blen
            st["reads"].append((base + s0, base + e0))
            if name.startswith("get"):
                return E.Some(E.Tok("src[%d..%d]" % (base + s0, base + e0))) if inb else E.NONE
            if not inb:
                return E.DIVERGE
            return E.Tok("src[%d..%d]" % (base + s0, base + e0))
        if name in ("deref", "deref_mut", "as_ref", "as_mut", "borrow", "chunk") and names and names[0] == "src":
            return args[0]
        if name in ("try_into", "try_from") and m0:
            return E.Ok(E.Tok(names[0])) if int(m0.group(2)) - int(m0.group(1)) == 4 else E.Err(E.Tok("wrong-length"))
        if name in ("split_first_chunk", "first_chunk") and names and names[0] == "src":
            return E.Some(E.Tok("src[0..4]")) if cur >= 4 else E.NONE
        if name == "from_be_bytes" and names[0] == "src[0..4]" and st["consumed"] == 0:
            return E.Int(fl)
        if name == "get_u32" and names[0] == "src":
            if cur < 4:
                return E.DIVERGE
            st["consumed"] += 4
            return E.Int(fl)
        if name == "from_bytes" and callee_matches(t, r"postcard"):
            st["parsed"].append(names[0])
            return E.Ok(E.Tok("message")) if parse_ok else E.Err(E.Tok("postcard-error"))
        if name in ("advance", "split_to") and names[0] == "src":
            a = it.deref_val(args[1])
            if not E.is_int(a):
                raise E.Unsupported("%s by an undetermined amount" % name)
            if a[1] > cur:
                return E.DIVERGE
            st["consumed"] += a[1]
            return E.UNIT if name == "advance" else E.Tok("src[0..%d]" % a[1])
        if name == "reserve":
            return E.UNIT
        return None
    try:
        ret, hp, ev = E.run(f, DEC, [E.href("self"), E.href("src")], {"self": E.Tok("codec"), "src": E.Tok("src")}, oracle)
        if ret is not None and ret[0] == "diverge":
            return "PANIC(%s)" % (ret[1] if len(ret) > 1 else ""), st
        return E.describe(ret, f), st
    except E.Unsupported as e:
        return "UNSUPPORTED-FORM: %s" % e, st


def eval_encode(f, start, n):
    """SyncCodec::encode evaluated (K6') on an output buffer already holding `start` bytes, for a message whose
    serialised size is n. Returns (rendered result, {len, prefix, payload})."""
    from . import feval as E
    st = {"len": start, "prefix": None, "payload": None, "writes": []}

    def oracle(kind, name, payload, site):
        if kind != "call":
            return None
        t, args, it = payload
        names = [it.tokname(a) for a in args]
        if name == "serialize_with_flavor" or (name in ("serialized_size",) and callee_matches(t, r"postcard")):
            return E.Ok(E.Int(n))
        if name in ("len",) and names and names[0] == "dst":
            return E.Int(st["len"])
        if name in ("try_from", "try_into") and args and E.is_int(it.deref_val(args[0])):
            v = it.deref_val(args[0])[1]
            return E.Ok(E.Int(v)) if v < (1 << 32) else E.Err(E.Tok("overflow"))
        if name in ("put_u32", "put_u32_be") and names[0] == "dst":
            v = it.deref_val(args[1])
            st["prefix"] = (st["len"], v[1] if E.is_int(v) else E.describe(v, f))
            st["len"] += 4
            return E.UNIT
        if name in ("put_slice", "extend_from_slice") and names[0] == "dst":
            st["writes"].append((st["len"], names[1]))
            if names[1].startswith("be_bytes("):
                st["prefix"] = (st["len"], int(names[1][9:-1]))
                st["len"] += 4
            return E.UNIT
        if name == "to_be_bytes" and args and E.is_int(it.deref_val(args[0])):
            return E.Tok("be_bytes(%d)" % it.deref_val(args[0])[1])
        if name == "resize" and names[0] == "dst":
            v = it.deref_val(args[1])
            if not E.is_int(v):
                raise E.Unsupported("resize to an undetermined length")
            st["len"] = v[1]
            return E.UNIT
        if name == "reserve":
            return E.UNIT
        if name in ("index_mut", "index", "get_mut") and names and names[0] == "dst":
            r = _rng(E, it, args[1], st["len"])
            if r is None or r[0] is None or r[1] is None:
                raise E.Unsupported("slice of the output buffer with an undetermined range")
            if not (r[0] <= r[1] <= st["len"]):
                return E.DIVERGE if not name.startswith("get") else E.NONE
            tok = E.Tok("dst[%d..%d]" % r)
            return E.Some(tok) if name.startswith("get") else tok
        if name in ("deref_mut", "deref", "as_mut") and names and names[0] == "dst":
            return args[0]
        if name in ("to_slice", "to_extend", "to_io") and callee_matches(t, r"postcard"):
            st["payload"] = names[1]
            return E.Ok(E.Tok("written"))
        return None
    try:
        ret, hp, ev = E.run(f, ENC, [E.href("self"), E.Tok("message"), E.href("dst")], {"self": E.Tok("codec"), "dst": E.Tok("dst")}, oracle)
        if ret is not None and ret[0] == "diverge":
            return "PANIC(%s)" % (ret[1] if len(ret) > 1 else ""), st
        return E.describe(ret, f), st
    except E.Unsupported as e:
        return "UNSUPPORTED-FORM: %s" % e, st


def codec_tables(f):
    """[(key, ok, detail)] of the decoder grid and the encoder grid"""
    MAX = f.const("net::codec::MAX_MESSAGE_SIZE")["val"]
    out = []
    bad = []
    n = 0
    for fl in (0, 1, 10, MAX, MAX + 1, (1 << 32) - 1):
        for L in (0, 1, 3, 4, 5, 13, 14, 15, 40):
            for parse_ok in (1, 0):
                n += 1
                got, st = eval_decode(f, L, fl, parse_ok)
                if L < 4:
                    want, cons, parsed = "Ok(None)", 0, []
                elif fl > MAX:
                    want, cons, parsed = "Err", 0, []
                elif L < 4 + fl:
                    want, cons, parsed = "Ok(None)", 0, []
                elif parse_ok:
                    want, cons, parsed = "Ok(Some(message))", 4 + fl, ["src[4..%d]" % (4 + fl)]
                else:
                    want, cons, parsed = "Err", None, ["src[4..%d]" % (4 + fl)]
                ok = (got == want or (want == "Err" and got.startswith("Err"))) and (cons is None or st["consumed"] == cons) and st["parsed"] == parsed
                if not ok:
                    bad.append("buffer %d bytes, declared frame %d, parse %s: %s, consumed %d, parsed %s; spec %s, consumed %s, parsed %s" % (L, fl, "ok" if parse_ok else "fails", got, st["consumed"], st["parsed"], want, cons, parsed))
    out.append(("decode-table", not bad, "decode evaluated on %d (buffer length, declared frame length, parse outcome) cells, MAX = %d; deviating: %s; spec: wait (Ok(None), nothing consumed) while the prefix or the declared frame is incomplete, "
                "Err for a declared length above MAX, otherwise parse exactly src[4..4+len] and consume exactly 4+len on success; a panic is a violation" % (n, MAX, bad[:4])))
    bad = []
    n = 0
    for start in (0, 9):
        for ln in (0, 7, MAX, MAX + 1):
            n += 1
            got, st = eval_encode(f, start, ln)
            if ln > MAX:
                ok = got.startswith("Err") and st["len"] == start and st["prefix"] is None and st["payload"] is None
                spec = "Err, nothing written"
            else:
                ok = got == "Ok(())" and st["prefix"] == (start, ln) and st["len"] == start + 4 + ln and st["payload"] == "dst[%d..%d]" % (start + 4, start + 4 + ln)
                spec = "prefix %d at offset %d, payload in dst[%d..%d]" % (ln, start, start + 4, start + 4 + ln)
            if not ok:
                bad.append("buffer already holds %d bytes, message of %d bytes: %s, prefix (offset, value) %s, final length %d, payload written to %s; spec: %s" % (start, ln, got, st["prefix"], st["len"], st["payload"], spec))
    out.append(("encode-table", not bad, "encode evaluated on %d (bytes already in the buffer, message size) cells; deviating: %s; spec: the frame is APPENDED: u32 length at the old end, payload right after it, nothing before it touched; oversized => Err before writing" % (n, bad[:4])))
    return out


def r1(ctx):
    f = ctx.facts
    d = f.body(DEC)
    ctx.touch(*f.scope(DEC, prefix="net::codec::"))
    c = f.const("net::codec::MAX_MESSAGE_SIZE")
    ctx.check(c["val"] is not None and c["val"] <= 0xFFFFFFFF, "C09.R1", "net::codec::MAX_MESSAGE_SIZE", "fits-length-prefix", "= %s <= u32::MAX" % c["val"], c["sp"])
    for key, ok, detail in codec_tables(f):
        if key == "decode-table":
            ctx.check(ok, "C09.R1", DEC, key, detail, d.sp)
    ctx.floor("C09.R1", 2)


def r2(ctx):
    f = ctx.facts
    e = f.body(ENC)
    ctx.touch(*f.scope(ENC, prefix="net::codec::"))
    for key, ok, detail in codec_tables(f):
        if key == "encode-table":
            ctx.check(ok, "C09.R2", ENC, key, detail, e.sp)
    ctx.floor("C09.R2", 1)


AUDIT_SCOPE = re.compile(
    r"^(sync::(RecordIdentifier|Record|Entry|SignedEntry|EntrySignature|Capability)::|<sync::(RecordIdentifier|Record|Entry|SignedEntry|EntrySignature|Capability) as |"
    r"heads::AuthorHeads::decode|ticket::|<ticket::|<store::FilterKind as std::str::FromStr>|net::codec::|<net::codec::|net::handle_connection|net::connect_and_sync|"
    r"sync::Replica::<'a, I>::(sync_process_message|insert_remote_entry|insert_entry)|ranger::Store::process_message|ranger::Store::put|sync::validate_entry|"
    r"engine::gossip::|engine::live::LiveActor::<D>::on_sync_report|keys::|<keys::|store::fs::into_entry|store::fs::get_exact|<store::fs::StoreInstance|store::fs::parse_capability|store::fs::Store::(list_namespaces|load_replica_info|get_author|list_authors|get_download_policy|get_sync_peers|import_namespace|get_latest_for_each_author|has_news_for_us|content_hashes)|<store::fs::(ContentHashesIterator|LatestIterator)|store::fs::(query|ranges)::|<store::fs::(query|ranges)::)")

# table lines: (function regex, site class, callee regex) -> reason.  One named site each.
TABLE = [
    (r"^<net::codec::SyncCodec as tokio_util::codec::Encoder<net::codec::Message>>::encode$", "unwrap", r"Result::<usize, postcard::Error>::unwrap",
     "size computation of a local message with the counting flavor cannot fail; operand is local, not wire data"),
    (r"^<ticket::DocTicket as iroh_tickets::Ticket>::encode_bytes$", "expect", r"Result::<std::vec::Vec<u8>, postcard::Error>::expect",
     "serialisation of a local ticket into a growable Vec; operand is local, not wire data"),
    (r"^ranger::Store::process_message::\{closure#0\}::\{closure#\d+\}(::\{closure#\d+\})?$", "expect", r"Option::<std::result::Result<E, .*>>::expect",
     "pivot lookup: nth(offset) with offset < number of local entries counted in the same range of the local store; operand is local"),
]


def panic_sites(b):
    out = []
    for bi, t in b.calls():
        nm = t["f"].get("name")
        full = t["f"].get("full", "")
        cls = None
        if nm in ("unwrap", "expect", "unwrap_unchecked"):
            cls = nm
        elif nm in ("index", "index_mut") and ("ops::Range" in full or "usize" in full):
            cls = "index"
        elif "panicking" in full or nm in ("panic", "panic_fmt", "unreachable", "assert_failed", "panic_display", "begin_panic"):
            cls = "panic"
        elif nm in ("split_at", "copy_from_slice", "advance", "split_to", "split_off", "slice"):
            cls = nm
        if cls and not mir.is_noise(t["x"]):
            out.append((bi, t, cls))
    reach = b.reachable()
    for i, blk in enumerate(b.blocks):
        t = blk["t"]
        if t["k"] == "assert" and t["m"] == "BoundsCheck" and i in reach:
            out.append((i, t, "boundscheck"))
    return out


def length_guarded(b, bi):
    """site dominated by the 'long enough' edge of a comparison of some len() with a bound"""
    for c in comparisons(b):
        if c["dest"]["p"]:
            continue
        a_len = any(o.kind == "call" and o.data["f"].get("name") == "len" for o in trace(b, c["a"], through_calls=False))
        b_len = any(o.kind == "call" and o.data["f"].get("name") == "len" for o in trace(b, c["b"], through_calls=False))
        if not (a_len or b_len):
            continue
        edges = follow_value(b, c["dest"]["l"])
        op = c["op"]
        if b_len and not a_len:
            op = {"<": ">", ">": "<", "<=": ">=", ">=": "<=", "==": "==", "!=": "!="}[op]
        good = None
        if op in ("<", "<="):
            good = edges.get("false")
        elif op in (">", ">="):
            good = edges.get("true")
        elif op == "==":
            good = edges.get("true")
        if good and b.edge_dominates(good[0], good[1], bi):
            return c
    return None


def record_identifier_invariant(ctx, rule):
    """every construction of sync::RecordIdentifier happens in a validating constructor"""
    f = ctx.facts
    ok_all = True
    n = 0
    for b in f.bodies.values():
        for bi, si, s in b.statements():
            if s["k"] == "assign" and s["r"][0] == "agg" and s["r"][1][0] == "adt" and s["r"][1][1] == "sync::RecordIdentifier":
                n += 1
                if b.path == "sync::RecordIdentifier::new":
                    ctx.ok(rule, b.path, "constructs-RecordIdentifier", "the constructor writes namespace (32) + author (32) + key", s["sp"])
                    continue
                if b.rec.get("impl_trait") == "std::clone::Clone":
                    ctx.ok(rule, b.path, "constructs-RecordIdentifier", "clone of an existing value", s["sp"])
                    continue
                g = length_guarded(b, bi)
                if g is not None:
                    ctx.ok(rule, b.path, "constructs-RecordIdentifier", "construction dominated by a length guard (%s)" % g["loc"], s["sp"])
                    continue
                ok_all = False
                ctx.bad(rule, b.path.split("::deserialize")[0] if "_serde" in b.path else b.path, "constructs-RecordIdentifier-unchecked",
                        "RecordIdentifier is built from bytes whose length was never checked (%s), while its accessors index bytes 0..32, 32..64, 64.. and unwrap: "
                        "an id shorter than 64 bytes received from a peer decodes fine and then panics in namespace()/author()/key()" % b.path, s["sp"])
    if n < 1:
        raise mir.AnchorMissing("no construction of sync::RecordIdentifier found")
    # the validating conversion evaluated (K6') on byte strings of every interesting length: it accepts exactly the
    # lengths from 64 on, and on every length it accepts no accessor panics (the invariant the accessors rely on)
    from . import feval as E, C08
    RI = "sync::RecordIdentifier"
    tf = [pth for pth in f.bodies if pth.startswith("<sync::RecordIdentifier as std::convert::TryFrom<") and pth.endswith(">::try_from")]
    if len(tf) != 1:
        raise mir.AnchorMissing("expected one TryFrom<..> for RecordIdentifier, found %d" % len(tf))
    tb = f.body(tf[0])
    ctx.touch(tb)
    rows = {}
    panics = []
    for L in (0, 1, 31, 32, 33, 63, 64, 65, 70):
        oracle, state = C08.id_oracle(f, L)
        try:
            ret, it_ = E.run_it(f, tb.path, [E.Tok("id")], {}, oracle)
            got = E.describe(it_.resolve(ret), f)
        except E.Unsupported as ex:
            got = "UNSUPPORTED-FORM: %s" % ex
        rows[L] = "accepted" if got == "Ok(RecordIdentifier(id))" else ("rejected" if got.startswith("Err(") else got)
        if rows[L] == "accepted":
            for acc in ("as_byte_tuple", "to_byte_tuple", "namespace", "author", "key", "key_bytes"):
                ab = f.body(RI + "::" + acc)
                try:
                    r2, it2 = E.run_it(f, ab.path, [E.href("self")], {"self": E.struct(f, RI, **{"0": E.Tok("id")})}, oracle)
                    if r2 is not None and r2[0] == "diverge":
                        panics.append("%s() on an accepted id of %d bytes" % (acc, L))
                except E.Unsupported as ex:
                    panics.append("%s() on an accepted id of %d bytes: %s" % (acc, L, ex))
    want = {L: ("accepted" if L >= 64 else "rejected") for L in rows}
    okv = rows == want and not panics
    ctx.check(okv, rule, tb.path, "identifier-length-validated", "byte length -> %s; accessors that panic on an accepted length: %s; spec: accepted iff at least 64 bytes (namespace + author + key), and then every accessor is total" % (rows, panics[:4]), tb.sp)
    return ok_all and okv


def panic_audit(ctx, rule="C09.R3", only=None, sessions_ok=None):
    """sessions_ok: verdict of the evaluated session tables (C10.R1) when the caller has computed them; the session
    functions' sites are then discharged by that evaluation (a panic on any script is a violation there). Under C09 they
    are listed as decided under C10."""
    f = ctx.facts
    session_paths = {x.path for root in ("net::codec::BobState::run", "net::codec::run_alice", "net::codec::BobState::into_outcome") if root in f.bodies
                     for x in f.scope(root, prefix="net::codec::")}
    inv_ok = None
    n = 0
    counters = {}
    evaluated = {x.path for root in (DEC, ENC) for x in f.scope(root, prefix="net::codec::")}
    codec_ok = all(ok for _, ok, _ in codec_tables(f))
    for b in sorted(f.bodies.values(), key=lambda x: x.path):
        if not AUDIT_SCOPE.search(b.path) or b.rec.get("derived") or "_serde" in b.path:
            continue
        if only is not None and not only.search(b.path):
            continue
        sites = panic_sites(b)
        if not sites:
            continue
        ctx.touch(b)
        if b.path in session_paths and b.path not in evaluated:
            for bi, t, cls in sites:
                n += 1
                short = (t["f"].get("name") if t["k"] == "call" else "BoundsCheck")
                idx = counters.get((b.path, cls + short), 0)
                counters[(b.path, cls + short)] = idx + 1
                if sessions_ok is None:
                    ctx.ok(rule, b.path, "%s.%s#%d" % (cls, short, idx), "session function: decided by the evaluated session tables of C10.R1 (every script, a panic is a violation there)", t["sp"])
                else:
                    ctx.check(sessions_ok, rule, b.path, "%s.%s#%d" % (cls, short, idx), "discharged by the evaluated session tables (C10.R1): no script panics" if sessions_ok
                              else "panic site in a session function whose evaluated table reports a panic or is not evaluable", t["sp"])
            continue
        if b.path in evaluated:
            # the codec functions (and their private helpers) are decided by evaluation over a buffer model in which
            # every out-of-bounds index, failed unwrap/expect and over-long advance diverges: a panic there fails C09.R1/R2
            for bi, t, cls in sites:
                n += 1
                short = (t["f"].get("name") if t["k"] == "call" else "BoundsCheck")
                idx = counters.get((b.path, cls + short), 0)
                counters[(b.path, cls + short)] = idx + 1
                ctx.check(codec_ok, rule, b.path, "%s.%s#%d" % (cls, short, idx), "discharged by the evaluated decoder/encoder tables (C09.R1/R2), where a panic on any cell is a violation" if codec_ok
                          else "panic site in a codec function whose evaluated table does not hold", t["sp"])
            continue
        ts_cache = {}
        for bi, t, cls in sites:
            n += 1
            callee = t["f"].get("full", cls) if t["k"] == "call" else "BoundsCheck"
            short = re.sub(r"<[^<>]*>", "", callee.split("::<")[0]).split("::")[-1] if t["k"] == "call" else "BoundsCheck"
            base = "%s.%s" % (cls, short)
            idx = counters.get((b.path, base), 0)
            counters[(b.path, base)] = idx + 1
            role = "%s#%d" % (base, idx)
            # (i) length guard - which says nothing about a `str` sliced at a byte offset: inside a multi-byte character the slice
            # panics however long the string is (only get(..) / is_char_boundary / an ASCII check make that safe)
            on_str = t["k"] == "call" and cls == "index" and ((t["f"].get("full") or "").startswith("<str as") or " for str>" in (t["f"].get("res") or ""))
            g = None if on_str else length_guarded(b, bi)
            if on_str:
                cb = [cbi for cbi, ct in b.calls() if ct["f"].get("name") in ("is_char_boundary", "is_ascii") and b.dominates(cbi, bi)]
                if cb:
                    ctx.ok(rule, b.path, role, "discharged: dominated by a character-boundary / ASCII test", t["sp"])
                    continue
            if g is not None:
                ctx.ok(rule, b.path, role, "discharged: dominated by a length guard at %s" % g["loc"], t["sp"])
                continue
            # unwrap of try_into() of a guarded index: the index site is guarded -> same guard dominates
            # (ii) type invariant of RecordIdentifier
            if b.path.startswith("sync::RecordIdentifier::") and cls in ("index", "unwrap", "expect", "slice"):
                if inv_ok is None:
                    inv_ok = record_identifier_invariant(ctx, rule)
                if inv_ok:
                    ctx.ok(rule, b.path, role, "discharged: RecordIdentifier invariant len >= 64 (every construction validated)", t["sp"])
                else:
                    ctx.bad(rule, b.path, role, "relies on the RecordIdentifier invariant len >= 64, which is not established for values decoded from the wire", t["sp"])
                continue
            # (iii) typestate
            if cls in ("unwrap", "expect") and t["k"] == "call" and "Option::<sync::SyncOutcome>" in callee:
                name = "progress"
                if name not in ts_cache:
                    ts_cache[name] = typestate.analyse(b, name)
                ts = ts_cache[name]
                src = trace(b, t["a"][0], through_calls=False)
                st = None
                for o in src:
                    if o.kind == "call" and o.data["f"].get("name") == "take":
                        for tb, (s0, tt) in ts["takes"].items():
                            if tt is o.data:
                                st = s0
                if bi in ts["unwraps"]:
                    st = ts["unwraps"][bi][0]
                if st == "S":
                    ctx.ok(rule, b.path, role, "discharged: option typestate, the value is Some on every path to this site", t["sp"])
                    continue
                if b.path.endswith("::into_outcome"):
                    # decided by C10.R1 (object invariant across methods)
                    from . import C10
                    sub = type(ctx)(ctx.prop, ctx.tier, ctx.facts, ctx.cfg)
                    C10.r1(sub)
                    bad = [o for o in sub.obligations if o["status"] != "holds"]
                    if not bad:
                        ctx.ok(rule, b.path, role, "discharged: object invariant (C10.R1)", t["sp"])
                    else:
                        ctx.bad(rule, b.path, role, "unwrap of a field that run() can leave empty (see C10.R1)", t["sp"])
                    continue
            # (iv) table
            hit = None
            for frx, c2, crx, reason in TABLE:
                if re.search(frx, b.path) and c2 == cls and re.search(crx, callee):
                    hit = reason
            if hit:
                ctx.ok(rule, b.path, role, "discharged by table: %s" % hit, t["sp"])
                continue
            # encoder-specific: expect on u32::try_from(len) dominated by the len <= MAX guard; index_mut after resize
            if b.path.endswith("Encoder<net::codec::Message>>::encode"):
                if cls == "expect" and "TryFromIntError" in callee:
                    dom = False
                    for c in comparisons(b):
                        if any("MAX_MESSAGE_SIZE" in origin_summary(o) for o in trace(b, c["b"])) and not c["dest"]["p"]:
                            e = follow_value(b, c["dest"]["l"]).get("true")
                            if e and b.edge_dominates(e[0], e[1], bi):
                                dom = True
                    if dom:
                        ctx.ok(rule, b.path, role, "discharged: dominated by len <= MAX_MESSAGE_SIZE (< 2^32)", t["sp"])
                        continue
                if cls == "index":
                    rs = [rbi for rbi, rt in b.calls() if rt["f"].get("name") == "resize" and b.dominates(rbi, bi)]
                    ln = length_guarded(b, bi)
                    if rs or ln or any(rt["f"].get("name") == "resize" for _, rt in b.calls()):
                        ctx.ok(rule, b.path, role, "discharged: dst was resized to hold prefix + payload on the only path where it was shorter", t["sp"])
                        continue
            ctx.bad(rule, b.path, role, "UNAUDITED-PANIC-SITE: %s on data that can come from the wire, with no dominating length guard, type invariant, typestate or table entry" % callee, t["sp"])
    if only is None and n < 18:
        raise mir.AnchorMissing("panic-site inventory found %d sites, fewer than 18 (30 confirmed by hand on the pinned tree)" % n)
    if only is not None and n < 4:
        raise mir.AnchorMissing("panic-site inventory (session functions) found %d sites, fewer than 4 (8 confirmed by hand on the pinned tree)" % n)
    ctx.floor(rule, 8 if only is None else 3)


def r3(ctx):
    panic_audit(ctx)


def r4(ctx):
    from . import C15
    sub = type(ctx)(ctx.prop, ctx.tier, ctx.facts, ctx.cfg)
    C15.r3(sub)
    for o in sub.obligations:
        o = dict(o)
        o["rule"] = "C09.R4"
        o["key"] = o["key"].replace("C15.R3", "C09.R4")
        ctx.obligations.append(o)
        if o["status"] != "holds":
            ctx.violations.append(o)
    ctx.analysed_bodies |= sub.analysed_bodies
    f = ctx.facts
    d = f.body("<ticket::DocTicket as iroh_tickets::Ticket>::decode_bytes")
    ctx.touch(d)
    # decode_bytes evaluated (K6') on what postcard yields: every ticket encode_bytes can have produced from a ticket with at
    # least one node decodes to exactly that ticket - whatever addressing information the nodes carry (an id alone is a valid
    # way to name a peer: share(.., AddrInfoOptions::Id)); an empty node list and a postcard error are errors
    from . import feval as E, coll
    C = coll.Collections(f)

    def eval_ticket(nodes):
        def oracle(kind, name, payload, site):
            if kind != "call":
                return None
            t, args, it = payload
            names = [it.tokname(a) for a in args]
            if name == "from_bytes":
                if nodes == "garbage":
                    return E.Err(E.Tok("postcard-error"))
                tk = E.struct(f, "ticket::DocTicket", capability=E.Tok("capability"), nodes=coll.seq("vec", [E.Tok(n) for n in nodes]))
                return E.Ok(E.variant(f, "ticket::TicketWireFormat", "Variant0", tk))
            if name == "is_empty" and names and names[0].strip("&*").startswith("node-"):
                return E.Int(1 if names[0].strip("&*").startswith("node-id-only") else 0)     # EndpointAddr::is_empty: no relay url, no direct address
            if name == "from" and len(args) == 1:
                return args[0]
            if name == "verification_failed":
                return E.Tok("verification-failed")
            return C.handle(kind, name, payload, site)
        try:
            ret, itp = E.run_it(f, d.path, [E.Tok("bytes")], {}, oracle)
            r = itp.resolve(ret)
            if r is not None and r[0] == "adt" and r[2] == 0 and r[1] == E.RESULT:
                tk = itp.resolve(r[3][0])
                ns = E.field(f, tk, "ticket::DocTicket", "nodes")
                return "Ok(%s;%s)" % (itp.tokname(E.field(f, tk, "ticket::DocTicket", "capability")), ",".join(itp.tokname(x) for x in ns[2]) if coll.is_seq(ns) else "?")
            return E.describe(ret, f)
        except E.Unsupported as e:
            return "UNSUPPORTED-FORM: %s" % e
    rows = {}
    for nodes in ([], ["node-addressed1"], ["node-id-only1"], ["node-id-only1", "node-id-only2"], ["node-id-only1", "node-addressed2"], "garbage"):
        rows["garbage" if nodes == "garbage" else "[%s]" % ",".join(nodes)] = (eval_ticket(nodes), "Err" if (nodes == "garbage" or not nodes) else "Ok(capability;%s)" % ",".join(nodes))
    badt = {k: g for k, (g, w) in rows.items() if not (g == w or (w == "Err" and g.startswith("Err")))}
    ctx.check(not badt, "C09.R4", d.path, "ok-only-with-nodes", "decode_bytes on the node lists postcard yields: %s; deviating from (Ok with exactly the decoded ticket iff at least one node): %s" % ({k: g for k, (g, w) in rows.items()}, badt), d.sp)
    ctx.check(len(rows) == 6, "C09.R4", d.path, "has-ok-path", "%d ticket cells" % len(rows), d.sp)
    # AuthorHeads::decode / Capability::from_raw propagate decoder errors
    h = f.body("heads::AuthorHeads::decode")
    ctx.touch(h)
    fb = [t for _, t in h.calls() if t["f"].get("name") == "from_bytes"]
    ctx.check(len(fb) == 1 and bool(call_outcomes(h, [bi for bi, t in h.calls() if t is fb[0]][0]).get("Err")), "C09.R4", h.path, "decode-error-propagated", "postcard error is returned with ?", h.sp)
    cr = f.body("sync::Capability::from_raw")
    ctx.touch(cr)
    ti = [bi for bi, t in cr.calls() if t["f"].get("name") in ("try_into", "try_from", "try_from_primitive")]
    ctx.check(len(ti) == 1 and bool(call_outcomes(cr, ti[0]).get("Err")), "C09.R4", cr.path, "unknown-kind-is-error", "an unknown capability kind byte returns Err", cr.sp)
    # every kind byte: a value or an error, never a panic; exactly the kinds the encoder emits decode
    from . import nsmig
    ks = nsmig.from_raw_kinds(f)
    rt = nsmig.round_trip(f)
    emitted = {k for k, _ in rt.values()}
    badk = {k: g for k, g in ks.items() if not (g.startswith("Ok(") if k in emitted else g.startswith("Err"))}
    ctx.check(not badk, "C09.R4", cr.path, "every-kind-byte-decodes-or-errors", "from_raw evaluated on kind bytes %s; deviating from (Ok exactly for the kinds raw() emits, %s; Err otherwise; never a panic): %s" % (ks, sorted(k for k in emitted if k is not None), badk), cr.sp)
    ctx.floor("C09.R4", 7)


def r5(ctx):
    """author-heads reports (the payload of a gossiped sync report) survive encode -> decode: every head kept without a
    limit, the newest that fit under one (shared with C13.R3, where the encoding is anchored)"""
    from . import C13
    sub = type(ctx)(ctx.prop, ctx.tier, ctx.facts, ctx.cfg)
    C13.r3(sub)
    for o in sub.obligations:
        o = dict(o)
        o["key"] = o["key"].replace("C13.R3", "C09.R5")
        o["rule"] = "C09.R5"
        ctx.obligations.append(o)
        if o["status"] != "holds":
            ctx.violations.append(o)
    ctx.analysed_bodies |= sub.analysed_bodies
    ctx.floor("C09.R5", 3)


def r6(ctx):
    """what the session functions do with a frame the codec rejects (garbage, oversized, truncated): the session ends with a
    reported error on both sides - never with success, as if the bytes had been a message (shared with C10.R2, whose frame
    scripts contain decode errors at every position)"""
    from . import C10
    sub = type(ctx)(ctx.prop, ctx.tier, ctx.facts, ctx.cfg)
    C10.r1(sub)
    C10.r2(sub)
    n = 0
    for o in sub.obligations:
        if "protocol-table" not in o["key"]:
            continue
        o = dict(o)
        o["key"] = o["key"].replace("C10.R2", "C09.R6")
        o["rule"] = "C09.R6"
        ctx.obligations.append(o)
        n += 1
        if o["status"] != "holds":
            ctx.violations.append(o)
    ctx.analysed_bodies |= sub.analysed_bodies
    ctx.floor("C09.R6", 2)


def r7(ctx):
    """"signed entries ... keep their pinned byte encodings": the canonical bytes that are signed and verified (= C03.R4's layout
    clause: identifier, big-endian length, hash, big-endian timestamp)"""
    from . import C03
    C03.canonical_layout(ctx, "C09.R7")
    ctx.floor("C09.R7", 1)


def r8(ctx):
    """an author-heads report survives encode -> decode: decoding rebuilds the set through AuthorHeads::insert, which keeps every
    author it is given - also one whose timestamp is 0 - at the maximum of its timestamps (= C13.R2 insert-keeps-maximum)"""
    from . import C13
    ctx.share("C09.R8", C13.r2, "C13.R2", keep=lambda k: "insert" in k, floor=1)

def r9(ctx):
    """a download policy survives its storage round trip: what set_download_policy writes is the policy it was given - every
    variant, also one with an empty filter list (`NothingExcept([])` is "download nothing", a missing row reads as "download
    everything") - and what the reader decodes is that row (the evaluated set / get cells of C15.R2)"""
    from . import C15
    ctx.share("C09.R9", C15.r2, "C15.R2", keep=lambda k: "set[" in k or "reader" in k or "get" in k, floor=3)

def r10(ctx):
    """"author and namespace keys keep their pinned byte encodings": to_bytes / as_bytes / from_bytes / From<[u8; 32]> / Serialize of the key and id types evaluated - the bare 32 bytes each"""
    from . import keyalg
    keyalg.check(ctx, "C09.R10")
    ctx.floor("C09.R10", 40)

def r11(ctx):
    """"storage encodings round-trip ... keep their pinned byte encodings": the stored row of an entry is (timestamp, namespace
    signature, author signature, length, hash) under (namespace, author, key) - the layout every existing database has; writer
    and reader are each compared with it, not only with each other (C08.R1; C09-13 swapped the signatures in both)"""
    from . import C08
    ctx.share("C09.R11", C08.r1, "C08.R1", keep=lambda k: "row-to-entry" in k or "value=" in k or "key=" in k, floor=2)

def run(ctx):
    ctx.run_rule("C09.R1", r1)
    ctx.run_rule("C09.R2", r2)
    ctx.run_rule("C09.R3", r3)
    ctx.run_rule("C09.R4", r4)
    ctx.run_rule("C09.R5", r5)
    ctx.run_rule("C09.R6", r6)
    ctx.run_rule("C09.R7", r7)
    ctx.run_rule("C09.R8", r8)
    ctx.run_rule("C09.R9", r9)
    ctx.run_rule("C09.R10", r10)
    ctx.run_rule("C09.R11", r11)

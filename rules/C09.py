"""C09 — wire and storage encodings round-trip and never crash on hostile bytes."""
import re
from . import mir
from .mir import trace, origin_summary, callee_matches
from .common import find_calls, one_call, call_outcomes, comparisons, follow_value, leaves
from . import paths as P
from . import typestate

EXPLANATION = (
    "Decides structural necessary conditions of C09 from MIR: (R1) SyncCodec::decode parses a frame only on paths that passed "
    "src.len() >= 4, frame_len <= MAX_MESSAGE_SIZE (else Err) and src.len() >= 4 + frame_len (else Ok(None)), consumes bytes only "
    "after a successful parse, and encode rejects len > MAX_MESSAGE_SIZE; (R2) the encoder only appends: every index into dst and "
    "the resize target are computed from dst's length at entry; (R3) hostile-data panic sites: inventory of unwrap/expect/"
    "slice-index/advance/panic sites in the decoders, the wire types' accessors and the session functions, each discharged by a "
    "dominating length guard, by a declared type invariant whose own rule holds (every construction of RecordIdentifier happens "
    "in a validating constructor; a derived Deserialize building it from unchecked bytes violates it), by the option-field "
    "typestate rule, or by a table line naming one site with a reason; anything else is UNAUDITED; (R4) FilterKind Display/"
    "FromStr tag agreement and DocTicket::decode_bytes rejecting an empty node list. NOT decided: byte-exact round trip for all "
    "values and chunkings (postcard / tokio_util trusted), pinned encodings (the snapshot tests cover them)."
)
ASSUMPTIONS = ["postcard never panics on malformed input (trusted)", "tokio_util::codec calls decode with the accumulated buffer"]

DEC = "<net::codec::SyncCodec as tokio_util::codec::Decoder>::decode"
ENC = "<net::codec::SyncCodec as tokio_util::codec::Encoder<net::codec::Message>>::encode"


def _truth(k, v):
    neg = False
    while k[0] == "not":
        neg = not neg
        k = k[1]
    return k, (bool(v) != neg)


def r1(ctx):
    f = ctx.facts
    d = f.body(DEC)
    ctx.touch(d)
    c = f.const("net::codec::MAX_MESSAGE_SIZE")
    ctx.check(c["val"] is not None and c["val"] <= 0xFFFFFFFF, "C09.R1", "net::codec::MAX_MESSAGE_SIZE", "fits-length-prefix", "= %s <= u32::MAX" % c["val"], c["sp"])
    n_parse = 0
    for p in P.explore(d):
        calls = P.calls(p)
        if "from_bytes" not in calls:
            # no parse: must not consume
            ctx.check("advance" not in calls and "split_to" not in calls, "C09.R1", DEC, "no-consume-without-parse[%s]" % P.short(p.ret)[:20], "calls %s" % [x for x in calls if x in ("advance", "split_to")], d.sp)
            continue
        n_parse += 1
        have4 = sized = avail = None
        for k, v in p.decisions:
            kk, tv = _truth(k, v)
            if kk[0] != "cmp":
                continue
            a, b2, op = kk[2], kk[3], kk[1]
            if "len(arg:src)" in a and P.const_of_key(b2) == 4:
                have4 = (op == "<" and not tv) or (op == ">=" and tv)
            elif "MAX_MESSAGE_SIZE" in b2 and "from_be_bytes" in a:
                sized = (op == "<=" and tv) or (op == ">" and not tv)
            elif "MAX_MESSAGE_SIZE" in a and "from_be_bytes" in b2:
                sized = (op == ">=" and tv) or (op == "<" and not tv)
            elif "len(arg:src)" in a and P.const_of_key(b2) is None:
                avail = (op == "<" and not tv) or (op == ">=" and tv)
        ctx.check(bool(have4) and bool(sized) and bool(avail), "C09.R1", DEC, "parse-guarded[%s]" % P.short(p.ret)[:24],
                  "parse path passed: len>=4 %s, frame_len<=MAX %s, len>=4+frame_len %s" % (have4, sized, avail), d.sp)
        # consume only after successful parse
        if "advance" in calls:
            okc = calls.index("advance") > calls.index("from_bytes") and p.ret[0] == "variant" and p.ret[1] == "Ok"
            ctx.check(okc, "C09.R1", DEC, "consume-after-successful-parse", "advance follows from_bytes on the Ok path", d.sp)
    if n_parse < 2:
        raise mir.AnchorMissing("decode: expected the parse on >=2 paths, found %d" % n_parse)
    # the availability bound is 4 + frame_len and the slice parsed is [4 .. 4+frame_len]
    def is_frame_end(op):
        """operand = 4 + frame_len (possibly through a shared local)"""
        for o in trace(d, op, through_calls=False):
            if o.kind == "expr" and o.data[0] == "bin" and o.data[1] in ("Add", "AddWithOverflow"):
                ops = [o.data[2], o.data[3]]
                has4 = any(x[0] == "const" and x[1].get("val") == 4 for x in ops)
                haslen = any(x[0] != "const" and any(y.kind == "call" and y.data["f"].get("name") == "from_be_bytes" for y in leaves(d, x, expand_calls=False)) for x in ops)
                if has4 and haslen:
                    return True
        return False
    uses = {}
    for c in comparisons(d):
        if any(o.kind == "call" and o.data["f"].get("name") == "len" for o in trace(d, c["a"], through_calls=False)) and c["b"][0] != "const":
            uses["availability-test"] = is_frame_end(c["b"])
    for bi, t in d.calls():
        if t["f"].get("name") == "advance":
            uses["advance"] = is_frame_end(t["a"][1])
    ctx.check(uses.get("availability-test") is True and uses.get("advance") is True, "C09.R1", DEC, "bounds-are-4+frame_len",
              "availability test and advance use 4 + frame_len: %s" % uses, d.sp)
    # the bytes handed to the parser are exactly the declared frame: src[4 .. 4 + frame_len]
    fb = [(bi, t) for bi, t in d.calls() if t["f"].get("name") == "from_bytes"]
    okslice = False
    det = "no from_bytes call"
    if len(fb) == 1:
        det = "parser input is not an index of src with a closed range"
        for o in trace(d, fb[0][1]["a"][0], through_calls=False):
            if o.kind == "call" and o.data["f"].get("name") == "index":
                full = o.data["f"].get("full", "")
                rng = o.data["a"][1]
                lv = leaves(d, rng, expand_calls=False)
                has4 = any(True for s2 in [0])
                closed = "ops::Range<usize>" in full and "RangeFrom" not in full
                end_from_len = any(x.kind == "call" and x.data["f"].get("name") == "from_be_bytes" for x in lv)
                okslice = closed and end_from_len
                det = "parser input = src[%s] (closed range: %s, end derives from the length prefix: %s)" % (full.split("Index<")[-1].split(">")[0] if "Index<" in full else "?", closed, end_from_len)
    ctx.check(okslice, "C09.R1", DEC, "parses-exactly-the-declared-frame", det, fb[0][1]["sp"] if fb else d.sp)
    # too-large frames return Err
    errs = [p for p in P.explore(d) if p.ret[0] == "variant" and p.ret[1] == "Err"]
    ok = any(any("MAX_MESSAGE_SIZE" in str(k) for k, v in p.decisions) for p in errs)
    ctx.check(ok, "C09.R1", DEC, "oversized-frame-is-error", "a frame longer than MAX_MESSAGE_SIZE returns Err (not Ok(None), which would wait forever)", d.sp)
    e = f.body(ENC)
    ctx.touch(e)
    ok = False
    for p in P.explore(e):
        if p.ret[0] == "variant" and p.ret[1] == "Err" and any("MAX_MESSAGE_SIZE" in str(k) for k, v in p.decisions):
            ok = "put_u32" not in P.calls(p)
    ctx.check(ok, "C09.R1", ENC, "encode-rejects-oversized-before-writing", "len > MAX_MESSAGE_SIZE returns Err before anything is written", e.sp)
    ctx.floor("C09.R1", 7)


def r2(ctx):
    f = ctx.facts
    e = f.body(ENC)
    n = 0
    for bi, t in e.calls():
        nm = t["f"].get("name")
        if nm in ("index_mut", "index") and "Range" in t["f"].get("full", ""):
            recv = {origin_summary(o) for o in trace(e, t["a"][0])}
            if recv != {"arg:dst"}:
                continue
            n += 1
            lv = leaves(e, t["a"][1], expand_calls=False)
            rel = any(o.kind == "call" and o.data["f"].get("name") == "len" and {origin_summary(x) for x in trace(e, o.data["a"][0])} == {"arg:dst"} for o in lv)
            ctx.check(rel, "C09.R2", ENC, "payload-offset-relative-to-entry-length",
                      "the payload is written at an offset derived from dst.len() at entry" if rel else
                      "the payload is written at a constant absolute offset of dst: whenever dst is not empty at entry (the Encoder contract allows it: "
                      "frames are appended to the write buffer) the length prefix is appended at the end while the payload overwrites earlier bytes", t["sp"])
        if nm == "resize":
            recv = {origin_summary(o) for o in trace(e, t["a"][0])}
            if recv != {"arg:dst"}:
                continue
            n += 1
            lv = leaves(e, t["a"][1], expand_calls=False)
            rel = any(o.kind == "call" and o.data["f"].get("name") == "len" for o in lv)
            ctx.check(rel, "C09.R2", ENC, "resize-relative-to-entry-length", "resize target derives from dst.len()" if rel else "resize target is an absolute length (4 + len)", t["sp"])
    if n < 1:
        # an append-only encoder (extend_from_slice / put_slice) has no indexing at all
        app = [t for _, t in e.calls() if t["f"].get("name") in ("extend_from_slice", "put_slice", "put", "writer")]
        ctx.check(bool(app), "C09.R2", ENC, "append-only", "no indexing into dst; payload appended with %s" % [t["f"].get("name") for t in app], e.sp)
    ctx.floor("C09.R2", 1)


# ---------------------------------------------------------------- K11 audit
AUDIT_SCOPE = re.compile(
    r"^(sync::(RecordIdentifier|Record|Entry|SignedEntry|EntrySignature|Capability)::|<sync::(RecordIdentifier|Record|Entry|SignedEntry|EntrySignature|Capability) as |"
    r"heads::AuthorHeads::decode|ticket::|<ticket::|<store::FilterKind as std::str::FromStr>|net::codec::|<net::codec::|net::handle_connection|net::connect_and_sync|"
    r"sync::Replica::<'a, I>::(sync_process_message|insert_remote_entry|insert_entry)|ranger::Store::process_message|ranger::Store::put|sync::validate_entry|"
    r"engine::gossip::|engine::live::LiveActor::<D>::on_sync_report|keys::|<keys::|store::fs::into_entry|store::fs::get_exact|<store::fs::StoreInstance)")

# table lines: (function regex, site class, callee regex) -> reason.  One named site each.
TABLE = [
    (r"^<net::codec::SyncCodec as tokio_util::codec::Encoder<net::codec::Message>>::encode$", "unwrap", r"Result::<usize, postcard::Error>::unwrap",
     "size computation of a local message with the counting flavor cannot fail; operand is local, not wire data"),
    (r"^<ticket::DocTicket as iroh_tickets::Ticket>::encode_bytes$", "expect", r"Result::<std::vec::Vec<u8>, postcard::Error>::expect",
     "serialisation of a local ticket into a growable Vec; operand is local, not wire data"),
    (r"^ranger::Store::process_message::\{closure#0\}::\{closure#\d+\}(::\{closure#\d+\})?$", "expect", r"Option::<std::result::Result<E, .*>>::expect",
     "pivot lookup: nth(offset) with offset < number of local entries counted in the same range of the local store; operand is local"),
]


def panic_sites(b):
    out = []
    for bi, t in b.calls():
        nm = t["f"].get("name")
        full = t["f"].get("full", "")
        cls = None
        if nm in ("unwrap", "expect", "unwrap_unchecked"):
            cls = nm
        elif nm in ("index", "index_mut") and ("ops::Range" in full or "usize" in full):
            cls = "index"
        elif "panicking" in full or nm in ("panic", "panic_fmt", "unreachable", "assert_failed", "panic_display", "begin_panic"):
            cls = "panic"
        elif nm in ("split_at", "copy_from_slice", "advance", "split_to", "split_off", "slice"):
            cls = nm
        if cls and not mir.is_noise(t["x"]):
            out.append((bi, t, cls))
    reach = b.reachable()
    for i, blk in enumerate(b.blocks):
        t = blk["t"]
        if t["k"] == "assert" and t["m"] == "BoundsCheck" and i in reach:
            out.append((i, t, "boundscheck"))
    return out


def length_guarded(b, bi):
    """site dominated by the 'long enough' edge of a comparison of some len() with a bound"""
    for c in comparisons(b):
        if c["dest"]["p"]:
            continue
        a_len = any(o.kind == "call" and o.data["f"].get("name") == "len" for o in trace(b, c["a"], through_calls=False))
        b_len = any(o.kind == "call" and o.data["f"].get("name") == "len" for o in trace(b, c["b"], through_calls=False))
        if not (a_len or b_len):
            continue
        edges = follow_value(b, c["dest"]["l"])
        op = c["op"]
        if b_len and not a_len:
            op = {"<": ">", ">": "<", "<=": ">=", ">=": "<=", "==": "==", "!=": "!="}[op]
        good = None
        if op in ("<", "<="):
            good = edges.get("false")
        elif op in (">", ">="):
            good = edges.get("true")
        elif op == "==":
            good = edges.get("true")
        if good and b.edge_dominates(good[0], good[1], bi):
            return c
    return None


def record_identifier_invariant(ctx, rule):
    """every construction of sync::RecordIdentifier happens in a validating constructor"""
    f = ctx.facts
    ok_all = True
    n = 0
    for b in f.bodies.values():
        for bi, si, s in b.statements():
            if s["k"] == "assign" and s["r"][0] == "agg" and s["r"][1][0] == "adt" and s["r"][1][1] == "sync::RecordIdentifier":
                n += 1
                if b.path == "sync::RecordIdentifier::new":
                    ctx.ok(rule, b.path, "constructs-RecordIdentifier", "the constructor writes namespace (32) + author (32) + key", s["sp"])
                    continue
                if b.rec.get("impl_trait") == "std::clone::Clone":
                    ctx.ok(rule, b.path, "constructs-RecordIdentifier", "clone of an existing value", s["sp"])
                    continue
                g = length_guarded(b, bi)
                if g is not None:
                    ctx.ok(rule, b.path, "constructs-RecordIdentifier", "construction dominated by a length guard (%s)" % g["loc"], s["sp"])
                    continue
                ok_all = False
                ctx.bad(rule, b.path.split("::deserialize")[0] if "_serde" in b.path else b.path, "constructs-RecordIdentifier-unchecked",
                        "RecordIdentifier is built from bytes whose length was never checked (%s), while its accessors index bytes 0..32, 32..64, 64.. and unwrap: "
                        "an id shorter than 64 bytes received from a peer decodes fine and then panics in namespace()/author()/key()" % b.path, s["sp"])
    if n < 1:
        raise mir.AnchorMissing("no construction of sync::RecordIdentifier found")
    return ok_all


def panic_audit(ctx, rule="C09.R3", only=None):
    f = ctx.facts
    inv_ok = None
    n = 0
    counters = {}
    for b in sorted(f.bodies.values(), key=lambda x: x.path):
        if not AUDIT_SCOPE.search(b.path) or b.rec.get("derived") or "_serde" in b.path:
            continue
        if only is not None and not only.search(b.path):
            continue
        sites = panic_sites(b)
        if not sites:
            continue
        ctx.touch(b)
        ts_cache = {}
        for bi, t, cls in sites:
            n += 1
            callee = t["f"].get("full", cls) if t["k"] == "call" else "BoundsCheck"
            short = re.sub(r"<[^<>]*>", "", callee.split("::<")[0]).split("::")[-1] if t["k"] == "call" else "BoundsCheck"
            base = "%s.%s" % (cls, short)
            idx = counters.get((b.path, base), 0)
            counters[(b.path, base)] = idx + 1
            role = "%s#%d" % (base, idx)
            # (i) length guard
            g = length_guarded(b, bi)
            if g is not None:
                ctx.ok(rule, b.path, role, "discharged: dominated by a length guard at %s" % g["loc"], t["sp"])
                continue
            # unwrap of try_into() of a guarded index: the index site is guarded -> same guard dominates
            # (ii) type invariant of RecordIdentifier
            if b.path.startswith("sync::RecordIdentifier::") and cls in ("index", "unwrap", "slice"):
                if inv_ok is None:
                    inv_ok = record_identifier_invariant(ctx, rule)
                if inv_ok:
                    ctx.ok(rule, b.path, role, "discharged: RecordIdentifier invariant len >= 64 (every construction validated)", t["sp"])
                else:
                    ctx.bad(rule, b.path, role, "relies on the RecordIdentifier invariant len >= 64, which is not established for values decoded from the wire", t["sp"])
                continue
            # (iii) typestate
            if cls in ("unwrap", "expect") and t["k"] == "call" and "Option::<sync::SyncOutcome>" in callee:
                name = "progress"
                if name not in ts_cache:
                    ts_cache[name] = typestate.analyse(b, name)
                ts = ts_cache[name]
                src = trace(b, t["a"][0], through_calls=False)
                st = None
                for o in src:
                    if o.kind == "call" and o.data["f"].get("name") == "take":
                        for tb, (s0, tt) in ts["takes"].items():
                            if tt is o.data:
                                st = s0
                if bi in ts["unwraps"]:
                    st = ts["unwraps"][bi][0]
                if st == "S":
                    ctx.ok(rule, b.path, role, "discharged: option typestate, the value is Some on every path to this site", t["sp"])
                    continue
                if b.path.endswith("::into_outcome"):
                    # decided by C10.R1 (object invariant across methods)
                    from . import C10
                    sub = type(ctx)(ctx.prop, ctx.tier, ctx.facts, ctx.cfg)
                    C10.r1(sub)
                    bad = [o for o in sub.obligations if o["status"] != "holds"]
                    if not bad:
                        ctx.ok(rule, b.path, role, "discharged: object invariant (C10.R1)", t["sp"])
                    else:
                        ctx.bad(rule, b.path, role, "unwrap of a field that run() can leave empty (see C10.R1)", t["sp"])
                    continue
            # (iv) table
            hit = None
            for frx, c2, crx, reason in TABLE:
                if re.search(frx, b.path) and c2 == cls and re.search(crx, callee):
                    hit = reason
            if hit:
                ctx.ok(rule, b.path, role, "discharged by table: %s" % hit, t["sp"])
                continue
            # encoder-specific: expect on u32::try_from(len) dominated by the len <= MAX guard; index_mut after resize
            if b.path.endswith("Encoder<net::codec::Message>>::encode"):
                if cls == "expect" and "TryFromIntError" in callee:
                    dom = False
                    for c in comparisons(b):
                        if any("MAX_MESSAGE_SIZE" in origin_summary(o) for o in trace(b, c["b"])) and not c["dest"]["p"]:
                            e = follow_value(b, c["dest"]["l"]).get("true")
                            if e and b.edge_dominates(e[0], e[1], bi):
                                dom = True
                    if dom:
                        ctx.ok(rule, b.path, role, "discharged: dominated by len <= MAX_MESSAGE_SIZE (< 2^32)", t["sp"])
                        continue
                if cls == "index":
                    rs = [rbi for rbi, rt in b.calls() if rt["f"].get("name") == "resize" and b.dominates(rbi, bi)]
                    ln = length_guarded(b, bi)
                    if rs or ln or any(rt["f"].get("name") == "resize" for _, rt in b.calls()):
                        ctx.ok(rule, b.path, role, "discharged: dst was resized to hold prefix + payload on the only path where it was shorter", t["sp"])
                        continue
            ctx.bad(rule, b.path, role, "UNAUDITED-PANIC-SITE: %s on data that can come from the wire, with no dominating length guard, type invariant, typestate or table entry" % callee, t["sp"])
    if only is None and n < 25:
        raise mir.AnchorMissing("panic-site inventory found %d sites, fewer than the 25 confirmed by hand" % n)
    if only is not None and n < 8:
        raise mir.AnchorMissing("panic-site inventory (session functions) found %d sites, fewer than the 8 confirmed by hand" % n)
    ctx.floor(rule, 8)


def r3(ctx):
    panic_audit(ctx)


def r4(ctx):
    from . import C15
    sub = type(ctx)(ctx.prop, ctx.tier, ctx.facts, ctx.cfg)
    C15.r3(sub)
    for o in sub.obligations:
        o = dict(o)
        o["rule"] = "C09.R4"
        o["key"] = o["key"].replace("C15.R3", "C09.R4")
        ctx.obligations.append(o)
        if o["status"] != "holds":
            ctx.violations.append(o)
    ctx.analysed_bodies |= sub.analysed_bodies
    f = ctx.facts
    d = f.body("<ticket::DocTicket as iroh_tickets::Ticket>::decode_bytes")
    ctx.touch(d)
    okp = 0
    for p in P.explore(d):
        if p.ret[0] == "variant" and p.ret[1] == "Ok":
            okp += 1
            emp = [_truth(k, v) for k, v in p.decisions if "is_empty" in str(k)]
            ctx.check(bool(emp) and all(tv is False for kk, tv in emp), "C09.R4", d.path, "ok-only-with-nodes", "Ok path decided nodes.is_empty() = %s" % [tv for kk, tv in emp], d.sp)
    ctx.check(okp >= 1, "C09.R4", d.path, "has-ok-path", "%d Ok paths" % okp, d.sp)
    # AuthorHeads::decode / Capability::from_raw propagate decoder errors
    h = f.body("heads::AuthorHeads::decode")
    ctx.touch(h)
    fb = [t for _, t in h.calls() if t["f"].get("name") == "from_bytes"]
    ctx.check(len(fb) == 1 and bool(call_outcomes(h, [bi for bi, t in h.calls() if t is fb[0]][0]).get("Err")), "C09.R4", h.path, "decode-error-propagated", "postcard error is returned with ?", h.sp)
    cr = f.body("sync::Capability::from_raw")
    ctx.touch(cr)
    ti = [bi for bi, t in cr.calls() if t["f"].get("name") in ("try_into", "try_from", "try_from_primitive")]
    ctx.check(len(ti) == 1 and bool(call_outcomes(cr, ti[0]).get("Err")), "C09.R4", cr.path, "unknown-kind-is-error", "an unknown capability kind byte returns Err", cr.sp)
    ctx.floor("C09.R4", 6)


def run(ctx):
    ctx.run_rule("C09.R1", r1)
    ctx.run_rule("C09.R2", r2)
    ctx.run_rule("C09.R3", r3)
    ctx.run_rule("C09.R4", r4)

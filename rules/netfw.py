"""The two connection wrappers of src/net.rs evaluated (K6'): net::handle_connection (accepting side) and
net::connect_and_sync (initiating side), with the QUIC calls and the session functions answered by the oracle on a grid of
(stream opened?, session result, which closing step fails). Spec rows from C10: each side finishes with success or a
reported error on every cell; success carries the session's own outcome, document and peer; the accepting side collects its
outcome whatever the session returned and finishes its send stream also after a failed or declined session (that is what
delivers the abort frame to the initiator)."""
from . import mir


def _eval(f, path, args, answers, log, recorded_ns=True):
    from . import feval as E, coll
    C = coll.Collections(f)

    def oracle(kind, name, payload, site):
        if kind == "await":
            nm = str(name)
            if nm.startswith("fut:"):
                return answers(nm[4:])
            return None
        if kind != "call":
            return None
        t, a, it = payload
        names = [it.tokname(x).strip("&*") for x in a]
        full = (t["f"].get("full") or "") + (t["f"].get("path") or "")
        if name == "remote_id":
            return E.Tok("remote-peer")
        if name in ("accept_bi", "open_bi", "connect", "stopped", "read_to_end"):
            log.append((name, names[1:] if name != "connect" else names[1:2]))
            return E.Tok("fut:" + name)
        if mir.callee_matches(t, r"net::codec::BobState::new$"):
            log.append(("BobState::new", names))
            return E.Tok("bob")
        if mir.callee_matches(t, r"net::codec::BobState::run$"):
            log.append(("run", names))
            return E.Tok("fut:run")
        if mir.callee_matches(t, r"net::codec::run_alice$"):
            log.append(("run_alice", names))
            return E.Tok("fut:run_alice")
        if mir.callee_matches(t, r"net::codec::BobState::namespace$"):
            return E.Some(E.Tok("ns-recorded")) if recorded_ns else E.NONE
        if mir.callee_matches(t, r"net::codec::BobState::into_outcome$"):
            log.append(("into_outcome", names))
            return E.Tok("bob-outcome")
        if name == "finish":
            log.append(("finish", names))
            return answers("finish")
        if name in ("now", "elapsed", "sub"):
            return E.Tok("t")
        if name in ("instrument", "clone"):
            return a[0]
        if name == "in_scope":
            return E.UNIT
        if name in ("fmt_short",):
            return E.Tok("short")
        if name in ("inc", "inc_by"):
            return E.UNIT
        return C.handle(kind, name, payload, site)
    try:
        ret, hp, evs = E.run_async(f, path, args, {"peer-addr": E.Tok("peer-addr")}, oracle)
        return E.describe(ret, f)
    except E.Unsupported as e:
        return "UNSUPPORTED-FORM: %s" % e


def check_accept(ctx, rule):
    from . import feval as E
    f = ctx.facts
    path = "net::handle_connection"
    b = f.body(path + "::{closure#0}")
    ctx.touch(b)
    # a request we declined never held the sync slot of its (document, peer): whatever happens to its connection afterwards, the
    # error the live actor gets must not look like the failure of an accepted session of that document (it would release the slot
    # of the session that *is* running with that peer) - it is the Abort itself, or it names no document
    for closefail in (None, "finish", "stopped", "read_to_end"):
        log = []

        def answers_d(what, closefail=closefail):
            if what == "accept_bi":
                return E.Ok(("tuple", [E.Tok("send"), E.Tok("recv")]))
            if what == "run":
                return E.Err(E.variant(f, "net::AcceptError", "Abort", peer=E.Tok("remote-peer"), namespace=E.Tok("ns-declined"), reason=E.Tok("reason")))
            if what in ("finish", "stopped", "read_to_end"):
                return E.Err(E.Tok("close-error")) if closefail == what else E.Ok(E.Tok("closed"))
            return None
        got = _eval(f, path, [E.Tok("sync"), E.Tok("connection"), E.Tok("accept_cb"), E.NONE], answers_d, log, recorded_ns=False)
        ok = got.startswith("Err(") and (got.startswith("Err(Abort(") or "ns-declined" not in got)
        ctx.check(ok, rule, path, "accept[session=declined,close-fails=%s]" % (closefail or "no"),
                  "returns %s; spec: the Abort error, or an error that names no document (a declined request holds no slot to release)" % got, b.sp)
    for opened in (1, 0):
        for run in ("ok", "err"):
            for closefail in (None, "finish", "stopped", "read_to_end"):
                if not opened and (run != "ok" or closefail):
                    continue
                log = []

                def answers(what, opened=opened, run=run, closefail=closefail):
                    if what == "accept_bi":
                        return E.Ok(("tuple", [E.Tok("send"), E.Tok("recv")])) if opened else E.Err(E.Tok("connection-error"))
                    if what == "run":
                        return E.Ok(E.Tok("ns-of-session")) if run == "ok" else E.Err(E.Tok("session-error"))
                    if what in ("finish", "stopped", "read_to_end"):
                        return E.Err(E.Tok("close-error")) if closefail == what else E.Ok(E.Tok("closed"))
                    return None
                got = _eval(f, path, [E.Tok("sync"), E.Tok("connection"), E.Tok("accept_cb"), E.NONE], answers, log)
                names = [x[0] for x in log]
                problems = []
                if not (got.startswith("Ok(") or got.startswith("Err(")):
                    problems.append("neither success nor a reported error")
                if not opened:
                    if not got.startswith("Err(") or "run" in names:
                        problems.append("no stream was opened, yet a session was run or success reported")
                else:
                    if names.count("run") != 1 or names.count("into_outcome") != 1 or names.index("into_outcome") < names.index("run"):
                        problems.append("the outcome is not collected exactly once after the session")
                    if "finish" not in names or names.index("finish") < names.index("run"):
                        problems.append("the send stream is not finished after the session (a declined initiator would not receive the abort frame)")
                    if got.startswith("Ok(") and got != "Ok(SyncFinished(ns-of-session,remote-peer,bob-outcome,Timings(t,t)))":
                        problems.append("success must carry the session's document, the connection's peer and the collected outcome")
                    if run == "ok" and not closefail and not got.startswith("Ok("):
                        problems.append("a successful session is reported as an error")
                    if run == "err" and not got.startswith("Err("):
                        problems.append("a failed session is reported as success")
                    if closefail and run == "ok" and "ns-recorded" not in got and "ns-of-session" not in got:
                        problems.append("the close error does not name the document")
                ctx.check(not problems, rule, path, "accept[stream=%s,session=%s,close-fails=%s]" % ("opened" if opened else "failed", run, closefail or "no"),
                          "returns %s after %s; %s" % (got, names, "; ".join(problems) or "as specified"), b.sp)


def check_connect(ctx, rule):
    from . import feval as E
    f = ctx.facts
    path = "net::connect_and_sync"
    b = f.body(path + "::{closure#0}")
    ctx.touch(b)
    for stage in ("ok", "connect", "open_bi"):
        for run in ("ok", "err"):
            for closefail in (None, "finish", "stopped", "read_to_end"):
                if stage != "ok" and (run != "ok" or closefail):
                    continue
                log = []

                def answers(what, stage=stage, run=run, closefail=closefail):
                    if what == "connect":
                        return E.Err(E.Tok("connect-error")) if stage == "connect" else E.Ok(E.Tok("connection"))
                    if what == "open_bi":
                        return E.Err(E.Tok("open-error")) if stage == "open_bi" else E.Ok(("tuple", [E.Tok("send"), E.Tok("recv")]))
                    if what == "run_alice":
                        return E.Ok(E.Tok("alice-outcome")) if run == "ok" else E.Err(E.Tok("session-error"))
                    if what in ("finish", "stopped", "read_to_end"):
                        return E.Err(E.Tok("close-error")) if closefail == what else E.Ok(E.Tok("closed"))
                    return None
                peer = E.struct(f, "iroh::EndpointAddr", id=E.Tok("peer-id"), addrs=E.Tok("addrs")) if "iroh::EndpointAddr" in f.adts else E.Tok("peer")
                got = _eval(f, path, [E.Tok("endpoint"), E.Tok("sync"), E.Tok("namespace"), peer, E.NONE], answers, log)
                names = [x[0] for x in log]
                problems = []
                if not (got.startswith("Ok(") or got.startswith("Err(")):
                    problems.append("neither success nor a reported error")
                if stage != "ok":
                    if not got.startswith("Err(") or "run_alice" in names:
                        problems.append("no stream was opened, yet a session was run or success reported")
                else:
                    if names.count("run_alice") != 1:
                        problems.append("the session is not run exactly once")
                    ra = [x for x in log if x[0] == "run_alice"]
                    if ra and not ("sync" in ra[0][1] and "namespace" in ra[0][1]):
                        problems.append("the session is not run for the requested document on the given store handle")
                    if got.startswith("Ok(") and not (got.startswith("Ok(SyncFinished(namespace,") and "alice-outcome" in got):
                        problems.append("success must carry the requested document and the session's outcome")
                    if run == "ok" and not closefail and not got.startswith("Ok("):
                        problems.append("a successful session is reported as an error")
                    if run == "err" and not got.startswith("Err("):
                        problems.append("a failed session is reported as success")
                ctx.check(not problems, rule, path, "connect[stage=%s,session=%s,close-fails=%s]" % (stage, run, closefail or "no"),
                          "returns %s after %s; %s" % (got, names, "; ".join(problems) or "as specified"), b.sp)

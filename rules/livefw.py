"""The live actor's handling of replica events, evaluated (K6'): an entry is selected for download - fetched from the
providing peer, or recorded as missing so that it is fetched once a neighbour announces the content - exactly when the
event's download flag (computed from the document's download policy, C15.R1 / C12.R3) is set."""
from . import mir

ORE = "engine::live::LiveActor::on_replica_event"


def eval_remote_insert(f, should, status):
    from . import feval as E, coll
    log = []
    C = coll.Collections(f)

    def oracle(kind, name, payload, site):
        if kind == "await":
            return E.UNIT if str(name).startswith("fut:") else None
        if kind != "call":
            return None
        t, args, it = payload
        names = [it.tokname(a).strip("&*") for a in args]
        if mir.callee_matches(t, r"engine::live::LiveActor::start_download$"):
            log.append(("start_download", names[1:]))
            return E.Tok("fut:start_download")
        if name in ("insert", "remove", "extend") and names and ("missing_hashes" in names[0] or "queued_hashes" in names[0]):
            log.append(("%s.%s" % (names[0].split(".")[-1], name), names[1:]))
            return E.Int(1)
        if name == "from_bytes":
            return E.Ok(E.Tok("peer(%s)" % names[0]))
        if name == "content_hash":
            return E.Tok("hash(%s)" % names[0])
        if name == "is_syncing":
            return E.Int(1)
        if name in ("broadcast", "broadcast_neighbors"):
            log.append((name, names[1:]))
            return E.Tok("fut:" + name)
        if name == "to_stdvec":
            return E.Ok(E.Tok("bytes(%s)" % names[0]))
        if name == "fmt_short":
            return E.Tok("short")
        return C.handle(kind, name, payload, site)
    EVT, CS = "sync::Event", "sync::ContentStatus"
    evt = E.variant(f, EVT, "RemoteInsert", namespace=E.Tok("ns"), entry=E.Tok("entry"), should_download=E.Int(should), remote_content_status=E.variant(f, CS, status), **{"from": E.Tok("from")})
    try:
        ret, hp, evs = E.run_async(f, ORE, [E.href("this"), evt], {"this": E.Tok("actor")}, oracle)
        return E.describe(ret, f), log
    except E.Unsupported as e:
        return "UNSUPPORTED-FORM: %s" % e, log


def check_download_selection(ctx, rule):
    f = ctx.facts
    b = f.body(ORE + "::{closure#0}")
    ctx.touch(b)
    statuses = [v["name"] for v in f.adt("sync::ContentStatus")["variants"]]
    for should in (0, 1):
        for st in statuses:
            got, log = eval_remote_insert(f, should, st)
            dl = [x for x in log if x[0] == "start_download"]
            miss = [x for x in log if x[0] == "missing_hashes.insert"]
            other = [x for x in log if x not in dl and x not in miss]
            if should:
                ok = got == "Ok(())" and len(dl) + len(miss) == 1 and not other
                if dl:
                    ok = ok and dl[0][1][:3] == ["ns", "hash(entry)", "peer(from)"]
                if miss:
                    ok = ok and miss[0][1] == ["hash(entry)"]
                spec = "the content of this entry is fetched from the providing peer or recorded as missing - exactly one of the two"
            else:
                ok = got == "Ok(())" and not log
                spec = "nothing is fetched, queued or recorded"
            ctx.check(ok, rule, ORE, "remote-insert[should_download=%d,%s]" % (should, st), "returns %s, effects %s; spec: %s" % (got, log, spec), b.sp)

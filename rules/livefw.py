"""The live actor's handling of replica events, evaluated (K6'): an entry is selected for download - fetched from the
providing peer, or recorded as missing so that it is fetched once a neighbour announces the content - exactly when the
event's download flag (computed from the document's download policy, C15.R1 / C12.R3) is set."""
from . import mir

ORE = "engine::live::LiveActor::on_replica_event"


def eval_remote_insert(f, should, status):
    from . import feval as E, coll
    log = []
    C = coll.Collections(f)

    def oracle(kind, name, payload, site):
        if kind == "await":
            return E.UNIT if str(name).startswith("fut:") else None
        if kind != "call":
            return None
        t, args, it = payload
        names = [it.tokname(a).strip("&*") for a in args]
        if mir.callee_matches(t, r"engine::live::LiveActor::start_download$"):
            log.append(("start_download", names[1:]))
            return E.Tok("fut:start_download")
        if name in ("insert", "remove", "extend") and names and ("missing_hashes" in names[0] or "queued_hashes" in names[0]):
            log.append(("%s.%s" % (names[0].split(".")[-1], name), names[1:]))
            return E.Int(1)
        if name == "from_bytes":
            return E.Ok(E.Tok("peer(%s)" % names[0]))
        if name == "content_hash":
            return E.Tok("hash(%s)" % names[0])
        if name == "is_syncing":
            return E.Int(1)
        if name in ("broadcast", "broadcast_neighbors"):
            log.append((name, names[1:]))
            return E.Tok("fut:" + name)
        if name == "to_stdvec":
            return E.Ok(E.Tok("bytes(%s)" % names[0]))
        if name == "fmt_short":
            return E.Tok("short")
        return C.handle(kind, name, payload, site)
    EVT, CS = "sync::Event", "sync::ContentStatus"
    evt = E.variant(f, EVT, "RemoteInsert", namespace=E.Tok("ns"), entry=E.Tok("entry"), should_download=E.Int(should), remote_content_status=E.variant(f, CS, status), **{"from": E.Tok("from")})
    try:
        ret, hp, evs = E.run_async(f, ORE, [E.href("this"), evt], {"this": E.Tok("actor")}, oracle)
        return E.describe(ret, f), log
    except E.Unsupported as e:
        return "UNSUPPORTED-FORM: %s" % e, log


def check_download_selection(ctx, rule):
    f = ctx.facts
    b = f.body(ORE + "::{closure#0}")
    ctx.touch(b)
    statuses = [v["name"] for v in f.adt("sync::ContentStatus")["variants"]]
    for should in (0, 1):
        for st in statuses:
            got, log = eval_remote_insert(f, should, st)
            dl = [x for x in log if x[0] == "start_download"]
            miss = [x for x in log if x[0] == "missing_hashes.insert"]
            other = [x for x in log if x not in dl and x not in miss]
            if should:
                ok = got == "Ok(())" and len(dl) + len(miss) == 1 and not other
                if dl:
                    ok = ok and dl[0][1][:3] == ["ns", "hash(entry)", "peer(from)"]
                if miss:
                    ok = ok and miss[0][1] == ["hash(entry)"]
                spec = "the content of this entry is fetched from the providing peer or recorded as missing - exactly one of the two"
            else:
                ok = got == "Ok(())" and not log
                spec = "nothing is fetched, queued or recorded"
            ctx.check(ok, rule, ORE, "remote-insert[should_download=%d,%s]" % (should, st), "returns %s, effects %s; spec: %s" % (got, log, spec), b.sp)


OSR = "engine::live::LiveActor::on_sync_report"


def eval_sync_report(f, syncing, decode, news):
    """the live actor's handler of a gossiped sync report: (result, log)"""
    from . import feval as E, coll
    log = []
    C = coll.Collections(f)

    def oracle(kind, name, payload, site):
        if kind == "await":
            if str(name) == "fut:has_news_for_us":
                return {"none": E.Ok(E.NONE), "some": E.Ok(E.Some(E.Tok("n-authors"))), "err": E.Err(E.Tok("actor-error"))}[news]
            return E.UNIT if str(name).startswith("fut:") else None
        if kind != "call":
            return None
        t, args, it = payload
        names = [it.tokname(a).strip("&*") for a in args]
        if name == "is_syncing":
            log.append(("is_syncing", names[1:]))
            return E.Int(1 if syncing else 0)
        if mir.callee_matches(t, r"heads::AuthorHeads::decode$"):
            log.append(("decode", names))
            return E.Ok(E.Tok("heads-of(%s)" % names[0])) if decode else E.Err(E.Tok("decode-error"))
        if mir.callee_matches(t, r"actor::SyncHandle::has_news_for_us$"):
            log.append(("has_news_for_us", names[1:]))
            return E.Tok("fut:has_news_for_us")
        if mir.callee_matches(t, r"engine::live::LiveActor::sync_with_peer$"):
            log.append(("sync_with_peer", [names[1], names[2], E.describe(it.resolve(args[3]), f)]))
            return E.UNIT
        return C.handle(kind, name, payload, site)
    rep = E.struct(f, "engine::live::SyncReport", namespace=E.Tok("report.namespace"), heads=E.Tok("report.heads"))
    try:
        ret, hp, evs = E.run_async(f, OSR, [E.href("this"), E.Tok("sender"), rep], {"this": E.Tok("actor")}, oracle)
        return E.describe(ret, f), log
    except E.Unsupported as e:
        return "UNSUPPORTED-FORM: %s" % e, log


def check_sync_report(ctx, rule):
    """a head report leads to a request to its sender exactly when the store flags it as news for us (C13: news exactly for
    strictly newer or unknown authors - decided by has_news_for_us, R2), judged on the heads decoded from that report for the
    document the report names; a report that cannot be decoded, or for a document we do not sync, is dropped"""
    f = ctx.facts
    b = f.body(OSR + "::{closure#0}")
    ctx.touch(b)
    for syncing in (1, 0):
        for decode in (1, 0):
            for news in ("some", "none", "err"):
                if (not syncing or not decode) and news != "some":
                    continue
                got, log = eval_sync_report(f, syncing, decode, news)
                dials = [x[1] for x in log if x[0] == "sync_with_peer"]
                asked = [x[1] for x in log if x[0] == "has_news_for_us"]
                want = bool(syncing and decode and news == "some")
                ok = got == "()" and (len(dials) == 1) == want and len(dials) <= 1
                if dials:
                    ok = ok and dials[0][:2] == ["report.namespace", "sender"]
                if syncing and decode:
                    ok = ok and asked == [["report.namespace", "heads-of(report.heads)"]]
                ctx.check(ok, rule, OSR, "report[%s,%s,news=%s]" % ("syncing" if syncing else "not-syncing", "decodes" if decode else "garbage", news if (syncing and decode) else "-"),
                          "returns %s; asked the store %s; requests %s; spec: one request to the sender of the report for the document it names iff the store flags the decoded heads as news" % (got, asked, dials), b.sp)


L = "engine::live::LiveActor::"


def eval_join_leave(f, which, syncing, fail=None):
    """LiveActor::start_sync / leave evaluated against a model of the set of syncing documents: (result, log, marked syncing
    afterwards)"""
    from . import feval as E, coll
    log = []
    C = coll.Collections(f)
    st = {"syncing": bool(syncing)}

    def oracle(kind, name, payload, site):
        if kind == "await":
            nm = str(name)
            if nm.startswith("fut:"):
                m = nm[4:]
                if m == fail:
                    return E.Err(E.Tok("error:" + m))
                if m == "get_sync_peers":
                    return E.Ok(E.NONE)
                return E.Ok(E.Tok("result:" + m))
            return None
        if kind != "call":
            return None
        t, a, it = payload
        names = [it.tokname(x).strip("&*") for x in a]
        if mir.callee_matches(t, r"engine::state::NamespaceStates::(is_syncing|insert|remove)$"):
            log.append((name, names[1:]))
            if name == "is_syncing":
                return E.Int(1 if st["syncing"] else 0)
            if name == "insert":
                was = st["syncing"]
                st["syncing"] = True
                ret_ty = t["f"].get("ret") or ""
                return E.Int(0 if was else 1)     # (a `bool` result, if the function has one: newly inserted)
            was = st["syncing"]
            st["syncing"] = False
            return E.Int(1 if was else 0)
        if mir.callee_matches(t, r"actor::SyncHandle::\w+$"):
            log.append((name, names[1:] if name != "open" else [names[1], E.describe(it.resolve(a[2]), f)]))
            return E.Tok("fut:" + name)
        if mir.callee_matches(t, r"engine::live::LiveActor::join_peers$"):
            log.append(("join_peers", names[1:2]))
            return E.Tok("fut:join_peers")
        if name == "quit":
            log.append(("gossip.quit", names[1:]))
            return E.UNIT
        if name == "clone":
            return a[0]
        if name == "remove" and names and "subscribers" in names[0]:
            return E.NONE
        return C.handle(kind, name, payload, site)
    args = [E.href("this"), E.Tok("ns")] + ([coll.seq("vec", [])] if which == "start_sync" else [E.Int(0)])
    try:
        ret, hp, evs = E.run_async(f, L + which, args, {"this": E.Tok("actor")}, oracle)
        return E.describe(ret, f), log, st["syncing"]
    except E.Unsupported as e:
        return "UNSUPPORTED-FORM: %s" % e, log, st["syncing"]


def check_join_leave(ctx, rule):
    """the engine's own use of the store handle is balanced and truthful: joining a document takes one handle (with sync on and
    the engine's event channel subscribed) exactly when the document was not joined yet, and marks it as joined only if that
    open succeeded; leaving releases exactly that handle, and only if the document was joined"""
    f = ctx.facts
    ss = f.body(L + "start_sync::{closure#0}")
    lv = f.body(L + "leave::{closure#0}")
    ctx.touch(ss, lv)
    for syncing, fail in ((0, None), (0, "open"), (1, None)):
        got, log, marked = eval_join_leave(f, "start_sync", syncing, fail)
        opens = [x for x in log if x[0] == "open"]
        names = [x[0] for x in log]
        problems = []
        if got.startswith("UNSUPPORTED"):
            problems.append(got)
        elif syncing:
            if opens:
                problems.append("a document that is joined already is opened again (a handle nobody releases)")
            if not marked:
                problems.append("no longer marked as joined")
        elif fail:
            if not got.startswith("Err("):
                problems.append("the failed open is not reported")
            if marked:
                problems.append("marked as joined although the open failed: a later join skips the open, and leaving releases a handle that was never taken")
        else:
            if len(opens) != 1 or opens[0][1][0] != "ns" or "replica_events_tx" not in opens[0][1][1] or not opens[0][1][1].startswith("0(1,"):
                problems.append("expected one open of the document with sync on and the engine's event channel subscribed, got %s" % opens)
            if not marked:
                problems.append("not marked as joined")
            if not got.startswith("Ok("):
                problems.append("returns %s" % got)
        ctx.check(not problems, rule, L + "start_sync", "join[%s%s]" % ("joined-already" if syncing else "not-joined", ",open-fails" if fail else ""),
                  "returns %s; calls %s; marked as joined afterwards: %s; %s" % (got, log, marked, "; ".join(problems) or "as specified"), ss.sp)
    for syncing in (1, 0):
        got, log, marked = eval_join_leave(f, "leave", syncing)
        closes = [x for x in log if x[0] == "close"]
        off = [x for x in log if x[0] == "set_sync"]
        unsub = [x for x in log if x[0] == "unsubscribe"]
        problems = []
        if got.startswith("UNSUPPORTED"):
            problems.append(got)
        elif syncing:
            if len(closes) != 1 or closes[0][1] != ["ns"]:
                problems.append("expected exactly one close of the document, got %s" % closes)
            if marked:
                problems.append("still marked as joined")
        else:
            if closes or off or unsub:
                problems.append("a document that was not joined is closed / switched off / unsubscribed: %s" % (closes + off + unsub))
        ctx.check(not problems, rule, L + "leave", "leave[%s]" % ("joined" if syncing else "not-joined"),
                  "returns %s; calls %s; marked as joined afterwards: %s; %s" % (got, log, marked, "; ".join(problems) or "as specified"), lv.sp)
    # a leave whose store step fails (round 12, C11-12): the document stays marked as joined only if the store still has it as the
    # engine joined it - once sync was switched off, the event channel unsubscribed or the handle released, the engine may not go
    # on answering requests for it as for a document that is being synced ("requests for documents that are not being synced are
    # declined as not found": the joined mark is what accept_sync_request consults)
    for fail in ("set_sync", "unsubscribe", "close"):
        got, log, marked = eval_join_leave(f, "leave", 1, fail)
        done = []
        for x in log:
            if x[0] in ("set_sync", "unsubscribe", "close"):
                if x[0] == fail:
                    break
                done.append(x[0])
        problems = []
        if got.startswith("UNSUPPORTED"):
            problems.append(got)
        else:
            if not got.startswith("Err("):
                problems.append("the failed step is not reported (returns %s)" % got)
            if marked and done:
                problems.append("still marked as joined although %s already took effect in the store" % "/".join(done))
        ctx.check(not problems, rule, L + "leave", "leave[joined,%s-fails]" % fail,
                  "returns %s; calls %s; marked as joined afterwards: %s; %s" % (got, log, marked, "; ".join(problems) or "as specified"), lv.sp)


def check_state_insert(ctx, rule):
    """NamespaceStates::insert evaluated on a map model: marking a document that is marked already keeps its per-peer sync states
    (a second start_sync - adding peers, sharing - must not reset the slots of running sessions)"""
    from . import feval as E, coll
    f = ctx.facts
    NS = "engine::state::NamespaceStates"
    b = f.body(NS + "::insert")
    ctx.touch(b)
    for present in (1, 0):
        C = coll.Collections(f)

        def oracle(kind, name, payload, site):
            if kind in ("eq", "cmp"):
                a, b2 = str(name), str(payload)
                if a.startswith("ns") and b2.startswith("ns"):
                    return (a == b2) if kind == "eq" else ((a > b2) - (a < b2))
                return None
            return C.handle(kind, name, payload, site)
        items = [("tuple", [E.Tok("ns1"), E.href("cell-of-ns1")])] if present else []
        heap = {"self": E.struct(f, NS, **{"0": coll.seq("map", items)}), "cell-of-ns1": E.Tok("state-with-running-sessions")}
        try:
            ret, itp = E.run_it(f, b.path, [E.href("self"), E.Tok("ns1")], heap, oracle)
            m = E.field(f, itp.heap["self"], NS, "0")
            rows = [(itp.tokname(x[1][0]), E.describe(itp.deref_val(x[1][1]), f)) for x in (m[2] if coll.is_seq(m) else [])]
            after = str(rows)
        except E.Unsupported as e:
            rows, after = None, "UNSUPPORTED-FORM: %s" % e
        ok = rows is not None and len(rows) == 1 and rows[0][0] == "ns1" and (rows[0][1] == "state-with-running-sessions" if present else True)
        ctx.check(ok, rule, b.path, "mark-as-syncing[%s]" % ("marked-already" if present else "new"),
                  "set afterwards: %s; spec: %s" % (after, "the existing per-peer states are kept" if present else "the document is in the set"), b.sp)


# ------------------------------------------------------------------------------------------------ completion of a session
OSF = "engine::live::LiveActor::on_sync_finished"


def eval_sync_finished(f, ok, finish, subs_send, num_recv=0, queued=0):
    """LiveActor::on_sync_finished evaluated: `ok` - the session's result; `finish` - what NamespaceStates::finish answers
    (None, or (started, resync flag)); `subs_send` - what SubscribersMap::send reports (was there a subscriber)"""
    from . import feval as E, coll
    log = []
    C = coll.Collections(f)

    def oracle(kind, name, payload, site):
        if kind == "await":
            nm = str(name)
            if nm == "fut:subscribers.send":
                return E.Int(1 if subs_send else 0)
            if nm.startswith("fut:register_useful_peer"):
                return E.Ok(E.UNIT)
            if nm.startswith("fut:"):
                return E.UNIT
            return None
        if kind in ("cmp", "eq"):
            a, b2 = str(name), str(payload)
            if "num_recv" in a or "num_recv" in b2:
                o = 1 if num_recv > 0 else 0
                return (o == 0) if kind == "eq" else (o if "num_recv" in a else -o)
            return None
        if kind != "call":
            return None
        t, args, it = payload
        names = [it.tokname(a).strip("&*") for a in args]
        if mir.callee_matches(t, r"engine::state::NamespaceStates::finish$"):
            log.append(("finish", names[1:3]))
            return E.NONE if finish is None else E.Some(("tuple", [E.Tok("started"), E.Int(1 if finish else 0)]))
        if mir.callee_matches(t, r"engine::live::LiveActor::<D>::sync_with_peer$|engine::live::LiveActor::sync_with_peer$"):
            log.append(("sync_with_peer", names[1:3] + [E.describe(it.resolve(args[3]), f)]))
            return E.UNIT
        if mir.callee_matches(t, r"actor::SyncHandle::register_useful_peer$"):
            log.append(("register_useful_peer", names[1:]))
            return E.Tok("fut:register_useful_peer")
        if mir.callee_matches(t, r"engine::live::SubscribersMap::send$"):
            return E.Tok("fut:subscribers.send")
        if mir.callee_matches(t, r"engine::live::LiveActor(::<D>)?::broadcast_neighbors$"):
            log.append(("broadcast_neighbors", names[1:2]))
            return E.Tok("fut:broadcast")
        if name == "contains_namespace":
            return E.Int(queued)
        if name in ("set_may_emit_ready",):
            return E.Some(E.UNIT)
        if name == "encode" and "AuthorHeads" in ((t["f"].get("full") or "") + (t["f"].get("path") or "")):
            return E.Ok(E.Tok("encoded-heads"))
        if name in ("max_message_size", "now", "to_string", "as_bytes", "into", "from", "clone"):
            return E.Tok("%s(%s)" % (name, ",".join(names)))
        return C.handle(kind, name, payload, site)
    if ok:
        outcome = E.struct(f, "sync::SyncOutcome", heads_received=E.Tok("heads"), num_recv=E.Tok("num_recv"), num_sent=E.Tok("num_sent"))
        details = E.struct(f, "net::SyncFinished", namespace=E.Tok("namespace"), peer=E.Tok("peer"), outcome=outcome, timings=E.Tok("timings"))
        result = E.Ok(details)
    else:
        result = E.Err(E.Tok("sync-error"))
    try:
        ret, hp, evs = E.run_async(f, OSF, [E.href("this"), E.Tok("namespace"), E.Tok("peer"), E.Tok("origin"), result], {"this": E.Tok("actor")}, oracle)
        return E.describe(ret, f), log
    except E.Unsupported as e:
        return "UNSUPPORTED-FORM: %s" % e, log


def check_sync_finished(ctx, rule, clause):
    """clause "follow-up": whenever finish() says that a report was refused while the session ran (resync flag), exactly one dial
    (reason Resync) to that peer for that document follows - whatever the session's result, whether or not anybody is subscribed,
    whether or not content is pending; no dial otherwise. clause "useful-peer": the peer is registered as useful for the document
    exactly once after a successful session and never after a failed or declined one ("a declined request changes nothing in
    the store")"""
    f = ctx.facts
    b = f.body(OSF + "::{closure#0}")
    ctx.touch(b)
    for ok in (1, 0):
        for finish in (None, 0, 1):
            for subs in (1, 0):
                for queued in (0, 1):
                    got, log = eval_sync_finished(f, ok, finish, subs, num_recv=1 if ok else 0, queued=queued)
                    key = "completion[%s,finish=%s,subscribers=%d,pending-content=%d]" % ("session-ok" if ok else "session-failed", {None: "not-the-owner", 0: "freed", 1: "freed+resync"}[finish], subs, queued)
                    problems = []
                    if got.startswith("UNSUPPORTED"):
                        problems.append(got)
                    dials = [x for x in log if x[0] == "sync_with_peer"]
                    regs = [x for x in log if x[0] == "register_useful_peer"]
                    if clause == "follow-up":
                        want = 1 if finish == 1 else 0
                        if len(dials) != want or any(d[1][:2] != ["namespace", "peer"] or "Resync" not in d[1][2] for d in dials):
                            problems.append("follow-up dials %s, spec %d (Resync, this document, this peer)" % ([d[1] for d in dials], want))
                        if [x for x in log if x[0] == "finish"] != [("finish", ["namespace", "peer"])]:
                            problems.append("finish is not reported once for (namespace, peer): %s" % [x for x in log if x[0] == "finish"])
                    else:
                        want = 1 if ok else 0
                        if len(regs) != want or any(r[1][0] != "namespace" or "peer" not in r[1][1] for r in regs):
                            problems.append("useful-peer registrations %s, spec %d" % ([r[1] for r in regs], want))
                    ctx.check(not problems, rule, OSF, key + "." + clause, "effects %s" % log, b.sp, bad_detail="; ".join(problems) + " - effects %s" % log)
